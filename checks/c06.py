"""C06 — losses and error functions: theorems (Props/C06.lean) + correspondence K-C06
(harness/c06.cpp vs Model/Loss.lean through drv_c06; exact mode on dyadic data for the
piecewise-polynomial losses, bit mode (Float instance, same libm) for CrossEntropy/Huber)."""
import os, re
from vlib import core

TRUST = ("Lean 4.33 kernel; axioms at most propext/Classical.choice/Quot.sound (audited per run); "
         "hand-written model Model/Loss.lean tied to the C++ by the correspondence harness (differential, generator-bounded); ")
MANIFEST = dict(
  text=("Theorems (Props/C06.lean + Lemmas/LossCurve1/2, LossSecond, ErrFn, ErrFn2): for every loss class of Shark the batch value is "
        "the sum of the per-element values and the derivative call returns the value of eval; every differentiable loss (squared "
        "with vector and class labels, hinge and squared hinge in the one-column and the multi-class branch, epsilon-hinge, squared "
        "epsilon-hinge, Huber, cross-entropy with one column, several columns and probability-vector labels) satisfies the "
        "total-derivative contract BatchGradAt over the reals (derivative along every differentiable curve of predictions; kink "
        "points stated as hypotheses, none for the C1 losses), the Hessian entries of cross-entropy are the derivatives of its "
        "gradient, one-/two-norm regularizers (masked) return their gradients. End to end "
        "(errorFunction_evalDerivative_end_to_end): for every ConcatenatedModel of C04 (its derivative theorem is imported, not "
        "assumed), every data set, every batch partition, every thread count >= 1 with the thread ranges regenerated from the C++ "
        "and every order in which the threads merge, the modelled ErrorFunction::evalDerivative returns the mean loss and the "
        "derivative of the mean loss w.r.t. the weight (offset: chain_offset_contract) it is asked for; two partitions of the same "
        "data give the same error (errorFunction_partition_independent); weighted variant = weighted mean and its gradient, equal "
        "weights = unweighted; mini-batch branch = mean over the drawn batch, its expectation = data-set mean for equal batch "
        "sizes; regularizer / CombinedObjectiveFunction add exactly strength*term to value and gradient; NegativeLogLikelihood "
        "value independent of threads. Correspondence K-C06 on every run: all eleven loss classes incl. all overloads (exact "
        "comparison on dyadic data, bit-for-bit with the Float instance for exp/log/sqrt losses), the real ErrorFunction "
        "(eval and evalDerivative; LinearModel and two-layer ConcatenatedModel; unweighted, weighted, mini-batch, with One/TwoNorm "
        "regularizer and masks, inside a CombinedObjectiveFunction) over random partitions and thread counts 1..B+1, "
        "AbstractLoss::eval(Data,Data), NegativeAUC, NegativeLogLikelihood, with in-harness oracles that recompute value and "
        "gradient element by element and every loss value from its textbook definition. Object re-use (Lemmas/ObjReuse.lean, "
        "Model/LossOut.lean, Model/ErrFnHist.lean): (a) output-object contract - for each of the nine derivative losses, for every "
        "history of derivative calls (any losses, any shapes, any order) on ONE gradient object with arbitrary previous shape and "
        "contents, every call leaves in the object what it leaves in a fresh one (outLoss_contract, runHistory_eq_fresh; from the "
        "per-entry write lists of each loss and its clear() flag, the flags regenerated from the C++ on every run); (b) the model "
        "object is scratch - for every history of eval/evalDerivative calls on several ErrorFunction objects (plain, weighted, "
        "mini-batch, regularised; own loss and partition each) sharing one model, interleaved with foreign writes to the model, "
        "copies, assignments, init() and thread-count changes, every evaluation is a function of (point, data set of the object) "
        "(run_eq_runPure; rests on the regenerated fact that each entry point first writes the point into the model). Both are "
        "exercised on the real code in every run (quick tier too): rderiv/rseq histories on one pre-filled gradient object (same and "
        "different shapes, margins violated then satisfied and vice versa, one- and multi-column labels, rat and bit mode) and efh "
        "histories (same point asked again after a foreign write), compared with the Lean models line by line and, by an in-harness "
        "oracle, with the same call on freshly constructed objects (bit-equal on dyadic data)."),
  note=TRUST + "floating-point rounding is not modelled (theorems are about exact arithmetic; the step to doubles is the correspondence: "
       "data that is merged across threads is exact, exp/log/sqrt losses are compared bit for bit on one thread); hand-written "
       "models Model/Loss2.lean, Model/ErrFn.lean; the derivative theorems are per parameter (weight / offset of an optimised dense "
       "layer of a C04 chain) away from the kinks of model (C04 NoKink) and loss (stated per loss; CrossEntropy's < -200 shortcut "
       "excluded); NegativeAUC = pair count and the loss values' textbook definitions are oracles, not theorems; "
       "CrossValidationError is not reached (needs a trainer); the second-derivative overload of CrossEntropy and "
       "NegativeWilcoxonMannWhitneyStatistic are tied to the code only once findings F-C06-2/3 are fixed (until then the check "
       "reports them as KNOWN-FINDING); the write lists of Model/LossOut.lean are hand-written (only the clear() flags and the "
       "first-statement facts are regenerated); the batch a mini-batch evaluation draws is taken from the implementation's output "
       "(the model gives the result for every batch); the fresh-object comparison is an oracle; open findings F-C06-5 (sequence "
       "gradient appended to a re-used object), F-C06-6 (ErrorFunction::operator= not instantiable), F-C06-7 (copy constructor "
       "leaves the regularizer uninitialised) in known_findings.json - until they are fixed no copy/asg steps are generated and the "
       "rseq histories run in the recorded-defects run.",
  technique="Lean 4 proofs (algebraic identities over Rat, HasDerivAt over Real composed through the C04 chain theorems, thread-range tiling regenerated from the source) + exact/bit-exact differential correspondence with the C++ losses and the real ErrorFunction",
  design="§6 C06")
FINISH = dict(level="proof",
              rule="cases = (loss, eval|deriv, batch of dyadic labels/predictions) for every loss class; (flavour, loss, model, partition, threads, "
                   "data) for the real ErrorFunction; cost/auc/nll/discrete/sequence ops; histories of derivative calls on one gradient "
                   "object (gset + 3..7 rderiv); histories of 4..20 steps on 1..6 ErrorFunction objects sharing a model (efh); "
                   "exact-closed losses in rat mode, exp/log/sqrt "
                   "losses and everything divided by n in float mode; distinct = distinct op text; non-trivial = more than one row / batch")
LAKE_TARGETS = ["SharkVerif.Props.C06", "drv_c06"]
# Props/C06.lean states the property; the composition lemmas it imports are obligations of their own
PROOF_MODULES = ["SharkVerif.Props.C06", "SharkVerif.Lemmas.ErrFn", "SharkVerif.Lemmas.ErrFn2", "SharkVerif.Lemmas.LossCurve1",
                 "SharkVerif.Lemmas.LossCurve2", "SharkVerif.Lemmas.LossSecond", "SharkVerif.Lemmas.LossContract", "SharkVerif.Lemmas.ObjReuse"]
SRC = ["src/Core/Random.cpp", "src/ObjectiveFunctions/DiscreteLoss.cpp"]
EXACT = ["squared", "squaredclass", "hinge", "sqhinge", "epshinge", "sqepshinge", "zeroone"]
FLOATY = ["crossentropy", "crossentropysoft", "huber", "absolute", "squared", "hinge", "sqhinge", "epshinge"]
CLASS = {"squaredclass", "hinge", "sqhinge", "crossentropy", "zeroone"}
NODERIV = {"zeroone", "absolute"}
EF_VEC = ["squared", "epshinge", "sqepshinge"]
EF_CLS = ["squaredclass", "hinge", "sqhinge"]


def translate(ctx):
    a = ctx.translate("par_regions.py")
    b = ctx.translate("loss_outputs.py")
    return a and b


WMW_PROBE = """#include <shark/ObjectiveFunctions/NegativeAUC.h>
using namespace shark;
double probe(Data<unsigned int> const& t, Data<RealVector> const& p){ NegativeWilcoxonMannWhitneyStatistic<unsigned int, RealVector> w; return w.eval(t, p); }
"""


EFASSIGN_PROBE = """#include <shark/ObjectiveFunctions/ErrorFunction.h>
using namespace shark;
void probe(ErrorFunction<>& a, ErrorFunction<> const& b){ a = b; }
"""


def wmw_compiles(ctx):
    return probe_compiles(ctx, "include/shark/ObjectiveFunctions/NegativeAUC.h", WMW_PROBE)


def efassign_compiles(ctx):
    return probe_compiles(ctx, "include/shark/ObjectiveFunctions/ErrorFunction.h", EFASSIGN_PROBE)


def probe_compiles(ctx, header, WMW_PROBE):
    """A member of a class template (NegativeWilcoxonMannWhitneyStatistic::eval, ErrorFunction::operator=): whether it can
    be instantiated at all is only seen when it is used.  Syntax-only compile of a three-line probe, cached by the header's content."""
    import hashlib, subprocess
    hdr = os.path.join(core.REPO, header)
    key = hashlib.sha256((open(hdr).read() + WMW_PROBE).encode()).hexdigest()[:16]
    d = os.path.join(core.CACHE, "c06probe"); os.makedirs(d, exist_ok=True)
    res = os.path.join(d, key + ".res")
    if os.path.exists(res):
        return open(res).read().strip() == "ok"
    src = os.path.join(d, key + ".cpp"); open(src, "w").write(WMW_PROBE)
    pr = subprocess.run(["g++", "-std=c++11", "-DNDEBUG", "-w", "-fopenmp", "-fsyntax-only", "-I" + ctx.shark_h(),
                         "-I" + os.path.join(core.REPO, "include"), src], capture_output=True, text=True)
    open(res, "w").write("ok" if pr.returncode == 0 else "fail\n" + pr.stderr[-2000:])
    return pr.returncode == 0


def build(ctx):
    flags = (["-DC06_HAVE_WMW"] if wmw_compiles(ctx) else []) + (["-DC06_HAVE_EF_ASSIGN"] if efassign_compiles(ctx) else [])
    return ctx.harness("c06" + ("w" if "-DC06_HAVE_WMW" in flags else "") + ("a" if "-DC06_HAVE_EF_ASSIGN" in flags else ""), ["c06.cpp", "c06b.cpp"], repo_sources=SRC, flags=flags)


def dy(r, lo, hi, fracbits):
    """random dyadic token in [lo,hi] with `fracbits` fractional bits"""
    k = r.below(fracbits + 1)
    a = r.range(lo << k, hi << k)
    return f"{a}/{k}" if k else f"{a}"


def gen_loss_case(r, loss, floaty):
    n = r.choice([1, 1, 2, 3, 5, 8])
    m = r.choice([1, 1, 2, 3, 4]) if loss in ("hinge", "sqhinge", "crossentropy", "zeroone") else r.choice([1, 2, 3])
    if loss == "squaredclass": m = r.choice([2, 3, 4])
    kind = "eval" if (loss in NODERIV or r.chance(1, 3)) else "deriv"
    par = ""
    if loss in ("epshinge", "sqepshinge"): par = dy(r, 0, 2, 2)
    if loss == "huber": par = dy(r, 1, 3, 1)
    if loss == "zeroone": par = dy(r, -1, 1, 1)
    big = floaty and loss == "crossentropy" and r.chance(1, 3)     # exercise the value*label < -200 shortcut and large margins
    rng = (1000 if r.chance(1, 2) else 400) if big else 4           # beyond +-709.78 exp() overflows
    if loss in CLASS:
        classes = 2 if m == 1 else m
        labels = " ".join(str(r.below(classes)) for _ in range(n))
    else:
        labels = " ".join(dy(r, -rng, rng, 3) for _ in range(n * m))
    if big and n >= 2 and r.chance(1, 2):
        # rows of very different magnitude inside ONE batch (one row near +-1000, another near 0): anything
        # computed once per batch instead of once per row (log-sum-exp shift, normaliser) shows here
        rows = []
        for i in range(n):
            scale = r.choice([1, 4, 400, 1000])
            shift = r.choice([0, 0, -1000, 1000, 700, -700]) if scale <= 4 else 0
            rows.append(" ".join(dy(r, shift - scale, shift + scale, 3) for _ in range(m)))
        preds = " ".join(rows)
    else:
        preds = " ".join(dy(r, -rng, rng, 3) for _ in range(n * m))
    return f"{kind} {loss} | {par} | {n} {m} | {labels} | {preds}"


# ----------------------------------------------------------------------------- generators of the second part
def perm(r, n):
    o = list(range(n))
    for i in range(n - 1, 0, -1):
        j = r.below(i + 1); o[i], o[j] = o[j], o[i]
    return o


def gen_sizes(r, ctx, tag, allow_empty_batch=True):
    """batch partition of a small data set; boundary classes: one batch, one element, a batch of size 0, many batches"""
    shape = r.choice(["one-batch", "one-element", "singletons", "ragged", "ragged", "equal", "with-empty-batch"])
    if shape == "one-batch": sizes = [r.range(1, 6)]
    elif shape == "one-element": sizes = [1]
    elif shape == "singletons": sizes = [1] * r.range(2, 7)
    elif shape == "equal": sizes = [r.range(1, 3)] * r.range(2, 6)
    else: sizes = [r.range(1, 4) for _ in range(r.range(2, 7))]
    if shape == "with-empty-batch":
        if allow_empty_batch: sizes[r.below(len(sizes))] = 0
        if sum(sizes) == 0: sizes.append(1)
    ctx.hist(tag + "_partition_shape", shape)
    ctx.hist(tag + "_num_batches", len(sizes))
    return sizes


def gen_labels(r, ctx, loss, n, m, tag):
    if loss in EF_CLS or loss in ("zeroone",):
        classes = 2 if m == 1 else m
        enc = r.choice(["random", "random", "one-class", "alternating"])
        if enc == "one-class":
            c = r.below(classes); labs = [c] * n
        elif enc == "alternating": labs = [i % classes for i in range(n)]
        else: labs = [r.below(classes) for _ in range(n)]
        ctx.hist(tag + "_label_encoding", f"{'one-column{0,1}' if m == 1 else 'multi-class'}:{enc}")
        return " ".join(map(str, labs))
    return " ".join(dy(r, -3, 3, 1) for _ in range(n * m))


def gen_net(r, ctx, m, tag):
    nIn = r.range(1, 3)
    if r.chance(1, 3):
        nh = r.range(1, 3)
        spec = [f"rectifier:{r.below(2)}:{nh}", f"linear:{r.below(2)}:{m}"]
    else:
        spec = [f"linear:{r.below(2)}:{m}"]
    np_, cur = 0, nIn
    for l in spec:
        _, hb, no = l.split(":"); np_ += int(no) * cur + (int(no) if hb == "1" else 0); cur = int(no)
    ctx.hist(tag + "_model", "+".join(x.split(":")[0] + ("+b" if x.split(":")[1] == "1" else "") for x in spec))
    return nIn, spec, np_


def gen_ef_case(r, ctx, flavour, kind=None):
    loss = r.choice(EF_VEC + EF_CLS)
    m = r.choice([1, 1, 2, 3]) if loss != "squaredclass" else r.choice([2, 3])
    par = dy(r, 0, 2, 1) if loss in ("epshinge", "sqepshinge") else ""
    sizes = gen_sizes(r, ctx, "ef", allow_empty_batch=(flavour != "mini"))
    if flavour == "mini" and len(sizes) == 1 and r.chance(3, 4):
        sizes = sizes + [r.range(1, 4) for _ in range(r.range(1, 3))]      # one batch: the mini-batch branch equals the full one
    n, B = sum(sizes), len(sizes)
    nIn, spec, np_ = gen_net(r, ctx, m, "ef")
    T = r.choice([1, 2, 3, 4, 8, B, B + 1])
    kind = kind or ("eval" if r.chance(1, 3) else "deriv")
    params = " ".join(dy(r, -2, 2, 1) for _ in range(np_))
    xs = " ".join(dy(r, -3, 3, 2) for _ in range(n * nIn))
    labs = gen_labels(r, ctx, loss, n, m, "ef")
    order = perm(r, min(T, B))
    extra = "none"
    if flavour == "w":
        wk = r.choice(["random", "random", "with-zeros", "all-equal", "one-nonzero", "all-zero"] if n > 1 else ["random", "all-zero", "all-equal"])
        if wk == "all-equal": c = dy(r, 1, 3, 1); ws = [c] * n
        elif wk == "all-zero": ws = ["0"] * n
        elif wk == "one-nonzero": ws = ["0"] * n; ws[r.below(n)] = dy(r, 1, 3, 1)
        else: ws = [("0" if (wk == "with-zeros" and r.chance(1, 2)) else dy(r, 0, 3, 1)) for _ in range(n)]
        ctx.hist("ef_weights", wk)
        extra = "w " + " ".join(ws); order = perm(r, B)
    elif flavour == "mini":
        extra = f"mini {r.range(1, 1000)}"
    elif flavour == "reg":
        rk = r.choice(["one", "two"]); mk = ""
        mkind = r.choice(["no-mask", "01-mask", "real-mask"])
        if mkind == "01-mask": mk = " " + " ".join(str(r.below(2)) for _ in range(np_))
        if mkind == "real-mask": mk = " " + " ".join(dy(r, 0, 3, 1) for _ in range(np_))
        ctx.hist("ef_regularizer", f"{rk}:{mkind}")
        extra = f"reg {rk} {dy(r, 0, 2, 2)}{mk}"
    elif flavour == "comb":
        extra = f"comb {dy(r, 0, 2, 1)} {dy(r, 0, 2, 1)} {dy(r, 0, 2, 1)}"
    ctx.hist("ef_flavour", f"{flavour}:{kind}"); ctx.hist("ef_loss", f"{loss}:m={m}"); ctx.hist("ef_threads_vs_batches", "T>B" if T > B else ("T=B" if T == B else ("T=1" if T == 1 else "1<T<B")))
    ctx.hist("ef_num_elements", n if n < 4 else "4+")
    return (f"ef {kind} | {loss} {par} | {nIn} {' '.join(spec)} | {T} {' '.join(map(str, order))} | {params} | "
            f"{' '.join(map(str, sizes))} | {xs} | {labs} | {extra}")


def gen_cost_case(r, ctx):
    loss = r.choice(["squared", "hinge", "zeroone", "epshinge"])
    m = r.choice([1, 1, 2, 3])
    sizes = gen_sizes(r, ctx, "cost"); n, B = sum(sizes), len(sizes)
    T = r.choice([1, 2, 3, 4, 8, B + 1])
    par = dy(r, 0, 2, 1) if loss == "epshinge" else (dy(r, -1, 1, 1) if loss == "zeroone" else "")
    labs = gen_labels(r, ctx, "zeroone" if loss in ("hinge", "zeroone") else loss, n, m, "cost")
    prs = " ".join(dy(r, -3, 3, 2) for _ in range(n * m))
    return f"cost {loss} | {par} | {T} {' '.join(map(str, perm(r, B)))} | {' '.join(map(str, sizes))} | {m} | {labs} | {prs}"


def gen_auc_case(r, ctx, op):
    sizes = gen_sizes(r, ctx, "auc", allow_empty_batch=False); n = sum(sizes)   # Data::element(i) cannot step over an empty batch (see findings_proposed/C06.md, O1)
    kind = r.choice(["random", "ties", "all-tied", "separable", "one-class"])
    labs = [r.below(2) for _ in range(n)]
    if kind != "one-class" and n >= 2:
        labs[0], labs[1] = 0, 1
    if kind == "one-class": c = r.below(2); labs = [c] * n
    if kind == "ties": sc = [str(r.range(-1, 1)) for _ in range(n)]
    elif kind == "all-tied": sc = ["1"] * n
    elif kind == "separable": sc = [str(3 * l + r.range(0, 1)) for l in labs]
    else: sc = [dy(r, -4, 4, 3) for _ in range(n)]
    ctx.hist("auc_kind", kind)
    return f"{op} {r.below(2)} | {' '.join(map(str, sizes))} | {' '.join(map(str, labs))} | {' '.join(sc)}"


def gen_zow_case(r, ctx):
    sizes = gen_sizes(r, ctx, "zow", allow_empty_batch=False); n = sum(sizes); m = r.choice([1, 2, 3])   # with more batches than elements F-C06-1 reads beyond the weight vector
    labs = gen_labels(r, ctx, "zeroone", n, m, "zow")
    prs = " ".join(dy(r, -3, 3, 2) for _ in range(n * m))
    ws = " ".join(dy(r, 0, 3, 1) for _ in range(n))
    return f"zow | {dy(r, -1, 1, 1)} | {' '.join(map(str, sizes))} | {m} | {labs} | {prs} | {ws}"


def gen_misc_case(r, ctx):
    k = r.choice(["zeroonelabel", "discrete", "balanced", "seq", "seq", "hessplaceholder"])
    if k in ("zeroonelabel", "discrete", "balanced"):
        n = r.choice([0, 1, 2, 5]); c = r.range(1, 4)
        if k == "balanced": n = max(n, 1)
        ll = [r.below(c) for _ in range(n)]
        if k == "balanced": ll[0] = c - 1          # defineBalancedCost sizes the matrix by the largest label present
        labs = " ".join(map(str, ll)); prs = " ".join(str(r.below(c)) for _ in range(n))
        par = ""
        if k == "discrete":
            par = " ".join(("0" if a == b else dy(r, 0, 4, 2)) for a in range(c) for b in range(c))
        ctx.hist("misc_ops", k)
        return ("mode float" if k == "balanced" else "mode rat"), f"eval {k} | {par} | {n} {c} | {labs} | {prs}"
    if k == "seq":
        d = r.range(1, 2); ns = r.choice([1, 2, 3]); ignore = r.choice([0, 0, 1, 2])
        lens = [r.range(1, 4) for _ in range(ns)]
        tot = sum(lens)
        ctx.hist("misc_ops", "seq:" + ("throws(ignore>=length)" if any(x <= ignore for x in lens) else f"ignore={ignore}"))
        return "mode rat", (f"seq {'eval' if r.chance(1, 3) else 'deriv'} | {ignore} {d} | {' '.join(map(str, lens))} | "
                            f"{' '.join(dy(r, -3, 3, 2) for _ in range(tot * d))} | {' '.join(dy(r, -3, 3, 2) for _ in range(tot * d))}")
    m = r.choice([2, 3])
    ctx.hist("misc_ops", "nll")
    nIn = r.range(1, 2); sizes = [r.range(1, 3) for _ in range(r.range(1, 4))]; n = sum(sizes)
    hb = r.below(2)
    params = " ".join(dy(r, 1, 3, 2) for _ in range(nIn + hb))
    xs = " ".join(dy(r, 1, 9, 3) for _ in range(n * nIn))
    return "mode float", f"nll {'eval' if r.chance(1, 2) else 'deriv'} | {nIn} linear:{hb}:1 | {r.choice([1, 2, 3, 4])} | {params} | {' '.join(map(str, sizes))} | {xs}"


# ----------------------------------------------------------------------------- object re-use histories
RE_EXACT = ["squared", "squaredclass", "hinge", "sqhinge", "epshinge", "sqepshinge"]
RE_FLOAT = RE_EXACT + ["huber", "crossentropy", "crossentropysoft"]


def gen_rderiv(r, ctx, loss, n, m, floaty, margin):
    """one derivative call into the shared gradient object; `margin` in {"sat","viol","mixed"} steers the rows of the
    margin losses to satisfy / violate their margin (a satisfied margin is the row the loss does not write)"""
    par = ""
    if loss in ("epshinge", "sqepshinge"): par = dy(r, 0, 2, 1) if margin != "sat" else dy(r, 6, 9, 0)
    if loss == "huber": par = dy(r, 1, 3, 1)
    if loss in CLASS:
        classes = 2 if m == 1 else m
        labs = [r.below(classes) for _ in range(n)]
        rows = []
        for i in range(n):
            mode = margin if margin != "mixed" else r.choice(["sat", "viol", "any"])
            if m == 1:
                y = 2 * labs[i] - 1
                if mode == "sat": rows.append(str(y * r.range(1, 4)))              # y f >= 1 (incl. exactly on the margin)
                elif mode == "viol": rows.append(dy(r, -4, 1, 1) if y > 0 else dy(r, -1, 4, 1))
                else: rows.append(dy(r, -3, 3, 1))
            else:
                if mode == "sat": rows.append(" ".join(str(4 if j == labs[i] else r.range(-2, 2)) for j in range(m)))   # f_c - f_o >= 2
                elif mode == "viol": rows.append(" ".join(str(0 if j == labs[i] else r.range(-1, 3)) for j in range(m)))
                else: rows.append(" ".join(dy(r, -3, 3, 1) for _ in range(m)))
        labels = " ".join(map(str, labs)); preds = " ".join(rows)
    else:
        labels = " ".join(dy(r, -3, 3, 1) for _ in range(n * m))
        preds = " ".join(dy(r, -3, 3, 1) for _ in range(n * m))
    return f"rderiv {loss} | {par} | {n} {m} | {labels} | {preds}"


def gen_reuse_case(r, ctx, floaty):
    """history of derivative calls of several losses on ONE gradient object that starts with non-zero garbage: same shape
    again (resize keeps every entry), other shapes (the flat storage is re-interpreted), margins satisfied after violated
    and the other way round"""
    pool = RE_FLOAT if floaty else RE_EXACT
    calls = r.range(3, 7)
    n, m = r.choice([1, 2, 3, 5]), r.choice([1, 1, 2, 3])
    loss = r.choice(pool)
    ops, prev = [], None
    for k in range(calls):
        if k and not r.chance(2, 3):
            n, m = r.choice([1, 2, 3, 5]), r.choice([1, 1, 2, 3])
        if k and r.chance(1, 2): loss = r.choice(pool)
        if loss == "squaredclass" and m == 1: loss = r.choice(["hinge", "sqhinge"])
        margin = r.choice(["sat", "viol", "mixed"])
        if prev and prev[0] == (n, m) and prev[1] == "viol" and r.chance(2, 3): margin = "sat"
        ctx.hist("reuse_shape_vs_previous_call", "first" if prev is None else ("same" if prev[0] == (n, m) else "different"))
        if prev and prev[0] == (n, m): ctx.hist("reuse_margin_transition_same_shape", f"{prev[1]}->{margin}")
        ctx.hist("reuse_loss", f"{loss}:{'one-column' if m == 1 else 'multi-column'}")
        ops.append(gen_rderiv(r, ctx, loss, n, m, floaty, margin))
        prev = ((n, m), margin)
    # the object before the first call: same shape as the first call (typical: left over from the previous batch), or any other
    f = ops[0].split("|")[2].split()
    g = (int(f[0]), int(f[1])) if r.chance(1, 2) else (r.range(0, 6), r.range(0, 3))
    garbage = " ".join(str(r.choice([-9, -7, 5, 7, 9, 11])) for _ in range(g[0] * g[1]))
    return ["mode float" if floaty else "mode rat", f"gset | {g[0]} {g[1]} | {garbage}"] + ops


def gen_seq_reuse_case(r, ctx):
    d = r.range(1, 2); ops = ["mode rat", f"sset | {d} | {' '.join(str(r.range(0, 3)) for _ in range(r.range(0, 3)))} | {r.choice([5, 7, -9])}"]
    ns = r.choice([1, 2, 3])
    for _ in range(r.range(2, 4)):
        if r.chance(1, 3): ns = r.choice([1, 2, 3])
        ignore = r.choice([0, 0, 1]); lens = [r.range(ignore + 1, 4) for _ in range(ns)]; tot = sum(lens)
        ops.append(f"rseq | {ignore} {d} | {' '.join(map(str, lens))} | {' '.join(dy(r, -3, 3, 2) for _ in range(tot * d))} | {' '.join(dy(r, -3, 3, 2) for _ in range(tot * d))}")
    return ops


def composition(r, n):
    k = r.choice(["one", "singletons", "random", "random"])
    if k == "one": return [n]
    if k == "singletons": return [1] * n
    out, left = [], n
    while left:
        x = r.range(1, min(left, 3)); out.append(x); left -= x
    return out


def efcopy_ok(ctx, exe):
    """does the copy constructor of ErrorFunction initialise all members on the checked tree? (asked of the harness:
    evaluating a copy with an uninitialised regularizer pointer is undefined behaviour, so the generator must know)"""
    import subprocess
    p = subprocess.run([exe], input="efcopyprobe\n", capture_output=True, text=True)
    return p.stdout.strip() == "copy-initialises-all-members"


def gen_efh_case(r, ctx, have_assign=True, have_copy=True):
    """history of evaluations of several ErrorFunction objects (plain / weighted / mini-batch, with and without
    regularizer, different partitions of the same data, different losses) that share ONE model object, interleaved with
    foreign writes to the model, copies, assignments, init() and changes of the thread count; the same point is asked
    again after the model was changed by somebody else"""
    fam = r.choice(["vec", "cls"])
    losses = EF_VEC if fam == "vec" else EF_CLS
    m = r.choice([1, 1, 2, 3])
    if fam == "cls" and m == 1: losses = ["hinge", "sqhinge"]
    nIn, spec, np_ = gen_net(r, ctx, m, "efh")
    n = r.range(2, 7)
    parts = [composition(r, n) for _ in range(r.range(1, 3))]
    npts = r.range(2, 4)
    pts = [[dy(r, -2, 2, 1) for _ in range(np_)] for _ in range(npts)]
    xs = " ".join(dy(r, -3, 3, 2) for _ in range(n * nIn))
    labs = gen_labels(r, ctx, losses[0] if fam == "cls" else "squared", n, m, "efh")
    ws = " ".join(dy(r, 0, 3, 1) for _ in range(n - 1)) + " " + dy(r, 1, 3, 1)
    reg = dy(r, 0, 2, 2) + ("" if r.chance(1, 2) else " " + " ".join(str(r.below(2)) for _ in range(np_)))
    objs = []
    for _ in range(r.range(1, 4)):
        fl = r.choice(["plain", "plain", "w", "mini"]); lo = r.choice(losses)
        par = dy(r, 0, 2, 1) if lo in ("epshinge", "sqepshinge") else "-"
        objs.append([fl, lo, par, str(r.below(len(parts))), r.choice(["none", "none", "one", "two"])])
        ctx.hist("efh_objects", f"{fl}:{'reg' if objs[-1][4] != 'none' else 'noreg'}")
    initial = [list(ob) for ob in objs]
    steps, last, T = [], {}, r.choice([1, 2, 3, 4, 8])
    def ev(o, pt):
        k = r.choice(["e", "d", "d"]); steps.append(f"{k} {o} {pt}"); ctx.hist("efh_steps", k)
    def foreign(o, pt):
        """something else changes the model object"""
        others = [q for q in range(npts) if q != pt] or [pt]
        q = r.choice(others)
        k = r.choice(["set", "other-object", "copy-evaluated"]) if (len(objs) < 6 and have_copy) else r.choice(["set", "other-object"])
        if k == "set": steps.append(f"set {q}")
        elif k == "other-object": steps.append(f"{r.choice(['e', 'd'])} {r.below(len(objs))} {q}")
        else:
            if True:
                src = r.below(len(objs)); steps.append(f"copy {src}"); objs.append(list(objs[src])); steps.append(f"e {len(objs) - 1} {q}")
        ctx.hist("efh_foreign_write", k)
    for _ in range(r.range(4, 10)):
        k = r.choice(["ev", "ev", "ev", "again", "again", "set", "copy" if have_copy else "ev", "asg" if have_assign else "set", "init", "thr"])
        o = r.below(len(objs))
        if k == "ev": pt = r.below(npts); ev(o, pt); last[o] = pt
        elif k == "again":
            # the same object at the same point, after somebody else touched the model
            pt = last.get(o, r.below(npts))
            if o not in last: ev(o, pt)
            foreign(o, pt); ev(o, pt); last[o] = pt; ctx.count("efh_same_point_again_after_foreign_write")
        elif k == "set": steps.append(f"set {r.below(npts)}"); ctx.hist("efh_steps", "set")
        elif k == "copy" and len(objs) < 6:
            steps.append(f"copy {o}"); objs.append(list(objs[o])); last[len(objs) - 1] = last.get(o); ctx.hist("efh_steps", "copy")
            if last[len(objs) - 1] is None: del last[len(objs) - 1]
        elif k == "asg":
            a = r.below(len(objs))
            if a != o:
                steps.append(f"asg {a} {o}"); objs[a] = list(objs[o]); ctx.hist("efh_steps", "asg")
                if o in last: last[a] = last[o]
                else: last.pop(a, None)
        elif k == "init": steps.append(f"init {o}"); ctx.hist("efh_steps", "init")
        elif k == "thr": steps.append(f"thr {r.choice([1, 2, 3, 4, 8])}"); ctx.hist("efh_steps", "thr")
    if not any(s[0] in "ed" and s[1] == " " for s in steps): ev(0, 0)
    objsec = " ; ".join(" ".join(ob) for ob in initial)        # objects created by `copy` are not part of the object section
    return (f"efh {fam} | {nIn} {' '.join(spec)} | {T} | {' '.join(' '.join(p) for p in pts)} | {xs} | {labs} | "
            f"{' ; '.join(' '.join(map(str, p)) for p in parts)} | {ws} | {reg} | {objsec} | {' ; '.join(steps)}")


def efh_cmp(impl, model):
    """an `efh` line: the implementation prints the drawn batch of a mini-batch evaluation (`{@i result}`), the model every
    candidate (`{r0 # r1 # …}`): the drawn index is a fact about the random number generator, the result for it must agree"""
    if not impl.startswith("{@"): return False
    a, b = impl.split(" ## "), model.split(" ## ")
    if len(a) != len(b): return False
    for x, y in zip(a, b):
        mm = re.fullmatch(r"\{@(\d+) (.*)\}", x)
        if not mm or not (y.startswith("{") and y.endswith("}")): return False
        c = y[1:-1].split(" # "); i = int(mm.group(1))
        if i >= len(c) or c[i] != mm.group(2): return False
    return True


def load_corpus():
    d = os.path.join(core.VERIF, "corpus", "C06")
    out = []
    for f in sorted(os.listdir(d)) if os.path.isdir(d) else []:
        ls = [l.strip() for l in open(os.path.join(d, f)) if l.strip() and not l.startswith("#")]
        if ls: out.append((f, ls))
    return out


def classify(ops, res):
    kinds = sorted({o.split()[1] for o in ops if o.split()[0] in ("eval", "deriv")} | {o.split()[0] for o in ops if o.split()[0] not in ("eval", "deriv", "mode")})
    if res.crash:
        return f"crash:{'+'.join(kinds)}", f"harness aborted on {ops}"
    if res.oracle:
        m = re.search(r"!oracle (\S+)", res.oracle[0])
        if m.group(1).startswith("F-C06-"):
            return f"{m.group(1)}:{'+'.join(kinds)}", f"known-defect signature {m.group(1)} on {ops}"
        return f"oracle:{m.group(1)}:{'+'.join(kinds)}", f"property oracle failed ({m.group(1)}) on {ops}"
    return f"mismatch:{'+'.join(kinds)}", f"model and implementation disagree at line {res.diff_at} on {ops}"


def run(ctx):
    ctx.trusted += ["correspondence harness harness/c06.cpp, harness/c06b.cpp + generator checks/c06.py",
                    "hand-written models Model/Loss.lean, Model/Loss2.lean, Model/ErrFn.lean (the headers are modelled, not translated); thread ranges are translated (Gen/ParRegions.lean)",
                    "Float instance = IEEE binary64 with the platform libm (same exp/log/sqrt as the C++)"]
    ctx.assumptions += ["exact arithmetic in the theorems; rounding enters only through the correspondence",
                        "labels of classification losses are < number of outputs (the C++ RANGE_CHECKs)"]
    translate(ctx)
    ctx.prove(PROOF_MODULES)
    if not ctx.quick:
        ctx.leanchecker(["SharkVerif.Props.C06"])
    exe = build(ctx); drv = ctx.driver("drv_c06")
    if not exe:
        return
    r = ctx.rng.fork("c06")
    per = 40 if ctx.quick else 600
    cases = []
    for loss in EXACT:
        for _ in range(per):
            cases.append(["mode rat", gen_loss_case(r, loss, False)])
    for loss in FLOATY:
        for _ in range(per):
            cases.append(["mode float", gen_loss_case(r, loss, True)])
    # ErrorFunction: batch losses are multiples of 1/2 (k elements of loss 1/2 each), all thread counts, random merge orders
    for _ in range(per):
        B = r.range(1, 12); T = r.range(1, B)
        bl = [r.range(1, 9) for _ in range(B)]
        order = list(range(T))
        for i in range(T - 1, 0, -1):
            j = r.below(i + 1); order[i], order[j] = order[j], order[i]
        cases.append(["mode float", "errfn | %d %s | %d | %s | %d" % (T, " ".join(map(str, order)), B,
                      " ".join(f"{k}/1" for k in bl), sum(bl))])
    for _ in range(per // 2):
        k = r.range(0, 6)
        x = " ".join(dy(r, -5, 5, 3) for _ in range(k))
        cases.append(["mode rat", f"{r.choice(['onenorm', 'twonorm'])} | {x}"])
        if k:
            # masked regularizers: 0/1 masks and per-parameter strengths
            m = " ".join((str(r.below(2)) if r.chance(1, 2) else dy(r, 0, 3, 1)) for _ in range(k))
            cases.append(["mode rat", f"{r.choice(['onenorm', 'twonorm'])} | {x} | {m}"])
    # ---- second part: the real ErrorFunction in all its flavours, the cost interface, AUC, the remaining losses
    for fl, cnt in (("none", per), ("w", per // 2), ("mini", per // 2), ("reg", per // 2), ("comb", per // 4)):
        for i in range(max(cnt, 4)):
            # both entry points of every flavour in every run: eval and evalDerivative alternate
            cases.append(["mode float", gen_ef_case(r, ctx, fl, kind=("eval", "deriv", "deriv")[i % 3])])
    for _ in range(per // 2):
        cases.append(["mode float", gen_cost_case(r, ctx)])
        cases.append(["mode float", gen_auc_case(r, ctx, "auc")])
        mode, op = gen_misc_case(r, ctx); cases.append([mode, op])
    # ---- third part: object re-use histories (output objects of the losses; error functions sharing a model object)
    for _ in range(per):
        cases.append(gen_reuse_case(r, ctx, False))
        cases.append(gen_reuse_case(r, ctx, True))
    have_assign = efassign_compiles(ctx); have_copy = efcopy_ok(ctx, exe)
    ctx.cov["efh_copy_steps_generated"] = have_copy; ctx.cov["efh_assign_steps_generated"] = have_assign
    for _ in range(2 * per):
        cases.append(["mode float", gen_efh_case(r, ctx, have_assign, have_copy)])
    have_wmw = wmw_compiles(ctx)
    if have_wmw:
        for _ in range(per // 2):
            cases.append(["mode float", gen_auc_case(r, ctx, "wmw")])
    allcorpus = load_corpus()
    ctx.cov["corpus_cases"] = len(allcorpus)
    # corpus files f<k>_*.txt are the minimised inputs of the recorded defects F-C06-<k>: they run with the recorded-defects cases
    fcorpus = [c for n, c in allcorpus if re.match(r"f\d+_", n)]
    corpus = [c for n, c in allcorpus if not re.match(r"f\d+_", n)]
    cases = corpus + cases
    for c in cases:
        for l in c[1:]:
            ctx.hist("op_kinds", " ".join(l.split()[:2]) if l.split()[0] in ("eval", "deriv", "rderiv") else l.split()[0])
    ctx.cov["evaluations"] = len(cases)
    ctx.cov["distinct_nontrivial"] = len({c[1] for c in cases if " | " in c[1] and len(c[1].split("|")) >= 4 and not c[1].split("|")[2].strip().startswith("1 ")
                                          and not (c[1].startswith("ef ") and c[1].split("|")[5].split() in ([], ["1"]))})
    ctx.sample({"ops": cases[0]}); ctx.sample({"ops": cases[-1]}); ctx.sample({"ops": cases[len(corpus) + len(EXACT) * per + 3]})
    for fl in ("none", "w", "mini", "reg"):
        ctx.sample({"ops": next(c for c in cases if c[1].startswith("ef ") and c[1].split("|")[-1].split()[0] == fl)}, limit=10)
    # ---- defects of the checked tree that are recorded in known_findings.json: each has its own small run, so that
    # ---- the main run stays clean and the key stays narrow (the harness emits the F-C06-* tag only for the exact signature)
    fcases = fcorpus + [["mode float", gen_zow_case(r, ctx)] for _ in range(12)]
    fcases += [["mode float", f"hess crossentropy | | 1 {m} | {r.below(max(m, 2))} | {' '.join(dy(r, -4, 4, 3) for _ in range(m))}"] for m in (1, 1, 2, 3, 4, 3)]
    fcases += [["mode float", f"ef {k} | squared | 1 linear:{hb}:1 | {t} | {' '.join(['1'] * (1 + hb))} | | | | none"] for k in ("eval", "deriv") for hb in (0, 1) for t in (1, 3)]
    fcases += [gen_seq_reuse_case(r, ctx) for _ in range(12)]; ctx.hist("op_kinds", "rseq histories", 12)
    fcases += [["mode float", "efcopyprobe"]]
    ctx.hist("op_kinds", "zow", 12); ctx.hist("op_kinds", "hess crossentropy", 6); ctx.hist("op_kinds", "ef empty-dataset", 8)
    if not have_wmw:
        ctx.violation("F-C06-3-wilcoxon-mann-whitney-not-instantiable:wmw",
                      {"probe": WMW_PROBE, "compile": "g++ -std=c++11 -fsyntax-only -I<repo>/include probe.cpp"}, found_input=True,
                      what="NegativeWilcoxonMannWhitneyStatistic::eval cannot be instantiated (Data has no operator()(i) / size())")
    if not have_assign:
        ctx.violation("F-C06-6-errorfunction-assignment-not-instantiable:efh",
                      {"probe": EFASSIGN_PROBE, "compile": "g++ -std=c++11 -fsyntax-only -I<repo>/include probe.cpp"}, found_input=True,
                      what="ErrorFunction::operator= cannot be instantiated (unqualified swap of the feature flags finds no overload)")
    if drv:
        core.correspond(ctx, "K-C06", cases, [exe], [drv], classify, keep_prefix=1, cmp=efh_cmp)
        core.correspond(ctx, "K-C06[recorded-defects]", fcases, [exe], [drv], classify, keep_prefix=1, cmp=efh_cmp)
        if any(found for _, found in ctx.violations):
            # a regenerated fact of Gen/LossOutputs.lean no longer holds and the object-reuse theorems stopped checking:
            # the correspondence run has turned that into a concrete failing input
            for b in ctx.breaks:
                if b["kind"] == "theorem" and "ObjReuse" in b["name"]: b["resolved"] = True
    else:
        # the model no longer builds (a regenerated obligation failed): search the implementation alone
        # for a concrete failing input with the independent oracle
        core.oracle_only(ctx, "K-C06[oracle-only]", cases + fcases, [exe], classify)


def replay(ctx, rep):
    exe = build(ctx); drv = ctx.driver("drv_c06")
    res = core.run_case(ctx, [exe], [drv], rep["ops"], cmp=efh_cmp)
    print("\n".join(f"impl : {a}\nmodel: {b}" for a, b in zip(res.impl, res.model)))
    print("OK" if res.ok else "FAILS")
    return 0 if res.ok else 1
