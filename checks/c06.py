"""C06 — losses and error functions: theorems (Props/C06.lean) + correspondence K-C06
(harness/c06.cpp vs Model/Loss.lean through drv_c06; exact mode on dyadic data for the
piecewise-polynomial losses, bit mode (Float instance, same libm) for CrossEntropy/Huber)."""
import os, re
from vlib import core

TRUST = ("Lean 4.33 kernel; axioms at most propext/Classical.choice/Quot.sound (audited per run); "
         "hand-written model Model/Loss.lean tied to the C++ by the correspondence harness (differential, generator-bounded); ")
MANIFEST = dict(
  text=("Theorems (Props/C06.lean): for every loss in the model the batch value is the sum of the per-element values and the "
        "derivative call returns the same value as eval (exact arithmetic, all batch sizes and dimensions); gradients are the true "
        "derivatives of the per-element value w.r.t. the prediction over the reals (HasDerivAt, away from the stated kink points); "
        "ErrorFunction: for every batch partition, every thread count 1..numBatches (thread ranges generated from the C++) and every "
        "order in which threads merge their partial sums the result is the mean per-element loss; equal weights give the unweighted "
        "result; the regularizer adds exactly strength*term. Correspondence: every loss (eval and evalDerivative) on dyadic data, "
        "exact comparison for the piecewise-polynomial losses (FE_INEXACT must stay clear), bit-for-bit comparison with the Float "
        "instance for CrossEntropy/Huber, plus an in-harness oracle (batch = sum of single-element calls, derivative value = eval)."),
  note=TRUST + "floating-point rounding is not modelled (theorems are about exact arithmetic; the step to doubles is the correspondence); "
       "NegativeAUC, DiscreteLoss and the sequence specialisation of SquaredLoss are not modelled; the ErrorFunction gradient clause "
       "relies on the model-derivative contract of C04.",
  technique="Lean 4 proofs (algebraic identities over Rat, HasDerivAt over Real) + exact/bit-exact differential correspondence with the C++ losses",
  design="§6 C06")
FINISH = dict(level="proof",
              rule="cases = (loss, eval|deriv, batch of dyadic labels/predictions); exact-closed losses in rat mode, exp/log/sqrt losses in "
                   "float mode; distinct = distinct op text; non-trivial = batch with >= 2 rows and at least one active and one inactive hinge/branch")
LAKE_TARGETS = ["SharkVerif.Props.C06", "drv_c06"]
SRC = ["src/Core/Random.cpp"]
EXACT = ["squared", "squaredclass", "hinge", "sqhinge", "epshinge", "sqepshinge", "zeroone"]
FLOATY = ["crossentropy", "huber", "squared", "hinge", "epshinge"]
CLASS = {"squaredclass", "hinge", "sqhinge", "crossentropy", "zeroone"}
NODERIV = {"zeroone", "sqhinge"}      # sqhinge derivative is compared through the oracle only (model has the binary row only)


def translate(ctx):
    return ctx.translate("par_regions.py")


def build(ctx):
    return ctx.harness("c06", ["c06.cpp"], repo_sources=SRC)


def dy(r, lo, hi, fracbits):
    """random dyadic token in [lo,hi] with `fracbits` fractional bits"""
    k = r.below(fracbits + 1)
    a = r.range(lo << k, hi << k)
    return f"{a}/{k}" if k else f"{a}"


def gen_loss_case(r, loss, floaty):
    n = r.choice([1, 1, 2, 3, 5, 8])
    m = r.choice([1, 1, 2, 3, 4]) if loss in ("hinge", "sqhinge", "crossentropy", "zeroone") else r.choice([1, 2, 3])
    if loss == "squaredclass": m = r.choice([2, 3, 4])
    kind = "eval" if (loss in NODERIV or r.chance(1, 3)) else "deriv"
    par = ""
    if loss in ("epshinge", "sqepshinge"): par = dy(r, 0, 2, 2)
    if loss == "huber": par = dy(r, 1, 3, 1)
    if loss == "zeroone": par = dy(r, -1, 1, 1)
    big = floaty and loss == "crossentropy" and r.chance(1, 3)     # exercise the value*label < -200 shortcut and large margins
    rng = (1000 if r.chance(1, 2) else 400) if big else 4           # beyond +-709.78 exp() overflows
    if loss in CLASS:
        classes = 2 if m == 1 else m
        labels = " ".join(str(r.below(classes)) for _ in range(n))
    else:
        labels = " ".join(dy(r, -rng, rng, 3) for _ in range(n * m))
    if big and n >= 2 and r.chance(1, 2):
        # rows of very different magnitude inside ONE batch (one row near +-1000, another near 0): anything
        # computed once per batch instead of once per row (log-sum-exp shift, normaliser) shows here
        rows = []
        for i in range(n):
            scale = r.choice([1, 4, 400, 1000])
            shift = r.choice([0, 0, -1000, 1000, 700, -700]) if scale <= 4 else 0
            rows.append(" ".join(dy(r, shift - scale, shift + scale, 3) for _ in range(m)))
        preds = " ".join(rows)
    else:
        preds = " ".join(dy(r, -rng, rng, 3) for _ in range(n * m))
    return f"{kind} {loss} | {par} | {n} {m} | {labels} | {preds}"


def classify(ops, res):
    kinds = sorted({o.split()[1] for o in ops if o.split()[0] in ("eval", "deriv")} | {o.split()[0] for o in ops if o.split()[0] not in ("eval", "deriv", "mode")})
    if res.crash:
        return f"crash:{'+'.join(kinds)}", f"harness aborted on {ops}"
    if res.oracle:
        m = re.search(r"!oracle (\S+)", res.oracle[0])
        return f"oracle:{m.group(1)}:{'+'.join(kinds)}", f"property oracle failed ({m.group(1)}) on {ops}"
    return f"mismatch:{'+'.join(kinds)}", f"model and implementation disagree at line {res.diff_at} on {ops}"


def run(ctx):
    ctx.trusted += ["correspondence harness harness/c06.cpp + generator checks/c06.py",
                    "hand-written model Model/Loss.lean (the loss headers are modelled, not translated); thread ranges are translated (Gen/ParRegions.lean)",
                    "Float instance = IEEE binary64 with the platform libm (same exp/log/sqrt as the C++)"]
    ctx.assumptions += ["exact arithmetic in the theorems; rounding enters only through the correspondence",
                        "labels of classification losses are < number of outputs (the C++ RANGE_CHECKs)"]
    translate(ctx)
    ctx.prove(["SharkVerif.Props.C06"])
    if not ctx.quick:
        ctx.leanchecker(["SharkVerif.Props.C06"])
    exe = build(ctx); drv = ctx.driver("drv_c06")
    if not exe:
        return
    r = ctx.rng.fork("c06")
    per = 40 if ctx.quick else 600
    cases = []
    for loss in EXACT:
        for _ in range(per):
            cases.append(["mode rat", gen_loss_case(r, loss, False)])
    for loss in FLOATY:
        for _ in range(per):
            cases.append(["mode float", gen_loss_case(r, loss, True)])
    # ErrorFunction: batch losses are multiples of 1/2 (k elements of loss 1/2 each), all thread counts, random merge orders
    for _ in range(per):
        B = r.range(1, 12); T = r.range(1, B)
        bl = [r.range(1, 9) for _ in range(B)]
        order = list(range(T))
        for i in range(T - 1, 0, -1):
            j = r.below(i + 1); order[i], order[j] = order[j], order[i]
        cases.append(["mode float", "errfn | %d %s | %d | %s | %d" % (T, " ".join(map(str, order)), B,
                      " ".join(f"{k}/1" for k in bl), sum(bl))])
    for _ in range(per // 2):
        k = r.range(0, 6)
        x = " ".join(dy(r, -5, 5, 3) for _ in range(k))
        cases.append(["mode rat", f"{r.choice(['onenorm', 'twonorm'])} | {x}"])
        if k:
            # masked regularizers: 0/1 masks and per-parameter strengths
            m = " ".join((str(r.below(2)) if r.chance(1, 2) else dy(r, 0, 3, 1)) for _ in range(k))
            cases.append(["mode rat", f"{r.choice(['onenorm', 'twonorm'])} | {x} | {m}"])
    for c in cases:
        ctx.hist("op_kinds", " ".join(c[1].split()[:2]) if c[1].split()[0] in ("eval", "deriv") else c[1].split()[0])
    ctx.cov["evaluations"] = len(cases)
    ctx.cov["distinct_nontrivial"] = len({c[1] for c in cases if " | " in c[1] and len(c[1].split("|")) >= 4 and not c[1].split("|")[2].strip().startswith("1 ")})
    ctx.sample({"ops": cases[0]}); ctx.sample({"ops": cases[-1]}); ctx.sample({"ops": cases[len(EXACT) * per + 3]})
    if drv:
        core.correspond(ctx, "K-C06", cases, [exe], [drv], classify, keep_prefix=1)
    else:
        # the model no longer builds (a regenerated obligation failed): search the implementation alone
        # for a concrete failing input with the independent oracle
        core.oracle_only(ctx, "K-C06[oracle-only]", cases, [exe], classify)


def replay(ctx, rep):
    exe = build(ctx); drv = ctx.driver("drv_c06")
    res = core.run_case(ctx, [exe], [drv], rep["ops"])
    print("\n".join(f"impl : {a}\nmodel: {b}" for a, b in zip(res.impl, res.model)))
    print("OK" if res.ok else "FAILS")
    return 0 if res.ok else 1
