"""Case generator for K-C16-mclinear-epoch: whole runs of QpMcLinear<InputT>::solve (strategy ACF, shrinking off),
harness/c16e.cpp (a recording replica of solve(), validated bit by bit against the real solve() on every op)
vs  Model/McLinearEpoch.lean through Driver/C16E.lean.

A case = [mldata ..., mlrun|mlrunx F Cnum Cshift epsnum epsshift maxiter seed (several)].
Two passes (as `add_schedules` for `lsweep`): pass 1 runs the harness alone and reads the side channel ` #trace=`
(per epoch: the `random::uni` draws as bit patterns and the schedule after std::shuffle); pass 2 feeds them back as
extra tokens `| <one token per epoch>` which the harness ignores and the driver's model consumes (the model builds
the schedule itself and checks that the recorded shuffled schedule is a permutation of it).
"""
import os, re, subprocess

FORMS = ["WW", "LLW", "ATS", "MMR", "RS", "CS", "ATM", "ADM"]
BOX_FORMS = ["WW", "LLW", "ATS", "MMR", "RS"]

# (num, shift):  value = num / 2^shift
C_CHOICES = [(1, 0), (1, 0), (2, 0), (1, 1), (4, 0), (3, 1), (1, 3), (64, 0), (5, 2)]
EPS_CHOICES = [(1, 10), (1, 10), (1, 3), (1, 6), (1, 20), (1, 0), (3, 12), (1, 1)]


def gen_epoch_case(r, ctx=None, forms=None, nruns=3):
    k = r.choice([2, 2, 3, 3, 3, 4, 4, 5])
    n = r.range(2, 7)
    d = r.choice([1, 2, 2])            # at most two summands in <w_c, x>: order independent, bit comparable
    kind = r.below(10)
    pts = [[r.range(5, 11) for _ in range(d)] for _ in range(n)]      # coordinate = value - 8 in [-3, 3]
    boundary = []
    if kind == 0:                                           # a zero vector (q = 0)
        pts[r.below(n)] = [8] * d; boundary.append("zero-x")
    if kind == 1:                                           # duplicate points
        pts[1] = list(pts[0]); boundary.append("duplicate")
    if kind == 2:                                           # power-of-two data: long exact runs
        pts = [[r.choice([6, 7, 9, 10, 4, 12])] + [8] * (d - 1) for _ in range(n)]; boundary.append("pow2")
    ys = [r.below(k) for _ in range(n)]
    perm = list(range(n))
    for i in range(n - 1, 0, -1):
        j = r.below(i + 1); perm[i], perm[j] = perm[j], perm[i]
    for c in range(min(k, n)):
        ys[perm[c]] = c
    if kind == 1 and r.chance(1, 2):                        # duplicate points with different labels: not separable
        ys[1] = (ys[0] + 1) % k; boundary.append("duplicate-other-label")
    if kind == 3:                                           # one class only: nothing to do for most formulations
        ys = [0] * n; boundary.append("one-class")
    ops = ["mldata %d %d %d %s" % (n, d, k, " ".join(map(str, [v for p in pts for v in p] + ys)))]
    for _ in range(r.range(1, nruns)):
        F = r.choice(forms or FORMS)
        cn, cs = r.choice(C_CHOICES)
        en, es = r.choice(EPS_CHOICES)
        x = r.below(10)
        if x < 2: maxiter = n * r.range(1, 3)               # 1..3 epochs: maxIterations stops the run
        elif x < 4: maxiter = n * r.range(2, 30) - r.below(n)   # not a multiple of n
        elif x < 5: maxiter = 1                             # one epoch
        else: maxiter = n * r.range(4, 30)
        seed = r.range(1, 1 << 30)
        # mlrunx: the last draw of every epoch is forced to the largest double below 1 (exercises pos < ell)
        op = "mlrunx" if r.chance(1, 8) else "mlrun"
        ops.append(f"{op} {F} {cn} {cs} {en} {es} {maxiter} {seed}")
        if ctx is not None:
            ctx.hist("epoch_form", F); ctx.hist("epoch_C", f"{cn}/2^{cs}"); ctx.hist("epoch_eps", f"{en}/2^{es}")
    if ctx is not None:
        ctx.hist("epoch_classes", k); ctx.hist("epoch_examples", n); ctx.hist("epoch_dim", d)
        for b in boundary: ctx.hist("epoch_boundary", b)
    return ops


def _run_lines(exe, ops, timeout=300):
    e = dict(os.environ); e["OMP_NUM_THREADS"] = "1"
    e.setdefault("ASAN_OPTIONS", "detect_leaks=0:abort_on_error=0")
    try:
        p = subprocess.run([exe], input="\n".join(ops) + "\n", capture_output=True, text=True, errors="replace", env=e, timeout=timeout)
    except subprocess.TimeoutExpired as ex:
        out = ex.stdout.decode(errors="replace") if isinstance(ex.stdout, bytes) else (ex.stdout or "")
        return -99, out.splitlines(), "timeout"
    return p.returncode, p.stdout.splitlines(), p.stderr[-3000:]


def add_traces(exe, cases, ctx=None):
    """pass 1: the real run's randomness (uni draws, shuffled schedules; observed by the validated replica) is read
    from the harness and appended to the `mlrun` ops.  An op whose trace is missing is left as it is: the driver
    then answers `bad-trace` and the case fails in the comparison."""
    flat = [l for c in cases for l in c]
    rc, lines, err = _run_lines(exe, flat)
    out, k = [], 0
    for c in cases:
        cc = []
        for o in c:
            l = lines[k] if k < len(lines) else ""
            k += 1
            m = re.search(r" #trace=(\S+)", l)
            if o.startswith("mlrun") and "|" not in o.split() and m:
                cc.append(o + " | " + " ".join(m.group(1).split(";")))
                if ctx is not None:
                    hm = re.match(r"ep=(\d+) stop=(\d+) ", l)
                    if hm:
                        ep = int(hm.group(1))
                        ctx.hist("epoch_run_stop", {"1": "accuracy", "4": "maxIterations"}.get(hm.group(2), hm.group(2)))
                        ctx.hist("epoch_run_epochs", "1" if ep == 1 else "2-4" if ep < 5 else "5-9" if ep < 10 else "10-19" if ep < 20 else ">=20")
                    fm = re.search(r" #finalkktbelow=(\d)", l)
                    if fm: ctx.hist("epoch_final_kkt_below_eps_after_accuracy_stop(informational)", fm.group(1))
                    sm = re.search(r" #short=(\d+)", l)
                    if sm and sm.group(1) != "0": ctx.count("epoch_schedules_with_pos_below_ell", int(sm.group(1)))
            else:
                cc.append(o)
        out.append(cc)
    return out
