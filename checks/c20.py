"""C20 — parallel routines: theorems about the abstract shared-memory machine
(Props/C20.lean) + T4 (translate/par_regions.py: thread-range arithmetic regenerated
from the C++, inventory of all parallel regions checked against the reviewed
access-summary table) + runtime tie (thread-count sweeps on exact data, TSan)."""
import json, os, re, subprocess
from vlib import core

TRUST = ("Lean 4.33 kernel; axioms at most propext/Classical.choice/Quot.sound (audited per run); ")
MANIFEST = dict(
  text=("Theorems (Props/C20.lean) over an abstract sequentially-consistent shared-memory machine, for all programs, "
        "thread counts and interleavings: statically disjoint writes imply that every complete schedule yields the "
        "single-threaded result and that no thread can observe another (drf_schedule_independent, drf_threads_isolated); "
        "iteration-level disjointness implies this for every assignment of iterations to threads (split_drf); partial results "
        "merged under one lock are order independent for commutative-associative merges (critical_reduction_order_independent), and at machine level a program whose ordinary accesses are race free and whose critical sections apply pairwise commuting updates to lock-protected locations ends, after every complete schedule, in the single-threaded result (crit_schedule_independent, crit_two_schedules_agree); "
        "the thread-range arithmetic of ErrorFunction/NegativeLogLikelihood, regenerated from the C++ on every run, tiles the "
        "batches (tile_Site*, ranges_cover_exactly_once). Every SHARK_PARALLEL_FOR region of the library is inventoried on every "
        "run and its text hash compared with the reviewed access summary that maps it to one of these theorems; any new or "
        "changed region breaks the tie. Runtime side: each listed routine is run with 1,2,3,4,8,16 threads on exact data and must "
        "be bit-identical to the single-threaded run; concurrent shared dataset copies are checked; the same harness runs under ThreadSanitizer (clang+libomp+Archer)."),
  note=TRUST + "PARTIAL: the access summaries are hand-written abstractions of the C++ regions (a write the summary misses is invisible "
       "to the theorems; only the runtime side can reveal it); the C++ memory model, the OpenMP runtime and code called from "
       "inside the regions (models, kernels, losses) are not modelled; RFTrainer and NegativeLogLikelihood are covered by the "
       "inventory only (no exact-data sweep).",
  technique="Lean 4 proof over all interleavings of an abstract machine + source-regenerated range arithmetic + reviewed region inventory + thread-count sweeps/TSan",
  design="§6 C20")
FINISH = dict(level="proof",
              rule="cases = (seed,n,d,batch size) data sets, each run through every listed parallel routine with 1,2,3,4,8,16 "
                   "threads x reps; distinct = distinct case parameters; non-trivial = more than one batch (so that work is actually split)")
LAKE_TARGETS = ["SharkVerif.Props.C20"]
SRC = ["src/Core/Random.cpp"]


def translate(ctx):
    return ctx.translate("par_regions.py")


def build(ctx):
    exe = ctx.harness("c20", ["c20.cpp"], repo_sources=SRC, san=False)
    if exe and not hasattr(ctx, "_no_tsan_prebuild"):
        try:
            build_tsan(ctx)
        except Exception as e:
            ctx.log(f"tsan prebuild failed: {e}")
    return exe


def build_tsan(ctx):
    """clang-14 + libomp + Archer ThreadSanitizer build (not cached by dependency hash: rebuilt when sources are newer)"""
    inc = ctx.shark_h()
    exe = os.path.join(core.CACHE, "bin", "c20_tsan")
    src = [os.path.join(core.VERIF, "harness", "c20.cpp"), os.path.join(core.REPO, "src/Core/Random.cpp")]
    key = core.sha("".join(core.file_sha(s) for s in src) + subprocess.run(
        ["git", "-C", core.REPO, "status", "--porcelain", "--untracked-files=no"], capture_output=True, text=True).stdout +
        subprocess.run(["git", "-C", core.REPO, "rev-parse", "HEAD"], capture_output=True, text=True).stdout +
        subprocess.run(["git", "-C", core.REPO, "diff"], capture_output=True, text=True).stdout)
    kf = exe + ".key"
    if os.path.exists(exe) and os.path.exists(kf) and open(kf).read() == key:
        return exe
    cmd = ["clang++-14", "-std=c++14", "-O1", "-g", "-DNDEBUG", "-w", "-fopenmp", "-fsanitize=thread",
           "-I" + inc, "-I" + os.path.join(core.REPO, "include"), "-I" + os.path.join(core.VERIF, "harness"),
           *src, "-o", exe, "-lboost_serialization", "-lboost_system", "-lopenblas"]
    rc, out = core.sh(cmd, timeout=1800)
    if rc != 0:
        ctx.log("TSan build failed:\n" + out[-3000:])
        ctx.broken("harness-build", "c20_tsan", out[-2000:])
        return None
    open(kf, "w").write(key)
    return exe


def gen_cases(ctx, ncases, reps):
    r = ctx.rng.fork("c20")
    cases = []
    for _ in range(ncases):
        n = r.range(5, 60); d = r.range(1, 4); bs = r.range(1, max(1, n // 2))
        cases.append(f"case {r.below(1 << 30)} {n} {d} {bs} {reps}")
    return cases


def run_sweep(ctx, exe, cases, tag, env=None, timeout=1500):
    e = dict(os.environ); e.update(env or {})
    p = subprocess.run([exe], input="\n".join(cases) + "\n", capture_output=True, text=True, errors="replace", env=e, timeout=timeout)
    lines = p.stdout.splitlines()
    cur = None; ci = -1
    fails = []
    for l in lines:
        if l.startswith("case "):
            ci += 1; cur = cases[ci] if ci < len(cases) else "?"
            if "batches=1" not in l: ctx.count("nontrivial_cases_" + tag)
            continue
        m = re.match(r"routine=(\S+) runs=(\d+)", l)
        if m:
            ctx.hist("routine_runs_" + tag, m.group(1), int(m.group(2)))
            ctx.count("evaluations", int(m.group(2)))
        if "!oracle" in l:
            fails.append((cur, l))
    return p.returncode, lines, p.stderr, fails


def run(ctx):
    ctx.trusted += ["translator translate/par_regions.py (range arithmetic via translate/cexpr.py; region inventory by text hash)",
                    "reviewed table translate/par_summaries.json (hand-written access summaries: modelled, not verified)",
                    "runtime harness harness/c20.cpp; clang-14 ThreadSanitizer + libomp + Archer"]
    ctx.assumptions += ["sequentially consistent interleaving semantics; a critical section is one atomic step",
                        "exact data (small integers): any schedule dependence of a sum shows as a bit difference",
                        "default OpenMP schedule (static) for the thread-indexed kNN heaps"]
    ok_t = translate(ctx)
    if not ok_t:
        # the translator's last lines name the unreviewed regions
        pass
    ctx.prove(["SharkVerif.Props.C20", "SharkVerif.Gen.ParRegions"])
    if not ctx.quick:
        ctx.leanchecker(["SharkVerif.Props.C20"])
    exe = build(ctx)
    if not exe:
        return
    try:
        inv = json.load(open(os.path.join(core.CACHE, "par_inventory.json")))["regions"]
        ctx.cov["parallel_regions"] = len(inv)
        table = {r["id"]: r for r in json.load(open(os.path.join(core.VERIF, "translate/par_summaries.json")))["regions"]}
        for r in inv:
            ctx.hist("region_classes", table.get(r["id"], {}).get("class", "UNREVIEWED"))
    except OSError:
        pass
    broken_tie = any(b["kind"] in ("translator", "theorem", "build") for b in ctx.breaks)
    ncases, reps = (6, 2) if ctx.quick else (40, 5)
    if broken_tie:
        ncases, reps = ncases * 3, reps * 3      # search harder for a failing schedule
    cases = gen_cases(ctx, ncases, reps)
    ctx.cov["evaluations"] = 0
    ctx.cov["distinct_nontrivial"] = len(set(cases))
    ctx.sample({"case": cases[0], "meaning": "case <seed> <n> <d> <batchsize> <reps>"})
    rc, lines, err, fails = run_sweep(ctx, exe, cases, "sweep")
    ctx.sample({"harness_output": lines[:6]})
    found = False
    if rc != 0:
        found = True
        ctx.violation("crash:c20-sweep", {"cases": cases, "stderr": err[-2000:], "stdout_tail": lines[-5:]}, True,
                      "parallel-routine sweep crashed")
    seen = set()
    for case, l in fails:
        m = re.search(r"!oracle (\S+) routine=(\S+) threads=(\d+)", l)
        key = f"oracle:{m.group(1)}:{m.group(2)}" if m else "oracle:unknown"
        if key in seen: continue
        seen.add(key); found = True
        ctx.violation(key, {"harness_cmd": [exe], "ops": [case], "line": l}, True,
                      f"result depends on thread count/schedule: {l}")
    # ThreadSanitizer (clang + libomp + Archer): every run, more cases in the thorough tier / after a broken tie
    if True:
        tsan = build_tsan(ctx)
        if tsan:
            tc = gen_cases(ctx, 2 if (ctx.quick and not broken_tie) else 6, 1)
            env = {"TSAN_OPTIONS": "ignore_noninstrumented_modules=1 halt_on_error=0 exitcode=0", "OMP_NUM_THREADS": "4"}
            rc2, lines2, err2, fails2 = run_sweep(ctx, tsan, tc, "tsan", env=env, timeout=3000)
            races = re.findall(r"WARNING: ThreadSanitizer: data race.*?(?=\n=+\n|\Z)", err2, flags=re.S)
            ctx.cov["tsan_reports"] = len(races)
            ctx.cov["tsan_cases"] = len(tc)
            sites = set()
            for rep in races:
                fr = re.findall(r"#\d+ (\S+) (/\S+?):(\d+)", rep)
                site = next((f"{os.path.relpath(p, core.REPO)}:{ln}" for fn, p, ln in fr if p.startswith(core.REPO)), None)
                if site and site not in sites:
                    sites.add(site); found = True
                    ctx.violation(f"tsan:{site}", {"harness_cmd": [tsan], "ops": tc, "env": env, "report": rep[:3000]}, True,
                                  f"ThreadSanitizer data race at {site}")
    # breaks of the static tie for which no failing schedule was found are reported by finish()
    if found:
        for b in ctx.breaks:
            b["resolved"] = True


def replay(ctx, rep):
    exe = build(ctx)
    rc, lines, err, fails = run_sweep(ctx, exe, rep["ops"], "replay")
    print("\n".join(lines)); print(err[-1500:])
    return 1 if (fails or rc != 0) else 0
