"""C20 — parallel routines: theorems about the abstract shared-memory machine
(Props/C20.lean) + T4 (translate/par_regions.py: thread-range arithmetic regenerated
from the C++, inventory of all parallel regions checked against the reviewed
access-summary table) + runtime tie (thread-count sweeps on exact data, TSan)."""
import json, os, re, subprocess
from vlib import core

TRUST = ("Lean 4.33 kernel; axioms at most propext/Classical.choice/Quot.sound (audited per run); ")
MANIFEST = dict(
  text=("Theorems (Props/C20.lean, 32) over an abstract sequentially-consistent shared-memory machine, for all programs, thread counts and "
        "interleavings: statically disjoint writes imply that every complete schedule yields the single-threaded result and that no thread can "
        "observe another (drf_schedule_independent, drf_threads_isolated); iteration-level disjointness implies this for every assignment of "
        "iterations to threads (split_drf); critical sections with pairwise commuting updates end in the single-threaded result "
        "(crit_schedule_independent), and critical sections that commute only up to an equivalence (collecting push_back) end in a result "
        "equivalent to it (crit_schedule_independent_upto, collect_order_perm, rf_forest_schedule_independent: the forest is a permutation "
        "of the single-threaded one with each tree paired with its own out-of-bag set, any commutative-monoid vote is equal); reductions over "
        "any commutative monoid equal the single-threaded fold for EVERY work split and order of entry (reduction_any_split), in particular "
        "for the leftover rule of ErrorFunction regenerated from the C++ (errorfunction_ranges_split, errorfunction_reduction, tile_Site*, "
        "ranges_cover_exactly_once); per-thread bounded k-heaps merged give the global k smallest keys for every thread count, share and k "
        "(knn_heaps_merge), and the executable model of getNeighbors run by the driver equals that specification (knn_model_spec, "
        "ranges_model_cover); shared batches: reference counts as atomic fetch-add never drop below the owner's count at any point of any "
        "schedule and are balanced at the end, contents never change (refcount_never_below_initial, refcount_balanced_at_end, "
        "shared_contents_unchanged). GENERATED per run from the C++: for each in-scope SHARK_PARALLEL_FOR region an access summary (variables "
        "written in the body, classified local / loop-variable indexed / thread-id indexed / critical / read-only / shared-unprotected by a "
        "token-level extractor) with the obligation r<k>_race_free discharged by the generic theorem summary_race_free and composed with the machine (raceFree_programs_critOK, region_schedule_independent(_upto): "
        "the region compiled with arbitrary values, iteration counts and iteration-to-thread assignments is schedule independent), plus the inventory "
        "of mutable members/const_casts/static locals of pluggable components (mutable_members_reviewed); a new shared scratch variable, a "
        "changed callee pinned by the allow-list, or a new mutable member breaks a generated theorem. Runtime side: real work split of "
        "ErrorFunction::eval (recorded through a loss) and real neighbour search vs. the Lean driver (exact correspondence); every routine "
        "the property names (error/gradient incl. weighted, stateful networks, losses over datasets, Gram rows/blocks/derivatives with 9 "
        "kernel kinds, transform incl. stateful model, kNN k=1/mid/n, RF training classification+regression, hypervolume contributions "
        "with/without reference and the approximator, NegativeLogLikelihood, concurrent shared copies/subsets) at 1,2,3,4,8,16 threads, plain "
        "and with a schedule-perturbing loss, under the library's static schedule, under schedule(dynamic,1) and under ThreadSanitizer; the "
        "evidence lists thread counts and schedules per routine."),
  note=TRUST + "PARTIAL: (1) the functional theorems treat a critical section as ONE atomic update of one record-valued location; on the machine with "
       "explicit acquire/release (sections are non-atomic instruction sequences, nested sections allowed) lockset soundness is proved for all "
       "interleavings (lock_discipline_no_race) and the refinement to the atomic view is proved for the reduction pattern only "
       "(lock_reduction_schedule_independent: acquire; tmp:=acc; acc:=tmp+x; release by any number of threads); for sections of other shapes "
       "atomicity is the standard data-race-free assumption. Shark has one global lock; the extractor rejects nested critical/parallel regions. "
       "(2) The extractor is token-level: calls, aliases, derived indices and shared objects handed to callees that it cannot decide are accepted "
       "through the reviewed allow-list translate/par_allow.json (42 entries with reasons, pinned to the callee's text where they talk about a "
       "callee); an allow entry is a reviewed claim, not a proof. (3) Code called from inside the regions (models, kernels, losses) is covered by "
       "the inventory of mutable members/const_casts/static locals and at run time only; the C++ memory model and the OpenMP runtime are not "
       "modelled. (4) k-NN: labels among equidistant neighbours depend on the thread count (keys do not: knn_heaps_merge is about keys); the "
       "thread-indexed heaps assume the static schedule (the dynamic build runs them only with threads <= batches). (5) shared_copies_safe is "
       "about an abstract copy-on-write model (fetch-add reference counts, immutable batches); boost::shared_ptr itself is exercised at run time "
       "(concurrent copies/subsets/assignments/makeIndependent, also under ThreadSanitizer), not modelled. "
       "Known findings: F-C20-1 (random-forest feature importances depend on the schedule), F-C20-2 (tie order of hypervolume contributions "
       "without reference point), F-C20-3 (DropoutLayer races on the process-wide generator inside parallel regions).",
  technique="Lean 4 proof over all interleavings of an abstract machine + source-regenerated range arithmetic and access summaries with generated obligations + exact correspondence of work split / neighbour search with a native Lean driver + thread-count and schedule sweeps/TSan",
  design="§6 C20")
FINISH = dict(level="proof",
              rule="cases = (seed,n,d,batch size) data sets, each run through every listed parallel routine with 1,2,3,4,8,16 "
                   "threads x reps; distinct = distinct case parameters; non-trivial = more than one batch (so that work is actually split)")
LAKE_TARGETS = ["SharkVerif.Props.C20"]
SRC = ["src/Core/Random.cpp", "src/Models/RBFLayer.cpp"]


def translate(ctx):
    return ctx.translate("par_regions.py")


def build(ctx):
    """three builds of the one harness source: `c20` (gcc, ASan+UBSan, the library's own static schedule), `c20_dyn`
    (gcc, the same region bodies under schedule(dynamic,1)), `c20_tsan` (clang + libomp + Archer ThreadSanitizer)"""
    from concurrent.futures import ThreadPoolExecutor
    with ThreadPoolExecutor(max_workers=3) as ex:
        f1 = ex.submit(ctx.harness, "c20", ["c20.cpp"], (), True, None, SRC)
        f2 = ex.submit(ctx.harness, "c20_dyn", ["c20.cpp"], ("-DC20_DYNAMIC",), False, None, SRC)
        f3 = ex.submit(build_tsan, ctx) if not hasattr(ctx, "_no_tsan_prebuild") else None
        exe, dyn = f1.result(), f2.result()
        try:
            tsan = f3.result() if f3 else None
        except Exception as e:
            ctx.log(f"tsan build failed: {e}"); tsan = None
    ctx._c20 = (exe, dyn, tsan)
    return exe


def build_tsan(ctx):
    """clang-14 + libomp + Archer ThreadSanitizer build (not cached by dependency hash: rebuilt when sources are newer)"""
    inc = ctx.shark_h()
    exe = os.path.join(core.CACHE, "bin", "c20_tsan")
    src = [os.path.join(core.VERIF, "harness", "c20.cpp")] + [os.path.join(core.REPO, x) for x in SRC]
    key = core.sha("".join(core.file_sha(s) for s in src) + subprocess.run(
        ["git", "-C", core.REPO, "status", "--porcelain", "--untracked-files=no"], capture_output=True, text=True).stdout +
        subprocess.run(["git", "-C", core.REPO, "rev-parse", "HEAD"], capture_output=True, text=True).stdout +
        subprocess.run(["git", "-C", core.REPO, "diff"], capture_output=True, text=True).stdout)
    kf = exe + ".key"
    if os.path.exists(exe) and os.path.exists(kf) and open(kf).read() == key:
        return exe
    cmd = ["clang++-14", "-std=c++14", "-O1", "-g", "-DNDEBUG", "-w", "-fopenmp", "-fsanitize=thread",
           "-I" + inc, "-I" + os.path.join(core.REPO, "include"), "-I" + os.path.join(core.VERIF, "harness"),
           *src, "-o", exe, "-lboost_serialization", "-lboost_system", "-lopenblas"]
    rc, out = core.sh(cmd, timeout=1800)
    if rc != 0:
        ctx.log("TSan build failed:\n" + out[-3000:])
        ctx.broken("harness-build", "c20_tsan", out[-2000:])
        return None
    open(kf, "w").write(key)
    return exe


def gen_cases(ctx, ncases, reps, tag="sweep"):
    """(seed,n,d,batch size) data sets; the first three are boundary classes: one batch (nothing to split), one element
    per batch and fewer batches than threads, more batches than 16 threads, 1..4 elements"""
    r = ctx.rng.fork("c20" + tag)
    cases = []
    for i in range(ncases):
        n = r.range(5, 60); d = r.range(1, 4); bs = r.range(1, max(1, n // 2))
        if i == 0: bs = n + r.below(3)
        elif i == 1: n = r.range(5, 9); bs = 1
        elif i == 2: n = r.range(40, 60); bs = r.range(1, 2)
        elif i == 3: n = r.range(1, 4); bs = r.range(1, 2)          # size 1 .. 4: k = n, single-element batches, one-point forests
        cases.append(f"case {r.below(1 << 30)} {n} {d} {bs} {reps}")
        nb = -(-n // bs)
        ctx.hist("gen_batches_" + tag, "1" if nb == 1 else "2-3" if nb <= 3 else "4-15" if nb < 16 else "16+")
        ctx.hist("gen_n_" + tag, "1-4" if n < 5 else "5-9" if n < 10 else "10-29" if n < 30 else "30-60")
        ctx.hist("gen_dim_" + tag, d)
    return cases


def gen_model_cases(ctx, n):
    """op lines for the correspondence with drv_c20: work split of ErrorFunction::eval (ranges per thread), of the weighted
    error function (every batch exactly once, any assignment), neighbour search"""
    r = ctx.rng.fork("c20model")
    cases = []
    for i in range(n):
        B = r.choice([1, 1, 2, 3, 5, 7, 8, 15, 16, 17, 31, 33]) if r.chance(1, 2) else r.range(1, 40)
        T = r.choice([1, 2, 3, 4, 8, 16])
        ctx.hist("split_B_vs_T", "B<T" if B < T else "B=T" if B == T else "B%T=0" if B % T == 0 else "B%T>0")
        ops = [f"split {B} {T}", f"splitw {B} {T}"]
        bs = r.range(1, 4); nb = r.range(1, 12); k = r.range(1, bs * nb)
        if r.chance(1, 5): k = bs * nb
        if r.chance(1, 5): k = 1
        span = r.choice([1, 3, 10])     # small span: many ties / duplicates / zeros
        xs = [r.range(-span, span) for _ in range(bs * nb)]
        Tk = r.choice([1, 2, 3, 4, 8, 16])
        ctx.hist("knn_shape", ("k=n " if k == bs * nb else "k=1 " if k == 1 else "k mid ") + ("batches<T" if nb < Tk else "batches>=T"))
        ctx.hist("knn_ties", "ties" if len(set(abs(x) for x in xs)) < len(xs) else "distinct")
        ops.append(f"knn {Tk} {k} {bs} | " + " ".join(map(str, xs)))
        cases.append(ops)
    return cases


def run_sweep(ctx, exe, cases, tag, env=None, timeout=1500):
    e = dict(os.environ); e.update(env or {})
    e.setdefault("ASAN_OPTIONS", "detect_leaks=0:abort_on_error=0")
    e.setdefault("UBSAN_OPTIONS", "print_stacktrace=1")
    e.setdefault("OMP_WAIT_POLICY", "passive"); e.setdefault("GOMP_SPINCOUNT", "0")     # shared machine: no busy waiting at barriers
    p = subprocess.run([exe], input="\n".join(cases) + "\n", capture_output=True, text=True, errors="replace", env=e, timeout=timeout)
    lines = p.stdout.splitlines()
    cur = None; ci = -1
    fails = []
    table = ctx.cov.setdefault("routines", {})
    for l in lines:
        if l.startswith("case "):
            ci += 1; cur = cases[ci] if ci < len(cases) else "?"
            if "batches=1" not in l: ctx.count("nontrivial_cases_" + tag)
            continue
        m = re.match(r"routine=(\S+) runs=(\d+)(?: threads=(\S+) sched=(\S+) perturbed=(\d+) oracle=(\S+))?", l)
        if m:
            ctx.hist("routine_runs_" + tag, m.group(1), int(m.group(2)))
            ctx.count("evaluations", int(m.group(2)))
            row = table.setdefault(m.group(1), {"runs": 0, "threads": [], "schedules": [], "perturbed_runs": 0, "oracle": "", "under_tsan": False})
            row["runs"] += int(m.group(2))
            if m.group(3):
                for t in m.group(3).split(","):
                    if t and int(t) not in row["threads"]: row["threads"].append(int(t))
                row["threads"].sort()
                sch = m.group(4) + ("+tsan(libomp)" if tag == "tsan" else "")
                if sch not in row["schedules"]: row["schedules"].append(sch)
                row["perturbed_runs"] += int(m.group(5)); row["oracle"] = m.group(6)
            if tag == "tsan": row["under_tsan"] = True
        if "!oracle" in l:
            fails.append((cur if cur is not None else l, l))
    return p.returncode, lines, p.stderr, fails


def report_fails(ctx, exe, fails, tag):
    seen = set(); found = False
    for case, l in fails:
        m = re.search(r"!oracle (\S+) routine=(\S+) threads=(\d+)", l)
        key = f"oracle:{m.group(1)}:{m.group(2)}" if m else "oracle:unknown"
        if key in seen: continue
        seen.add(key); found = True
        ctx.violation(key, {"harness_cmd": [exe], "ops": [case], "line": l, "build": tag}, True,
                      f"result depends on thread count/schedule ({tag} build): {l}")
    return found


def classify(ops, r):
    if r.oracle:
        m = re.search(r"!oracle (\S+)", r.oracle[0])
        return f"oracle:{m.group(1) if m else 'unknown'}:{ops[-1].split()[0]}", r.oracle[0]
    if r.crash:
        return f"crash:{ops[-1].split()[0]}", "harness crashed: " + r.stderr[-300:]
    return f"model-mismatch:{ops[-1].split()[0]}", "real routine and Lean model of its control flow disagree"


def run(ctx):
    ctx.trusted += ["translator translate/par_regions.py (range arithmetic via translate/cexpr.py; region inventory by text hash; "
                    "token-level extraction of the written variables of every region body)",
                    "reviewed allow-list translate/par_allow.json (what the extractor cannot decide: calls, aliases, derived indices)",
                    "runtime harness harness/c20.cpp; clang-14 ThreadSanitizer + libomp + Archer"]
    ctx.assumptions += ["sequentially consistent interleaving semantics; a critical section is one atomic step on one record-valued location",
                        "exact data (small integers): any schedule dependence of a sum shows as a bit difference",
                        "static OpenMP schedule for the thread-indexed kNN heaps (the dynamic build runs them only with threads <= batches)",
                        "the dynamic build replaces the pragma of SHARK_PARALLEL_FOR by schedule(dynamic,1); region bodies are the library's"]
    translate(ctx)
    ctx.prove(["SharkVerif.Props.C20", "SharkVerif.Gen.ParRegions", "SharkVerif.Gen.ParSummaries"])
    if not ctx.quick:
        ctx.leanchecker(["SharkVerif.Props.C20"])
    exe = build(ctx)
    if not exe:
        return
    _, dyn, tsan = ctx._c20
    drv = ctx.driver("drv_c20")
    try:
        inv = json.load(open(os.path.join(core.CACHE, "par_inventory.json")))
        ctx.cov["parallel_regions"] = len(inv["regions"])
        for r in inv["regions"]:
            ctx.hist("region_classes", r.get("class", "UNREVIEWED"))
            for v in r.get("summary", {}).get("vars", []):
                ctx.hist("extracted_write_classes", v["class"])
        ctx.cov["allow_entries_used"] = inv.get("allow_used", 0)
        ctx.cov["mutable_members_inventoried"] = inv.get("mutable_members", 0)
        ctx.sample({"extracted_summary_example": inv["regions"][0]["id"], "vars": inv["regions"][0].get("summary", {}).get("vars", [])[:6]})
    except (OSError, KeyError, IndexError):
        pass
    broken_tie = any(b["kind"] in ("translator", "theorem", "build") for b in ctx.breaks)
    found = False
    # ---- correspondence: real work split / real neighbour search vs. the Lean model of their control flow
    if drv:
        mc = gen_model_cases(ctx, 150 if ctx.quick else 2000)
        cdir0 = os.path.join(core.VERIF, "corpus", "C20")
        edge = [l.strip() for fn in sorted(os.listdir(cdir0)) for l in open(os.path.join(cdir0, fn)).read().splitlines()
                if l.split() and l.split()[0] in ("split", "splitw", "knn")] if os.path.isdir(cdir0) else []
        if edge: mc = [[l] for l in edge] + mc
        ctx.sample({"model_case": mc[0]})
        e = {"ASAN_OPTIONS": "detect_leaks=0:abort_on_error=0", "OMP_NUM_THREADS": "4", "OMP_WAIT_POLICY": "passive", "GOMP_SPINCOUNT": "0"}
        if core.correspond(ctx, "c20-model", mc, [exe], [drv], classify, env=e, keep_prefix=0):
            found = True
        if dyn:
            # the same under schedule(dynamic,1): per-batch split and neighbour search (thread-indexed heaps: threads <= batches only)
            def dyn_ok(op):
                t = op.split()
                if t[0] == "splitw": return True
                if t[0] == "knn":
                    n = len(t) - 5; bs = int(t[3]); return int(t[1]) <= n // bs
                return False
            md = [[op for op in c if dyn_ok(op)] for c in mc]
            md = [c for c in md if c]
            if core.correspond(ctx, "c20-model-dynamic", md, [dyn], [drv], classify, env=e, keep_prefix=0):
                found = True
    ncases, reps = (20, 2) if ctx.quick else (100, 3)
    if broken_tie:
        ncases, reps = max(ncases, 30), max(reps, 3)      # search harder for a failing schedule (quick tier: more cases and repetitions)
    # corpus first: minimised past failures (case lines go through the sweep, `dropout` lines to ThreadSanitizer)
    corpus_cases, corpus_tsan = [], []
    cdir = os.path.join(core.VERIF, "corpus", "C20")
    for fn in sorted(os.listdir(cdir)) if os.path.isdir(cdir) else []:
        for l in open(os.path.join(cdir, fn)).read().splitlines():
            l = l.strip()
            if l.startswith("case ") and l not in corpus_cases: corpus_cases.append(l)
            elif l.startswith("dropout ") and l not in corpus_tsan: corpus_tsan.append(l)
    ctx.cov["corpus_cases"] = len(corpus_cases) + len(corpus_tsan)
    cases = corpus_cases + gen_cases(ctx, ncases, reps)
    ctx.cov["evaluations"] = 0
    ctx.cov["distinct_nontrivial"] = len(set(cases))
    ctx.sample({"case": cases[0], "meaning": "case <seed> <n> <d> <batchsize> <reps>"})
    for tag, binary, cs in (("sweep", exe, cases), ("dynamic", dyn, gen_cases(ctx, max(3, ncases // 2), reps, "dynamic"))):
        if not binary: continue
        rc, lines, err, fails = run_sweep(ctx, binary, cs, tag)
        if tag == "sweep": ctx.sample({"harness_output": lines[:4]})
        if rc != 0:
            found = True
            ctx.violation(f"crash:c20-{tag}", {"harness_cmd": [binary], "ops": cs, "stderr": err[-2000:], "stdout_tail": lines[-5:]}, True,
                          f"parallel-routine sweep ({tag} build) crashed")
        if report_fails(ctx, binary, fails, tag): found = True
    # ---- ThreadSanitizer (clang + libomp + Archer): every run, more cases in the thorough tier / after a broken tie
    if tsan:
        tc = gen_cases(ctx, 5 if (ctx.quick and not broken_tie) else 16, 1, "tsan") + (corpus_tsan or ["dropout 4"])
        env = {"TSAN_OPTIONS": "ignore_noninstrumented_modules=1 halt_on_error=0 exitcode=0", "OMP_NUM_THREADS": "4"}
        rc2, lines2, err2, fails2 = run_sweep(ctx, tsan, tc, "tsan", env=env, timeout=3000)
        races = re.findall(r"WARNING: ThreadSanitizer: data race.*?(?=\n=+\n|\Z)", err2, flags=re.S)
        ctx.cov["tsan_reports"] = len(races)
        ctx.cov["tsan_cases"] = len(tc)
        sites = set()
        for rep in races:
            fr = re.findall(r"#\d+ .*? (/[^\s:]+):(\d+)(?::\d+)? \(", rep)
            # innermost frame inside the repo tree (the generic helpers of Core/Random.h are skipped: they name no component)
            inrepo = [(p, ln) for p, ln in fr if p.startswith(core.REPO + "/")]
            pref = [(p, ln) for p, ln in inrepo if not p.endswith("Core/Random.h") and "/LinAlg/BLAS/" not in p]
            site = next((f"{os.path.relpath(p, core.REPO)}:{ln}" for p, ln in (pref or inrepo)), None)
            if site and site not in sites:
                sites.add(site); found = True
                ctx.violation(f"tsan:{site}", {"harness_cmd": [tsan], "ops": tc, "env": env, "report": rep[:3000]}, True,
                              f"ThreadSanitizer data race at {site}")
    ctx.log("routines exercised: " + "; ".join(f"{k} T={v['threads']} {'/'.join(v['schedules'])}" for k, v in sorted(ctx.cov.get("routines", {}).items()))[:6000])
    # breaks of the static tie for which no failing schedule was found are reported by finish()
    if found:
        for b in ctx.breaks:
            b["resolved"] = True


def replay(ctx, rep):
    exe = build(ctx)
    if rep.get("harness_cmd") and os.path.exists(rep["harness_cmd"][0]): exe = rep["harness_cmd"][0]
    rc, lines, err, fails = run_sweep(ctx, exe, rep["ops"], "replay", env=rep.get("env"))
    print("\n".join(lines)); print(err[-1500:])
    return 1 if (fails or rc != 0) else 0
