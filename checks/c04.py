"""C04 — models: theorems (Props/C04.lean) + correspondence K-C04 (harness/c04.cpp vs
Model/Models.lean, Model/Models2.lean, Model/Models3.lean through drv_c04): dense layers with every element-wise activation
(dense and sparse inputs), concatenations of any length and nesting, normalizer/softmax rows, Normalizer, Classifier,
KernelClassifier, pooling, resize, convolution, RBF, kernel expansion, ensemble, CMAC, one-versus-one, CARTree / RFClassifier,
clustering models, dropout; object histories (setStructure, State reuse, copies) and empty batches."""
import os, re
from vlib import core

TRUST = ("Lean 4.33 kernel; axioms at most propext/Classical.choice/Quot.sound (audited per run); "
         "hand-written models Model/Models.lean, Model/Models2.lean, Model/Models3.lean tied to the C++ by the correspondence harness (differential, generator-bounded); ")
MANIFEST = dict(
  text=("Theorems (Props/C04.lean, all for arbitrary shapes / batch sizes / parameter values). "
        "(1) batch = row-wise single evaluation, exact arithmetic: dense layers with every element-wise activation, ConcatenatedModel chains of any "
        "length and any layer kinds (row i of the output depends on row i of the input only, and equals the evaluation of the one-row batch), nested "
        "ConcatenatedModels of any depth (they evaluate like their flat chain), evaluation independent of State recording (the State-less fold = "
        "the recording loop, chain_eval_state_independent), Normalizer, Classifier<LinearModel> and KernelClassifier (label of row i = decision on the "
        "single evaluation), max pooling, linear gathers (ResizeLayer), RBFLayer, KernelExpansion over any kernel function, weighted-mean and voting "
        "Ensemble over members that satisfy batch = single, CMAC, Conv2DModel, OneVersusOneClassifier, CARTree, soft / hard clustering models, DropoutLayer for a given mask. "
        "(2) parameterVector/setParameterVector round trip with the reported count: dense layer, chain (optimised and frozen layers), NESTED "
        "ConcatenatedModels with frozen sub-models (the recursive slicing of the C++ is the slicing of the flat chain: nested_params_length, "
        "nested_params_setParams, nested_frozen_child), Normalizer, KernelExpansion, RBFLayer (over the reals, log/exp encoding of the widths), CMAC, "
        "Conv2DModel, OneVersusOneClassifier (the vectors of the binary classifiers in order), Centroids. "
        "(3) derivatives over the reals (HasDerivAt of the coefficient-weighted output sum): dense layer weight/offset/input derivatives for every "
        "activation (rectifier/fast sigmoid away from the kink); softmax and normalizer Jacobian-vector products; "
        "the executable backward pass Chain.backward of a ConcatenatedModel of any length made of dense, element-wise neuron, softmax and normalizer "
        "layers, optimised or frozen: its input-coefficient matrix is the input derivative and the entry of its gradient vector at the position of "
        "W[k][j] / b[k] of any optimised dense layer is the partial derivative w.r.t. that parameter (induction over the chain, "
        "chain_input/weight/offset_derivative_correct, chain_curve_hasDerivAt), next to the abstract Frechet chain rule concat_chain_rule; the recursive "
        "backward pass of NESTED models returns the gradient vector and input derivative of the flat chain (nested_backward_eq_flat, "
        "nested_input_derivative_correct, nested_frozen_backward); combined = separate: weightedDerivatives = (weightedParameterDerivative, "
        "weightedInputDerivative) for every chain (chain_combined_eq_separate); "
        "max-pooling input derivative (no tie in the patch of the pixel) and, AT TIES, the statement of what the code does: the whole coefficient goes to "
        "the first maximal pixel in scan order, which is a subgradient of the weighted patch maximum for a non-negative coefficient "
        "(pooling_tie_subgradient, pooling_tie_first); input derivative of any linear gather (ResizeLayer taps), the 16 spline weights of every output "
        "pixel sum to 1 and every tap lies inside the image (resize_weights_sum_one, resize_taps_in_range); RBFLayer centre "
        "and log-width gradients at their positions in the gradient vector; CMAC parameter derivative; Conv2DModel (both paddings, every activation away "
        "from its kink) input derivative and filter/offset gradients at their positions in the gradient vector, and the IMPLEMENTATION of "
        "Conv2DModel::eval (patch matrix of im2mat / im2mat_pad with its three branches, gemm with the transposed filter matrix, offsets on the reshaped "
        "output, activation) equals that defining sum for every shape, both paddings, filters larger than the image included (conv2d_im2mat_entry, "
        "conv2d_impl_eq_spec, conv2d_zeropad_output_shape). "
        "(4) Classifier: argmax returns an index of a maximal entry and the first such (and is characterised by that), with bias the first maximum of "
        "z + bias, a single output is thresholded at 0; max pooling returns the maximum of its patch, attained at the pixel the derivative selects; "
        "the votes of a voting ensemble sum to 1; CMAC tile hashing: with all tile numbers below the tile count every accessed parameter position is inside "
        "the parameter vector and determines (output, tiling, tile numbers) uniquely; OneVersusOneClassifier: the decision is a class with the most votes "
        "and the first such (ovo_decision_spec); CARTree: for every tree produced by createRoot / transformInternalNode / transformLeafNode the walk of "
        "findLeaf ends in a leaf inside the node array within numberOfNodes steps (cart_walk_reaches_leaf); clustering: the hard label is the first "
        "cluster of maximal soft membership, the memberships sum to 1. "
        "Correspondence (harness/c04.cpp on the real classes vs the same Lean definitions, corpus first): exact comparison on dyadic data for "
        "linear/rectifier layers and chains, nested ConcatenatedModels (built as real nested objects, compared with the recursive Net model), "
        "LinearModel on sparse inputs (CompressedRealVector; also against the dense model in the harness), Normalizer, Classifier, KernelClassifier, "
        "arg_max, PoolingLayer, KernelExpansion with LinearKernel, CMACMap, Conv2DModel (linear/rectifier, both paddings, zero padding with filters "
        "larger than the image, incl. both derivatives), OneVersusOneClassifier, CARTree<unsigned int>; bit-for-bit outputs for "
        "tanh/logistic/fast-sigmoid/softmax/normalizer layers, ResizeLayer (spline taps incl. derivative), Ensemble (mean and vote), RFClassifier "
        "(weighted vote of CARTrees); 1e-12 relative tolerance for gradient fields behind BLAS and for "
        "RBFLayer / Gaussian KernelExpansion / Conv2DModel(tanh, logistic) / Centroids soft memberships. In-harness oracle on the real code: batch rows == "
        "single evaluation, one-row batches, EMPTY batches (size 0 for every model), state vs stateless, a State that has recorded another batch "
        "before, combined vs separate derivative calls, derivative results independent of the previous content of the result object, parameter round "
        "trip and count, central finite differences for every advertised derivative; OBJECT HISTORIES (every second case): the object is built with "
        "another structure, evaluated, re-configured with setStructure and must then behave like a fresh object (the model), copies evaluate alike and "
        "do not share parameters, assignment over an object with other parameters; DropoutLayer (random, oracle only, private generator re-seeded): "
        "state/stateless/row-by-row evaluation draw the same mask, out = mask*x, input derivative = mask*coefficients, p = 0 and p = 1."),
  note=TRUST + "PARTIAL. Proved: the items (1)-(4) above about the executable models. Only exercised by the correspondence (no theorem): "
       "the backward implementation of Conv2DModel (reorder NHWC/CHWN + conv2d for the filter gradient, backprop filters + padded conv2d for the input "
       "derivative; the theorems are about the defining sums, the forward implementation IS proved), the loop nest of im2mat as such (its index map is "
       "the model), the floating-point tile numbers of CMAC (the theorems take the cast `toNat` as an arbitrary function), the spline base points "
       "(`floor`, the cast; the tap theorems hold for arbitrary ones), DropoutLayer (theorems for a given mask, dropout_input_derivative_correct; the mask is random: harness oracle only), RFClassifier beyond its vote, sparse inputs "
       "(modelled by the dense layer). Not modelled: OpenCL back ends, Padding::RepeatBorder (not implemented by the library: PoolingLayer rejects every "
       "padding but Valid, Conv2DModel treats it as ZeroPad), floating-point rounding, NearestNeighborModel (C17), serialisation (C10). What the code does "
       "with a State recorded for a different batch and not refreshed: the derivative calls read the stale intermediates (no check in release builds) - a "
       "caller error, not modelled; re-using a State object for a new eval is covered. "
       "Findings on the real code: F-C04-1..5 fixed in /repo; open (probed first, corpus/C04, findings_proposed/C04.md, patches validated with "
       "VERIF_REPO): F-C04-6 KernelExpansion::setStructure keeps the offset vector when re-configured without offset (wrong parameter count, "
       "setParameterVector throws), F-C04-7 CARTree::eval (and RFClassifier) on an empty batch reads row 0.",
  technique="Lean 4 proofs (exact algebra over Rat, HasDerivAt/chain rule over Real, induction over the layer chain and over nested models, refinement of the im2mat/gemm implementation) + exact / bit-exact differential correspondence with the C++ models incl. object histories",
  design="§6 C04")
FINISH = dict(level="proof",
              rule="cases = (model class, activation(s), shapes, nesting, object history, dyadic parameters/inputs/coefficients); distinct = distinct op text; "
                   "non-trivial = batch size >= 2")
LAKE_TARGETS = ["SharkVerif.Props.C04", "drv_c04"]
# ResizeLayer evaluates its images in an OpenMP loop: two threads, no spinning (the machine is shared; schedules are C20's topic)
ENV = {"OMP_NUM_THREADS": "2", "OMP_WAIT_POLICY": "PASSIVE"}
ACTS = ["linear", "rectifier", "tanh", "logistic", "fastsigmoid"]
EXACT_ACTS = ["linear", "rectifier"]


def build(ctx):
    return ctx.harness("c04", ["c04.cpp"], repo_sources=["src/Models/RBFLayer.cpp", "src/Models/CMAC.cpp", "src/Models/Centroids.cpp", "src/Core/Random.cpp"])


def bsz(r, opts):
    """batch size: one case in ten has the empty batch"""
    return 0 if r.chance(1, 10) else r.choice(opts)


def dy(r, lo, hi, fracbits):
    k = r.below(fracbits + 1)
    a = r.range(lo << k, hi << k)
    return f"{a}/{k}" if k else f"{a}"


def vec(r, n, lo=-3, hi=3, fb=2):
    return " ".join(dy(r, lo, hi, fb) for _ in range(n))


def scaled(tok, sh):
    """the dyadic token times 2^sh"""
    a, _, k = tok.partition("/")
    a, k = int(a), int(k or 0)
    if sh >= 0: a <<= sh
    else: k -= sh
    return f"{a}/{k}" if k else f"{a}"


def gen_dense(r, exact):
    act = r.choice(EXACT_ACTS if exact else ACTS)
    hb = r.below(2); nIn = r.range(1, 4); nOut = r.range(1, 4); B = bsz(r, [1, 1, 2, 3, 5])
    np_ = nOut * nIn + (nOut if hb else 0)
    # extreme magnitudes: the whole input batch times 2^20 (saturated activations) or 2^-30, or an all-zero batch
    sh = r.choice([0, 0, 0, 0, 0, 20, -30, None])
    xs = " ".join("0" if sh is None else scaled(t, sh) for t in vec(r, B * nIn).split())
    return f"dense {act} {hb} {nIn} {nOut} {B} | {vec(r, np_)} | {xs} | {vec(r, B * nOut)}"


def gen_concat(r, exact):
    a1 = r.choice(EXACT_ACTS if exact else ACTS); a2 = r.choice(EXACT_ACTS if exact else ACTS)
    h1 = r.below(2); h2 = r.below(2); nIn = r.range(1, 3); nHid = r.range(1, 3); nOut = r.range(1, 3); B = bsz(r, [1, 2, 4])
    np_ = nHid * nIn + (nHid if h1 else 0) + nOut * nHid + (nOut if h2 else 0)
    return f"concat {a1} {h1} {a2} {h2} {nIn} {nHid} {nOut} {B} | {vec(r, np_, -2, 2, 1)} | {vec(r, B * nIn, -2, 2, 1)} | {vec(r, B * nOut, -2, 2, 1)}"


def gen_chain(r, exact):
    """ConcatenatedModel of 2-4 layers: dense / element-wise neuron / softmax / normalizer layers, each optimised or frozen"""
    acts = EXACT_ACTS if exact else ACTS
    B = bsz(r, [1, 2, 3]); nIn = r.range(1, 3)
    specs, n, npar = [], nIn, 0
    L = r.range(2, 4)
    for li in range(L):
        x = r.below(10)
        if x < 6 or (li == L - 1 and npar == 0):
            act = r.choice(acts); hb = r.below(2); nOut = r.range(1, 3); opt = 0 if r.chance(1, 4) else 1
            specs.append(f"d:{act}:{hb}:{nOut}:{opt}"); npar += nOut * n + (nOut if hb else 0); n = nOut
        elif x < 8 or exact:
            specs.append(f"n:{r.choice(acts)}:{r.below(2)}")
        else:
            # softmax is always fine; the normalizer needs rows that do not sum to 0, so only directly after a logistic layer
            prev_logistic = specs and specs[-1].split(":")[1] == "logistic"
            specs.append(f"r:{'normalizer' if (prev_logistic and r.chance(1, 2)) else 'softmax'}:{r.below(2)}")
    return f"chain {B} {nIn} | {' '.join(specs)} | {vec(r, npar, -2, 2, 1)} | {vec(r, B * nIn, -2, 2, 1)} | {vec(r, B * n, -2, 2, 1)}"


def gen_rowact(r):
    kind = r.choice(["normalizer", "softmax"]); n = r.range(1, 5); B = bsz(r, [1, 2, 3, 4])
    lo = 1 if kind == "normalizer" else -3      # normalizer rows must not sum to 0
    return f"rowact {kind} {n} {B} | {vec(r, n * B, lo, 4, 2)} | {vec(r, n * B)}"


# ---------------------------------------------------------------- further model types
def gen_normalizer(r):
    hb = r.below(2); n = r.range(1, 5); B = bsz(r, [1, 2, 3, 5])
    return f"normalizer {hb} {n} {B} | {vec(r, n + (n if hb else 0))} | {vec(r, B * n)}"


def gen_classifier(r, probe):
    """Classifier<LinearModel>: arg-max with ties (small integers), single thresholded output, optional bias"""
    nIn = r.range(1, 3); nOut = r.range(1, 4); hb = r.below(2); hasBias = r.below(2); B = bsz(r, [1, 2, 3, 4])
    ints = r.chance(1, 2)
    fb = 0 if ints else 2
    np_ = nOut * nIn + (nOut if hb else 0)
    bias = vec(r, nOut, -2, 2, fb) if hasBias else ""
    return f"classifier {nIn} {nOut} {hb} {hasBias} {B} {1 if probe else 0} | {vec(r, np_, -2, 2, fb)} | {bias} | {vec(r, B * nIn, -2, 2, fb)}"


def gen_argmax(r):
    n = r.range(1, 7)
    return f"argmax {n} | {vec(r, n, -1, 2, r.below(2))}"


def _perm(r, n):
    a = list(range(n))
    for i in range(n - 1, 0, -1):
        j = r.below(i + 1); a[i], a[j] = a[j], a[i]
    return a


def gen_pool(r, probe):
    h = r.range(1, 5); w = r.range(1, 5); d = r.range(1, 2); ph = r.range(1, min(h, 3)); pw = r.range(1, min(w, 3)); B = bsz(r, [1, 2, 3])
    nIn = h * w * d; nOut = (h // ph) * (w // pw) * d
    distinct = r.chance(1, 2)
    if distinct:      # no ties anywhere: the finite-difference oracle applies
        xs = " ".join(" ".join(f"{v - nIn // 2}/1" for v in _perm(r, nIn)) for _ in range(B))
    else:             # many ties: first maximum wins
        xs = vec(r, B * nIn, -1, 1, 0)
    return f"pool {h} {w} {d} {ph} {pw} {B} {1 if distinct else 0} {1 if probe else 0} | {xs} | {vec(r, B * nOut)}"


def gen_resize(r):
    h = r.range(1, 4); w = r.range(1, 4); d = r.range(1, 2); oh = r.range(1, 5); ow = r.range(1, 5); B = bsz(r, [1, 2, 3])
    return f"resize {h} {w} {d} {oh} {ow} {B} | {vec(r, B * h * w * d)} | {vec(r, B * oh * ow * d)}"


def gen_rbf(r):
    nIn = r.range(1, 3); nOut = r.range(1, 3); tc = r.below(2); tw = r.below(2); B = bsz(r, [1, 2, 3, 4])
    return (f"rbf {nIn} {nOut} {tc} {tw} {B} | {vec(r, nIn * nOut, -2, 2, 2)} | {vec(r, nOut, -1, 1, 2)} | "
            f"{vec(r, B * nIn, -2, 2, 2)} | {vec(r, B * nOut)}")


def gen_kexp(r, exact):
    nIn = r.range(1, 3); nB = r.range(1, 5); nOut = r.range(1, 3); hb = r.below(2); B = bsz(r, [1, 2, 3, 4])
    bb = r.choice([0, 1, 2, nB])
    kern = "linear 0" if exact else f"gauss {dy(r, 1, 8, 3)}"
    return (f"kexp {kern} {nIn} {nB} {nOut} {hb} {bb} {B} | {vec(r, nB * nIn, -2, 2, 1)} | "
            f"{vec(r, nB * nOut + (nOut if hb else 0), -2, 2, 1)} | {vec(r, B * nIn, -2, 2, 1)}")


def gen_ensemble(r, kind, single_output_ok):
    M = r.range(1, 4); nIn = r.range(1, 3); hb = r.below(2); B = bsz(r, [1, 2, 3])
    nOut = r.range(1, 3) if (kind == "mean" or single_output_ok) else r.range(2, 4)
    np_ = nOut * nIn + (nOut if hb else 0)
    ws = " ".join(dy(r, 1, 4, 2) for _ in range(M))
    return f"ensemble {kind} {M} {nIn} {nOut} {hb} {B} | {ws} | {vec(r, M * np_, -2, 2, 1)} | {vec(r, B * nIn, -2, 2, 1)}"


def gen_conv(r, exact, probe):
    """Conv2DModel: tiny images, 1-2 channels, 1-2 filters, both paddings"""
    act = r.choice(EXACT_ACTS if exact else ["tanh", "logistic"])
    h = r.range(1, 4); w = r.range(1, 4); c = r.range(1, 2); nf = r.range(1, 2)
    valid = r.below(2); B = bsz(r, [1, 2, 3])
    # with zero padding the filter may be larger than the image
    fh = r.range(1, min(h, 3) if valid else 3); fw = r.range(1, min(w, 3) if valid else 3)
    oh = h - fh + 1 + (0 if valid else fh - 1); ow = w - fw + 1 + (0 if valid else fw - 1)
    npar = nf * fh * fw * c + nf
    return (f"conv {act} {valid} {h} {w} {c} {nf} {fh} {fw} {B} {1 if probe else 0} | {vec(r, npar, -2, 2, 1)} | {vec(r, B * h * w * c, -2, 2, 1)} | "
            f"{vec(r, B * oh * ow * nf, -2, 2, 1)}")


def gen_cmac(r):
    nIn = r.range(1, 2); nOut = r.range(1, 2); tilings = r.choice([1, 2, 4]); tiles = r.choice([2, 3, 5]); B = bsz(r, [1, 2, 3])
    lo, up = r.choice([(0, 1), (-1, 1), (0, 2), (-2, 2)])
    npar = tiles ** nIn * tilings * nOut
    xs = " ".join(dy(r, lo, up, 3) for _ in range(B * nIn))
    return f"cmac {nIn} {nOut} {tilings} {tiles} {B} | {lo} {up} | {vec(r, npar, -2, 2, 1)} | {xs} | {vec(r, B * nOut)}"


def gen_sparse(r, exact):
    """LinearModel<CompressedRealVector>: rows with many zeros (also all-zero rows)"""
    act = r.choice(EXACT_ACTS if exact else ["tanh"])
    hb = r.below(2); nIn = r.range(1, 5); nOut = r.range(1, 3); B = bsz(r, [1, 2, 3, 5])
    np_ = nOut * nIn + (nOut if hb else 0)
    xs = " ".join("0" if r.chance(1, 2) else dy(r, -3, 3, 2) for _ in range(B * nIn))
    return f"sparse {act} {hb} {nIn} {nOut} {B} | {vec(r, np_)} | {xs} | {vec(r, B * nOut)}"


def gen_kclass(r):
    nIn = r.range(1, 3); nB = r.range(1, 4); nOut = r.range(1, 3); hb = r.below(2); B = bsz(r, [1, 2, 3, 4])
    fb = r.below(2)
    return (f"kclass {nIn} {nB} {nOut} {hb} {B} | {vec(r, nB * nIn, -2, 2, fb)} | "
            f"{vec(r, nB * nOut + (nOut if hb else 0), -2, 2, fb)} | {vec(r, B * nIn, -2, 2, fb)}")


def gen_ovo(r):
    """small integers: many vote ties"""
    nIn = r.range(1, 2); classes = r.range(1, 4); B = bsz(r, [1, 2, 3, 4])
    nb = classes * (classes - 1) // 2
    return f"ovo {nIn} {classes} {B} | {vec(r, nb * (nIn + 1), -2, 2, 0)} | {vec(r, B * nIn, -2, 2, 0)}"


def _tree_script(r, nIn, nCls):
    """random CARTree via createRoot / transformInternalNode / transformLeafNode; thresholds are small integers
    so that inputs hit them exactly (`<=`)"""
    open_, n, script = [0], 1, []
    for _ in range(r.range(0, 4)):
        nid = open_.pop(r.below(len(open_)))
        script.append(f"I:{nid}:{r.below(nIn)}:{r.range(-1, 1)}")
        open_ += [n, n + 1]; n += 2
    for nid in open_:
        script.append(f"L:{nid}:{r.below(nCls)}")
    return " ".join(script)


def gen_cart(r, allow_empty):
    nIn = r.range(1, 3); nCls = r.range(1, 3); B = bsz(r, [1, 2, 3, 4]) if allow_empty else r.choice([1, 2, 3, 4])
    return f"cart {nIn} {nCls} {B} | {_tree_script(r, nIn, nCls)} | {vec(r, B * nIn, -2, 2, r.below(2))}"


def gen_rf(r, allow_empty):
    nIn = r.range(1, 3); nCls = r.range(2, 3); M = r.range(1, 3); B = bsz(r, [1, 2, 3]) if allow_empty else r.choice([1, 2, 3])
    ws = " ".join(dy(r, 1, 4, 1) for _ in range(M))
    return f"rf {nIn} {nCls} {B} | {ws} | " + " | ".join(_tree_script(r, nIn, nCls) for _ in range(M)) + f" | {vec(r, B * nIn, -2, 2, r.below(2))}"


def gen_cluster(r):
    """inputs that coincide with a centroid (distance 0 -> kernel 1e100) and duplicate centroids (ties) included"""
    nIn = r.range(1, 3); nC = r.range(1, 4); B = bsz(r, [1, 2, 3]); cb = r.choice([1, 2, nC])
    cen = [[dy(r, -2, 2, 2) for _ in range(nIn)] for _ in range(nC)]
    if nC > 1 and r.chance(1, 4): cen[-1] = list(cen[0])
    rows = [list(r.choice(cen)) if r.chance(1, 4) else [dy(r, -2, 2, 2) for _ in range(nIn)] for _ in range(B)]
    return f"cluster {nIn} {nC} {B} {cb} | {' '.join(' '.join(c) for c in cen)} | {' '.join(' '.join(x) for x in rows)}"


def gen_dropout(r):
    pr = r.choice(["0", "1", "1/1", "1/2", "3/2"]); n = r.range(1, 4); B = bsz(r, [1, 2, 3])
    xs = " ".join("0" if r.chance(1, 5) else dy(r, -3, 3, 2) for _ in range(B * n))
    return f"dropout {pr} {n} {B} {r.below(1000)} | {xs} | {vec(r, B * n)}"


def gen_nest(r, exact):
    """nested ConcatenatedModels: groups `[:<opt> ... ]` up to depth 2, optimised or frozen as a whole"""
    acts = EXACT_ACTS if exact else ACTS
    B = bsz(r, [1, 2, 3]); nIn = r.range(1, 2)
    st = {"n": nIn, "npar": 0, "layers": 0, "groups": 0}

    def seq(depth, count):
        out = []
        for _ in range(count):
            x = r.below(10)
            if depth < 2 and x < 4 and st["layers"] < 5:
                o = 0 if r.chance(1, 3) else 1
                st["groups"] += 1
                out += [f"[:{o}"] + seq(depth + 1, r.range(1, 2)) + ["]"]
            elif x < 8 or st["layers"] >= 5:
                act = r.choice(acts); hb = r.below(2); nOut = r.range(1, 2); opt = 0 if r.chance(1, 4) else 1
                out.append(f"d:{act}:{hb}:{nOut}:{opt}"); st["npar"] += nOut * st["n"] + (nOut if hb else 0); st["n"] = nOut; st["layers"] += 1
            else:
                out.append(f"n:{r.choice(acts)}:{r.below(2)}"); st["layers"] += 1
        return out
    specs = seq(0, r.range(1, 3))
    if st["groups"] == 0:
        specs = ["[:1"] + specs + ["]"]
    return f"chain {B} {nIn} | {' '.join(specs)} | {vec(r, st['npar'], -2, 2, 1)} | {vec(r, B * nIn, -2, 2, 1)} | {vec(r, B * st['n'], -2, 2, 1)}"


# findings of the real code that are modelled *as repaired*; corpus/C04/<file> holds the minimal input
FINDINGS = {
    "F-C04-1": "classifier-single-eval-ignores-bias",
    "F-C04-2": "pooling-derivative-accumulates",
    "F-C04-3": "ensemble-vote-single-output-overflow",
    "F-C04-4": "conv2d-input-derivative-filter-layout",
    "F-C04-5": "parameterless-layer-gradient-not-resized",
    "F-C04-6": "kernelexpansion-setstructure-keeps-offset",
    "F-C04-7": "cartree-eval-empty-batch",
}


def load_corpus():
    d = os.path.join(core.VERIF, "corpus", "C04")
    out = []
    for fn in sorted(os.listdir(d)) if os.path.isdir(d) else []:
        if not fn.endswith(".txt"): continue
        lines = [l.rstrip("\n") for l in open(os.path.join(d, fn))]
        fid = next((l.split(":", 1)[1].strip() for l in lines if l.startswith("# finding:")), None)
        ops = [l for l in lines if l.strip() and not l.startswith("#")]
        out.append((fn, fid, ops))
    return out


def _parse_fields(line):
    out = {}
    for tok in re.finditer(r"(\w+)=((?:[^ =]| (?![A-Z][A-Z0-9]*=))*)", line):
        out[tok.group(1)] = tok.group(2)
    return out


def _num(tok):
    tok = tok.strip()
    if tok in ("nan", "inf", "-inf"): return float(tok)
    m, e = tok.split()
    return int(m) * 2.0 ** int(e)


TOL_FIELDS = ("GP", "GX", "D", "GP2", "GX2", "TPV", "TS", "TE")


def cmp_tol(a, b):
    """equal up to 1e-12 relative in the gradient fields GP/GX/D and the fields T* (values behind exp/log and BLAS sums);
    everything else must match exactly"""
    fa, fb = _parse_fields(a), _parse_fields(b)
    if fa.keys() != fb.keys(): return False
    for k in fa:
        if fa[k] == fb[k]: continue
        if k not in TOL_FIELDS: return False
        xa = [_num(t) for row in fa[k].split(";") for t in row.split(",") if t.strip()]
        xb = [_num(t) for row in fb[k].split(";") for t in row.split(",") if t.strip()]
        if len(xa) != len(xb): return False
        if any(not (abs(x - y) <= 1e-12 * (1 + abs(x))) for x, y in zip(xa, xb)): return False
    return True


def _finding_key(ops, res):
    """name the known defects of the real code (stable keys, see findings_proposed/C04.md)"""
    op = next((o for o in ops if not o.startswith(("mode", "probe"))), "")
    hd = op.split("|")[0].split()
    tags = " ".join(res.oracle)
    if hd[:1] == ["classifier"] and len(hd) == 7 and hd[4] == "1" and "batch-row-differs-from-single" in tags:
        return "F-C04-1"
    if hd[:1] == ["pool"] and "input-derivative-depends-on-previous-buffer-content" in tags:
        return "F-C04-2"
    if hd[:2] == ["ensemble", "vote"] and len(hd) == 7 and hd[4] == "1" and res.crash:
        return "F-C04-3"
    if hd[:1] in (["rowact"], ["resize"]) and "gradient-not-resized" in tags and "probe gradient-size 0" not in ops:
        return "F-C04-5"
    if hd[:1] == ["conv"] and len(hd) == 11 and hd[10] == "1" and "input-derivative-differs-from-finite-differences" in tags:
        return "F-C04-4"
    if hd[:1] == ["kexp"] and len(hd) == 9 and hd[6] == "0" and res.crash and "probe history 1" in ops and "probe kexp-reconf 0" not in ops:
        return "F-C04-6"
    if hd[:1] in (["cart"], ["rf"]) and len(hd) == 4 and hd[3] == "0" and res.crash:
        return "F-C04-7"
    return None


_TWO_TOKEN_KINDS = ("dense", "concat", "rowact", "ensemble", "kexp", "conv", "sparse")


def _op_kind(o):
    t = o.split()
    return " ".join(t[:2]) if t[0] in _TWO_TOKEN_KINDS else t[0]


def classify(ops, res):
    """key = <failure class>:<op kind>[:<oracle tag>]; failures are grouped (and reported once) per class and op kind"""
    kinds = "+".join(sorted({_op_kind(o) for o in ops if not o.startswith(("mode", "probe"))}))
    fid = _finding_key(ops, res)
    if fid:
        return f"{fid}:{FINDINGS[fid]}", f"{fid} ({FINDINGS[fid]}) on {ops}"
    if res.crash:
        return f"crash:{kinds}", f"harness aborted on {ops}"
    if res.oracle:
        m = re.search(r"!oracle (\S+)", res.oracle[0])
        return f"oracle:{kinds}:{m.group(1)}", f"property oracle failed ({m.group(1)}) on {ops}"
    return f"mismatch:{kinds}", f"model and implementation disagree at line {res.diff_at} on {ops}"


def run(ctx):
    ctx.trusted += ["correspondence harness harness/c04.cpp + generator checks/c04.py",
                    "hand-written models Model/Models.lean, Model/Models2.lean, Model/Models3.lean (the model headers / sources are modelled, not translated)",
                    "Float instance = IEEE binary64 with the platform libm (same tanh/exp as the C++)"]
    ctx.assumptions += ["exact arithmetic in the theorems; rounding enters only through the correspondence",
                        "gradient fields in float mode are compared with relative tolerance 1e-12 (BLAS/FMA summation order)"]
    ctx.prove(["SharkVerif.Props.C04"])
    if not ctx.quick:
        ctx.leanchecker(["SharkVerif.Props.C04"])
    exe = build(ctx); drv = ctx.driver("drv_c04")
    if not exe or not drv:
        return
    # corpus first; a corpus file tagged `# finding: <id>` probes a defect of the real code that the model has *as
    # repaired*: if it still fails the finding is reported (KNOWN-FINDING if listed) and the generated stream keeps
    # the rest of the property checked around it (probe flags off / trigger avoided); on a repaired tree everything is on
    present = set()
    corpus = load_corpus()
    ctx.cov["corpus_cases"] = len(corpus)
    for fn, fid, ops in corpus:
        n = core.correspond(ctx, f"K-C04[corpus:{fn}]", [ops], [exe], [drv], classify, cmp=cmp_tol, env=ENV, max_report=8)
        if n and fid:
            present.add(fid)
    ctx.cov["findings_present"] = sorted(present)
    r = ctx.rng.fork("c04")
    per = 1500 if ctx.quick else 20000
    half = per // 2
    p1, p2, p3, p4 = ("F-C04-1" not in present, "F-C04-2" not in present, "F-C04-3" not in present, "F-C04-4" not in present)
    p6, p7 = "F-C04-6" not in present, "F-C04-7" not in present
    gs = "probe gradient-size " + ("0" if "F-C04-5" in present else "1")     # parameter-less layers evaluated on their own
    kr = "probe kexp-reconf " + ("1" if p6 else "0")

    def hist():
        """every second case runs on objects with a history: built with another structure, evaluated, re-configured by
        setStructure; State objects that have recorded another batch; copies / assignments"""
        return f"probe history {r.below(2)}"
    exact_cases = [["mode rat", hist(), gen_dense(r, True)] for _ in range(per)] + [["mode rat", hist(), gen_concat(r, True)] for _ in range(per)] + \
                  [["mode rat", hist(), gen_chain(r, True)] for _ in range(per)] + [["mode rat", hist(), gen_nest(r, True)] for _ in range(half)] + \
                  [["mode rat", hist(), gen_normalizer(r)] for _ in range(half)] + [["mode rat", hist(), gen_classifier(r, p1)] for _ in range(per)] + \
                  [["mode rat", gen_argmax(r)] for _ in range(half)] + [["mode rat", hist(), gen_pool(r, p2)] for _ in range(per)] + \
                  [["mode rat", hist(), kr, gen_kexp(r, True), KR_ON] for _ in range(half)] + [["mode rat", hist(), gen_cmac(r)] for _ in range(half)] + \
                  [["mode rat", hist(), gen_conv(r, True, p4)] for _ in range(half)] + [["mode rat", hist(), gen_sparse(r, True)] for _ in range(half)] + \
                  [["mode rat", gen_kclass(r)] for _ in range(half)] + [["mode rat", gen_ovo(r)] for _ in range(half)] + \
                  [["mode rat", gen_cart(r, p7)] for _ in range(half)]
    float_cases = [["mode float", hist(), gen_dense(r, False)] for _ in range(per)] + [["mode float", hist(), gen_concat(r, False)] for _ in range(per)] + \
                  [["mode float", hist(), gs, gen_rowact(r), GS_ON] for _ in range(per)] + [["mode float", hist(), gen_chain(r, False)] for _ in range(2 * per)] + \
                  [["mode float", hist(), gen_nest(r, False)] for _ in range(half)] + \
                  [["mode float", hist(), gs, gen_resize(r), GS_ON] for _ in range(half)] + [["mode float", hist(), gen_rbf(r)] for _ in range(per)] + \
                  [["mode float", hist(), kr, gen_kexp(r, False), KR_ON] for _ in range(half)] + \
                  [["mode float", hist(), gen_ensemble(r, "mean", True)] for _ in range(half)] + [["mode float", hist(), gen_ensemble(r, "vote", p3)] for _ in range(half)] + \
                  [["mode float", hist(), gen_conv(r, False, p4)] for _ in range(half)] + [["mode float", hist(), gen_sparse(r, False)] for _ in range(half // 2)] + \
                  [["mode float", gen_rf(r, p7)] for _ in range(half)] + [["mode float", gen_cluster(r)] for _ in range(half)] + \
                  [["mode float", gen_dropout(r)] for _ in range(half)]
    nontrivial = set()
    for c in exact_cases + float_cases:
        op = _main_op(c); hd = op.split("|")[0].split(); B = _batch_size(op)
        ctx.hist("op_kinds", c[0].split()[1] + ":" + " ".join(hd[:2] if hd[0] in _TWO_TOKEN_KINDS else hd[:1]))
        ctx.hist("batch_size", str(B) if B < 4 else "4+")
        ctx.hist("object_history", "history" if "probe history 1" in c else "fresh")
        if hd[0] == "chain":
            specs = op.split("|")[1].split()
            ctx.hist("chain_layers", str(sum(1 for t in specs if t[0] in "dnr")))
            ctx.hist("chain_nesting", "flat" if "]" not in specs else ("depth>=2" if any(specs[i][0] == "[" and specs[i + 1][0] == "[" for i in range(len(specs) - 1)) or _depth(specs) >= 2 else "depth1"))
            ctx.hist("chain_frozen", "some-frozen" if any(t.endswith(":0") for t in specs if t[0] in "d[") else "all-optimised")
        if hd[0] == "conv":
            ctx.hist("conv_shape", ("valid" if hd[2] == "1" else "zeropad") + (":filter>image" if int(hd[7]) > int(hd[3]) or int(hd[8]) > int(hd[4]) else "") +
                     (":even-filter" if int(hd[7]) % 2 == 0 or int(hd[8]) % 2 == 0 else "") + (":1x1-image" if hd[3] == hd[4] == "1" else ""))
        if hd[0] == "pool":
            ctx.hist("pool_ties", "distinct" if hd[7] == "1" else "ties")
        if hd[0] == "dense" and B > 0:
            xs = op.split("|")[2].split()
            ctx.hist("dense_input_magnitude", "all-zero" if all(t == "0" for t in xs) else "2^20" if any(len(t.split("/")[0].lstrip("-")) >= 7 for t in xs)
                     else "2^-30" if any("/" in t and int(t.split("/")[1]) >= 30 for t in xs) else "unit")
        if hd[0] in ("dense", "sparse"):
            ctx.hist("dense_shape", f"in{min(int(hd[3]), 2)}{'+' if int(hd[3]) > 2 else ''}:out{min(int(hd[4]), 2)}{'+' if int(hd[4]) > 2 else ''}")
        if B >= 2:
            nontrivial.add(op)
    ctx.cov["evaluations"] = len(exact_cases) + len(float_cases)
    ctx.cov["distinct_nontrivial"] = len(nontrivial)
    ctx.sample({"ops": exact_cases[0]}); ctx.sample({"ops": float_cases[-1]})
    ctx.sample({"ops": next(c for c in exact_cases if "]" in _main_op(c))})
    core.correspond(ctx, "K-C04[exact]", exact_cases, [exe], [drv], classify, env=ENV, max_report=8)
    core.correspond(ctx, "K-C04[float]", float_cases, [exe], [drv], classify, cmp=cmp_tol, env=ENV, max_report=8)


def _depth(specs):
    d = m = 0
    for t in specs:
        if t[0] == "[": d += 1; m = max(m, d)
        elif t == "]": d -= 1
    return m


KR_ON = "probe kexp-reconf 1"
GS_ON = "probe gradient-size 1"


def _main_op(case):
    return next(o for o in case if not o.startswith(("mode", "probe")))


_B_POS = {"dense": 5, "concat": 8, "chain": 1, "rowact": 3, "normalizer": 3, "classifier": 5, "pool": 6, "resize": 6, "rbf": 5,
          "kexp": 8, "ensemble": 6, "cmac": 5, "conv": 9, "sparse": 5, "kclass": 5, "ovo": 3, "cart": 3, "rf": 3, "cluster": 3,
          "dropout": 3}


def _batch_size(op):
    hd = op.split("|")[0].split()
    pos = _B_POS.get(hd[0])
    try:
        return int(hd[pos]) if pos is not None else 2
    except (IndexError, ValueError):
        return 2


def replay(ctx, rep):
    exe = build(ctx); drv = ctx.driver("drv_c04")
    res = core.run_case(ctx, [exe], [drv], rep["ops"], cmp=cmp_tol, env=ENV)
    print("\n".join(f"impl : {a}\nmodel: {b}" for a, b in zip(res.impl, res.model)))
    print("OK" if res.ok else "FAILS")
    return 0 if res.ok else 1
