"""C04 — models: theorems (Props/C04.lean) + correspondence K-C04 (harness/c04.cpp vs
Model/Models.lean through drv_c04): dense layers with every element-wise activation,
two-layer concatenations, normalizer/softmax rows."""
import os, re
from vlib import core

TRUST = ("Lean 4.33 kernel; axioms at most propext/Classical.choice/Quot.sound (audited per run); "
         "hand-written model Model/Models.lean tied to the C++ by the correspondence harness (differential, generator-bounded); ")
MANIFEST = dict(
  text=("Theorems (Props/C04.lean): for dense layers with any element-wise activation, batch evaluation equals row-wise single "
        "evaluation for every batch (exact arithmetic), parameterVector/setParameterVector round-trip with the reported length; over "
        "the reals the weighted parameter and input derivatives of a dense layer are the partial derivatives of the "
        "coefficient-weighted sum of outputs for every activation (tanh, logistic, fast sigmoid, rectifier away from 0, linear), "
        "the softmax/normalizer rows satisfy their Jacobian-vector identities, and a generic chain rule: if two models satisfy the "
        "derivative contract so does their concatenation (what ConcatenatedModel computes). Correspondence: exact comparison on "
        "dyadic data for linear/rectifier, bit-for-bit outputs and 1e-12-toleranced gradients for tanh/logistic/fast-sigmoid/"
        "softmax/normalizer, in-harness oracle for batch-vs-single, state-vs-stateless, combined-vs-separate derivative calls, "
        "parameter round trip."),
  note=TRUST + "PARTIAL: only LinearModel (all activations), NeuronLayer (element-wise, normalizer, softmax) and ConcatenatedModel chains (any length, optimised or frozen layers) are modelled; "
       "convolution, pooling, resize, RBF, CMAC, Normalizer model, Classifier, KernelExpansion, Ensemble are not covered yet; "
       "floating-point rounding is not modelled.",
  technique="Lean 4 proofs (exact algebra over Rat, HasDerivAt/chain rule over Real) + exact / bit-exact differential correspondence with the C++ models",
  design="§6 C04")
FINISH = dict(level="proof",
              rule="cases = (layer kind, activation(s), shapes, dyadic parameters/inputs/coefficients); distinct = distinct op text; "
                   "non-trivial = batch size >= 2 and at least 2 outputs")
LAKE_TARGETS = ["SharkVerif.Props.C04", "drv_c04"]
ACTS = ["linear", "rectifier", "tanh", "logistic", "fastsigmoid"]
EXACT_ACTS = ["linear", "rectifier"]


def build(ctx):
    return ctx.harness("c04", ["c04.cpp"])


def dy(r, lo, hi, fracbits):
    k = r.below(fracbits + 1)
    a = r.range(lo << k, hi << k)
    return f"{a}/{k}" if k else f"{a}"


def vec(r, n, lo=-3, hi=3, fb=2):
    return " ".join(dy(r, lo, hi, fb) for _ in range(n))


def gen_dense(r, exact):
    act = r.choice(EXACT_ACTS if exact else ACTS)
    hb = r.below(2); nIn = r.range(1, 4); nOut = r.range(1, 4); B = r.choice([1, 1, 2, 3, 5])
    np_ = nOut * nIn + (nOut if hb else 0)
    return f"dense {act} {hb} {nIn} {nOut} {B} | {vec(r, np_)} | {vec(r, B * nIn)} | {vec(r, B * nOut)}"


def gen_concat(r, exact):
    a1 = r.choice(EXACT_ACTS if exact else ACTS); a2 = r.choice(EXACT_ACTS if exact else ACTS)
    h1 = r.below(2); h2 = r.below(2); nIn = r.range(1, 3); nHid = r.range(1, 3); nOut = r.range(1, 3); B = r.choice([1, 2, 4])
    np_ = nHid * nIn + (nHid if h1 else 0) + nOut * nHid + (nOut if h2 else 0)
    return f"concat {a1} {h1} {a2} {h2} {nIn} {nHid} {nOut} {B} | {vec(r, np_, -2, 2, 1)} | {vec(r, B * nIn, -2, 2, 1)} | {vec(r, B * nOut, -2, 2, 1)}"


def gen_chain(r, exact):
    """ConcatenatedModel of 2-4 layers: dense / element-wise neuron / softmax / normalizer layers, each optimised or frozen"""
    acts = EXACT_ACTS if exact else ACTS
    B = r.choice([1, 2, 3]); nIn = r.range(1, 3)
    specs, n, npar = [], nIn, 0
    L = r.range(2, 4)
    for li in range(L):
        x = r.below(10)
        if x < 6 or (li == L - 1 and npar == 0):
            act = r.choice(acts); hb = r.below(2); nOut = r.range(1, 3); opt = 0 if r.chance(1, 4) else 1
            specs.append(f"d:{act}:{hb}:{nOut}:{opt}"); npar += nOut * n + (nOut if hb else 0); n = nOut
        elif x < 8 or exact:
            specs.append(f"n:{r.choice(acts)}:{r.below(2)}")
        else:
            # softmax is always fine; the normalizer needs rows that do not sum to 0, so only directly after a logistic layer
            prev_logistic = specs and specs[-1].split(":")[1] == "logistic"
            specs.append(f"r:{'normalizer' if (prev_logistic and r.chance(1, 2)) else 'softmax'}:{r.below(2)}")
    return f"chain {B} {nIn} | {' '.join(specs)} | {vec(r, npar, -2, 2, 1)} | {vec(r, B * nIn, -2, 2, 1)} | {vec(r, B * n, -2, 2, 1)}"


def gen_rowact(r):
    kind = r.choice(["normalizer", "softmax"]); n = r.range(1, 5); B = r.range(1, 4)
    lo = 1 if kind == "normalizer" else -3      # normalizer rows must not sum to 0
    return f"rowact {kind} {n} {B} | {vec(r, n * B, lo, 4, 2)} | {vec(r, n * B)}"


def _parse_fields(line):
    out = {}
    for tok in re.finditer(r"(\w+)=((?:[^ =]| (?![A-Z][A-Z0-9]*=))*)", line):
        out[tok.group(1)] = tok.group(2)
    return out


def _num(tok):
    tok = tok.strip()
    if tok in ("nan", "inf", "-inf"): return float(tok)
    m, e = tok.split()
    return int(m) * 2.0 ** int(e)


def cmp_tol(a, b):
    """equal up to 1e-12 relative in the gradient fields GP/GX/D; everything else must match exactly"""
    fa, fb = _parse_fields(a), _parse_fields(b)
    if fa.keys() != fb.keys(): return False
    for k in fa:
        if fa[k] == fb[k]: continue
        if k not in ("GP", "GX", "D", "GP2", "GX2"): return False
        xa = [_num(t) for row in fa[k].split(";") for t in row.split(",") if t.strip()]
        xb = [_num(t) for row in fb[k].split(";") for t in row.split(",") if t.strip()]
        if len(xa) != len(xb): return False
        if any(not (abs(x - y) <= 1e-12 * (1 + abs(x))) for x, y in zip(xa, xb)): return False
    return True


def classify(ops, res):
    kinds = sorted({(o.split()[0] if o.startswith("chain") else " ".join(o.split()[:2])) for o in ops if not o.startswith("mode")})
    if res.crash:
        return f"crash:{'+'.join(kinds)}", f"harness aborted on {ops}"
    if res.oracle:
        m = re.search(r"!oracle (\S+)", res.oracle[0])
        return f"oracle:{m.group(1)}:{'+'.join(kinds)}", f"property oracle failed ({m.group(1)}) on {ops}"
    return f"mismatch:{'+'.join(kinds)}", f"model and implementation disagree at line {res.diff_at} on {ops}"


def run(ctx):
    ctx.trusted += ["correspondence harness harness/c04.cpp + generator checks/c04.py",
                    "hand-written model Model/Models.lean (LinearModel.h, NeuronLayers.h, ConcatenatedModel.h are modelled, not translated)",
                    "Float instance = IEEE binary64 with the platform libm (same tanh/exp as the C++)"]
    ctx.assumptions += ["exact arithmetic in the theorems; rounding enters only through the correspondence",
                        "gradient fields in float mode are compared with relative tolerance 1e-12 (BLAS/FMA summation order)"]
    ctx.prove(["SharkVerif.Props.C04"])
    if not ctx.quick:
        ctx.leanchecker(["SharkVerif.Props.C04"])
    exe = build(ctx); drv = ctx.driver("drv_c04")
    if not exe or not drv:
        return
    r = ctx.rng.fork("c04")
    per = 60 if ctx.quick else 800
    exact_cases = [["mode rat", gen_dense(r, True)] for _ in range(per)] + [["mode rat", gen_concat(r, True)] for _ in range(per)] + \
                  [["mode rat", gen_chain(r, True)] for _ in range(per)]
    float_cases = [["mode float", gen_dense(r, False)] for _ in range(per)] + [["mode float", gen_concat(r, False)] for _ in range(per)] + \
                  [["mode float", gen_rowact(r)] for _ in range(per)] + [["mode float", gen_chain(r, False)] for _ in range(2 * per)]
    for c in exact_cases + float_cases:
        ctx.hist("op_kinds", c[0].split()[1] + ":" + " ".join(c[1].split()[:2]))
    ctx.cov["evaluations"] = len(exact_cases) + len(float_cases)
    ctx.cov["distinct_nontrivial"] = len({c[1] for c in exact_cases + float_cases if c[1].split("|")[0].split()[-1] not in ("1",)})
    ctx.sample({"ops": exact_cases[0]}); ctx.sample({"ops": float_cases[-1]})
    core.correspond(ctx, "K-C04[exact]", exact_cases, [exe], [drv], classify)
    core.correspond(ctx, "K-C04[float]", float_cases, [exe], [drv], classify, cmp=cmp_tol)


def replay(ctx, rep):
    exe = build(ctx); drv = ctx.driver("drv_c04")
    res = core.run_case(ctx, [exe], [drv], rep["ops"], cmp=cmp_tol)
    print("\n".join(f"impl : {a}\nmodel: {b}" for a, b in zip(res.impl, res.model)))
    print("OK" if res.ok else "FAILS")
    return 0 if res.ok else 1
