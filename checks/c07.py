"""C07 — trained support vector machines are optimal solutions of their dual problem.

Theorems: Props/C07.lean (on Model/Smo.lean + Model/SvmTrainer.lean, Rat instance).
Tie: (1) K-C07[model]: the Float instance of the trainer model (problem set-up + the solver loop of
Model/Smo.lean + computeBias; driver drv_c07) against the real CSvmTrainer on integer-point data with the
linear kernel: coefficients, bias, stop reason and iteration count bit-for-bit;  (2) the solver-level
correspondence of C08 (same model, run by `./check C08`);  (3) K-C07[oracle]: the configuration cross
(kernel, bias, shrinking, precomputed/cached with small caches, C grid, accuracies) through the real trainer with
an independent oracle (own kernel matrix, box, equality constraint, KKT(eps), bias interval, objective) and a
comparison of the objectives across configurations against the proved bound 2*eps*sum(U-L);  (4) K-C07[extended]
(harness c07x): the trainers and axes (1)-(3) do not reach -- SquaredHingeCSvmTrainer, RankingSvmTrainer (duality-gap oracle),
MissingFeatureSvmTrainer, double kernel cache, sparse inputs (incl. the GaussianKernelMatrix path), real cache sizes from two
rows upward (the trainer's own optimize() behind CachedMatrix(&km, size)), warm starts from arbitrary coefficients / from a
machine trained on a subset / with the other bias setting, iteration and time limits with truthful stop types.
"""
import math, os, re
from vlib import core
from checks import c08

TRUST = ("Lean 4.33 kernel; axioms at most propext/Classical.choice/Quot.sound (audited per run); hand-written trainer/solver "
         "model tied by bit-for-bit correspondence with CSvmTrainer on exact (integer-point, linear-kernel) data; ")
MANIFEST = dict(
  text=("Theorems (Props/C07.lean) over Rat, all sizes. objective_recomputed -- the objective reported by the solver "
        "(0.5*(g+lin).alpha) equals the recomputed dual objective lin.alpha - 0.5*alpha^T K alpha whenever the gradient invariant "
        "of C08 holds for all variables; stop_implies_kkt -- when the model of QpSolver::solve leaves its loop with "
        "AccuracyReached, the KKT violation (checkKKT) of the un-shrunk state, which is the state reported, is below eps; "
        "stopped_pairwise_svm / stopped_kkt_box -- under the C08 invariant that checkKKT bound IS the KKT condition on the "
        "coefficients (g_i - g_j <= eps for every i below its upper and j above its lower bound; resp. every single violation "
        "<= eps); kkt_eps_near_optimal / kkt_eps_near_optimal_box -- for any symmetric PSD quadratic form, a feasible point that "
        "satisfies these KKT conditions up to eps has dual objective within eps*sum(U-L) of EVERY feasible point (with the same "
        "coefficient sum when a bias is trained): direct concavity argument, with exists_bias; stopped_near_optimal_svm/_box -- "
        "the same for the state the solver reports; config_independence(_box) -- two runs of any configuration (shrinking, "
        "cache, precomputation, warm start) that both report AccuracyReached differ in dual objective by at most eps*sum(U-L) "
        "(explicit constant; the oracle tests against 2*eps*sum(U-L)); bias_in_kkt_interval_partial -- the value returned by "
        "the model of computeBias (free-variable mean, else midpoint of the two bounds; variables with an empty box interior "
        "skipped) satisfies g_i - b <= eps for i not at the upper and b - g_j <= eps for j not at the lower bound, for gradients "
        "inside the C++ sentinel range [-1e100,1e100] (bias_sentinel_witness outside; bias_degenerate_box_instance_repaired); "
        "eps_offset_in_kkt_interval_partial / oneclass_offset_in_kkt_interval_partial -- the same for the offset loops of "
        "EpsilonSvmTrainer and OneClassSvmTrainer (shown equal to computeBias on boxes with non-empty interior); "
        "unpermute_correct -- getUnpermutedAlpha inverts every injective accumulated permutation. Widened trainers: csvmInit2_inv "
        "(class-specific C, per-example weights), epsInit_inv (2n-variable epsilon-regression problem) and oneClassInit_inv "
        "(alpha = 1/n start, coefficient sum 1; via initWith_inv) show that these problems start inside the C08 invariant, "
        "psd_block that the epsilon-regression block matrix [[K,K],[K,K]] is PSD when K is, so all theorems above apply to them; "
        "warm starts: setInitialSolution_inv (the rebuilt gradient and edge gradient satisfy the invariant for any start vector "
        "in the box), warmStart_in_box, warmStart_sum_zero and warmStart_untouched (the start vector of the repaired "
        "CSvmTrainer::optimize lies in the per-example box; with bias it sums to exactly 0 whenever clipping changed a "
        "coefficient or its positive and negative side differ by more than 1e-12 relative -- mustBalance, the repair of F-C07-9, "
        "modelled in warmStartVector; a previous vector that fits the box and is balanced up to that tolerance is passed through "
        "unchanged; warmStart_sum_small / warm_start_sum_tolerance: for EVERY previous vector the start vector sums to 0 up to "
        "1e-12*(sumP+sumN)), warm_start_inv. End to end: "
        "solve_acc (AccuracyReached => all variables active and checkKKT < eps in the returned state), solve_optimal_box / "
        "csvm_nobias_optimal -- for a PSD kernel, whenever the model of the trainer without bias reports AccuracyReached the "
        "returned coefficients are eps*sum(U-L)-optimal among ALL feasible vectors, with no hypothesis about the run (built on "
        "C08 solve_inv_box); solve_optimal_svm_partial -- the same with bias / epsilon-regression / one-class against all "
        "feasible vectors of the same coefficient sum, for runs whose gradients stay inside the sentinel range. "
        "Tie: the Float instance of the trainer model (problem set-ups of CSvmTrainer with one or class-specific C and "
        "per-example weights, cold and warm start incl. clipping and re-balancing, of EpsilonSvmTrainer (2n-variable block "
        "problem, offset loop) and of OneClassSvmTrainer (alpha = 1/n start, offset loop); solver loop; un-permutation; "
        "computeBias) equals the real trainers bit-for-bit (coefficients, bias, stop reason, iteration count) on integer-point "
        "data with the linear kernel, across precomputed / cached kernel and cache sizes; an independent trainer-level oracle "
        "(own kernel matrix; box, equality constraint incl. sum = 1 for one-class, KKT(eps), bias interval, reported objective) "
        "runs over the configuration cross trainer kind x bias x shrinking x precomputed/cache sizes x one/class-specific C x "
        "weighted/unweighted x cold/warm x C x eps x {linear, Gaussian} and compares the objectives across configurations "
        "against 2*eps*sum(U-L). "
        "ROUND deep3 -- statements about the machine that is RETURNED (Lemmas/SvmUnpermute.lean, Props/C07.lean section Returned, "
        "Props/C07b.lean): Tied (the per-variable data of every solver state are the original linear term and boxes seen through "
        "the permutation; kept by solve: solve_tied), perm_surj / rsum_perm (the accumulated permutation is a bijection; sums "
        "re-index), unperm_* (getUnpermutedAlpha: coefficient sum, K*alpha, dual objective, boxes in original coordinates), "
        "solve_sum_svm_partial (every run of the equality-constrained solver keeps the coefficient sum), solve_acc_pass. "
        "solve_returned_optimal_box / csvm_nobias_returned_optimal / csvm_nobias_warm_returned_optimal (FULL strength, every "
        "previous coefficient vector): AccuracyReached => the un-permuted vector a lies in the ORIGINAL boxes, violates KKT by at "
        "most eps for its true gradient lin0 - K a against the ORIGINAL kernel matrix, functionValue() = lin0.a - 1/2 a^T K a, "
        "and no vector in the boxes is more than eps*sum(U0-L0) better. solve_returned_optimal_svm(_partial), "
        "csvm_bias_returned_optimal(_partial), csvm_bias_warm_returned_optimal(_partial): the same with sum a = 0, pairwise KKT, "
        "near-optimality among vectors of the same sum and the computeBias interval G_x - b <= eps / b - G_x <= eps on the original "
        "data; eps_regression_returned(_partial): variable doubling beta_k = a_k + a_{n+k} (rsum_block), 0 <= a_k <= C, "
        "-C <= a_{n+k} <= 0, sum beta = 0 and the four tube conditions of the offset per training point; oneclass_returned(_partial): "
        "0 <= a <= 1/(nu n), sum a = 1, offset interval with zero linear term. The _partial versions assume the C++ sentinels "
        "+-1e100 are not crossed during the run; Props/C07b.lean discharges that from the DATA (sentinelOK_of_bounds, "
        "passStates_sentinel_of_bounds: |K| <= kappa and |lin0| + kappa*sum max(|L0|,|U0|) < 1e100), so the versions without "
        "_partial have no hypothesis about the run. Harness c07x + generator: see note."),
  note=TRUST + "Hypotheses carried by the theorems: PSD-ness and symmetry of the kernel matrix (kkt_eps_near_optimal, config_independence); "
       "the C08 state invariant (proved for every admissible solver history in Props/C08.lean: reachable_inv); bias_in_kkt_interval "
       "is _partial (|gradient| > 1e100 is accepted by the C++ and breaks it: witness theorem). NOT proved: that the solver reaches the accuracy (termination); Gaussian kernels only "
       "through the toleranced oracle. Found by this check and repaired in /repo (fix: commits, known_findings.json `fixed`): "
       "F-C07-1..6 (EpsilonSvmTrainer offset, warm-start clipping x2, float warm-start gradient, zero-weight bias, weighted "
       "warm start without bias throws). Round deep3: exercised with an independent oracle but NOT modelled: SquaredHingeCSvmTrainer "
       "(dual over K + diag(1/(2C_i)): box, equality, KKT, bias interval, objective), RankingSvmTrainer (pair coefficients are not "
       "returned: weak duality and duality gap <= eps*C*#pairs of the returned expansion against the reported dual value), "
       "MissingFeatureSvmTrainer (one outer iteration), time limits (QpTimeout only with a limit; QpMaxIterationsReached exactly at the "
       "limit; reported accuracy < eps when AccuracyReached), the reported objective of UNCONVERGED runs. Tied to the model bit for bit "
       "in addition: double cache, sparse inputs, cache sizes 2 rows..n*n+5 (trainer's optimize() behind CachedMatrix(&km,size): "
       "setCacheSize itself is ignored by the binary trainers), explicit previous coefficients that are clipped and re-balanced. "
       "Sparse/dense and float/double twins must agree bit for bit on integer points (linear and dyadic Gaussian). Theorem hypotheses "
       "that exclude inputs the real code accepts were run on the real code: warm start with in-box coefficients of non-zero sum "
       "(hypothesis of warm_start_inv) -> F-C07-9. Open findings of this round (known_findings.json): F-C07-7 squared-hinge bias "
       "with class-specific C, F-C07-8 stale objective/gradient when stopping on the iteration or time limit with shrinking, F-C07-9, "
       "F-C07-10 warm start across bias settings (throws / keeps the old offset; root in KernelExpansion::setStructure). NOT reached: "
       "HMG selection through a trainer (C08 runs it on the solver), s2do flag (unused by the binary trainers), budgeted/SGD trainers "
       "(other optimisation problems), LinearCSvmTrainer (C16).",
  technique="Lean 4 proof on a solver/trainer model (end to end, in original coordinates) + differential correspondence with the C++ trainers (bit-for-bit on exact data) + independent KKT / duality-gap oracle",
  design="§6 C07")

FINISH = dict(level="proof",
              rule="data sets: n in 2..14 integer points in dimension 1..3 (duplicates, separable and not, unbalanced classes), "
                   "C on a dyadic grid 2^-3..2^6 (one or class-specific), example weights in {0, 1/4, 1/2, 1, 2}, regression labels "
                   "half-integers, tube in {1/8, 1/2, 1, 2}, nu in {1/8..3/4}, eps in {1e-3, 2^-10, 2^-4, 2^-16}; configuration cross "
                   "trainer kind x bias x shrinking x precomputed/cache size x weighted x cold/warm x kernel {linear, rbf}; "
                   "extended (c07x): kinds {C-SVM, squared hinge, eps-regression, one-class, ranking, missing-feature} on point styles {plain, "
                   "duplicates, all equal, zero vectors, one axis, scaled by 64, by 1/64}, n from 1 (one-class) / 2 upward, weak and strong "
                   "regularisation 2^-10 / 2^12, x {float, double cache} x {dense, sparse} x {cached, precomputed, explicit cache of 2 rows..n*n+3} "
                   "x warm start {none, previous training, arbitrary vector (wild, at bounds, zero, feasible), subset machine, other bias setting} "
                   "x limits {maxit 0..17, maxSeconds 0 / 1e-9 / 1e6}; slow family (n 30..40, C 2^10, eps 2^-16) for time limits and the 1000-iteration clock; "
                   "non-trivial = solver ran at least 2 iterations; distinct = distinct op text")

LAKE_TARGETS = ["SharkVerif.Props.C07", "SharkVerif.Props.C07b", "drv_c07"]
PID = "C07"
# one OpenMP thread per harness process: the parallel loops of KernelMatrix::row over a dozen entries cost 400x on a loaded machine
HENV = dict(OMP_NUM_THREADS="1", ASAN_OPTIONS="detect_leaks=0")
tok = c08.tok


def translate(ctx):
    return ctx.translate("cxx2lean_analytic.py")


def build(ctx):
    tag = "" if core.REPO == "/repo" else "-" + core.sha(core.REPO)[:8]
    return ctx.harness("c07" + tag, ["c07.cpp"], repo_sources=["src/Core/Random.cpp"])


def build_x(ctx):
    """second harness: the extended trainers / axes (two translation units, compiled in parallel)"""
    tag = "" if core.REPO == "/repo" else "-" + core.sha(core.REPO)[:8]
    return ctx.harness("c07x" + tag, ["c07x.cpp", "c07xs.cpp"], repo_sources=["src/Core/Random.cpp"])


def gen_data(r, quick):
    n = r.range(2, 9 if quick else 14)
    d = r.range(1, 3)
    xs = [[float(r.range(-3, 3)) for _ in range(d)] for _ in range(n)]
    if r.chance(1, 3) and n > 2:            # duplicates
        xs[r.below(n)] = list(xs[r.below(n)])
    style = r.below(3)
    if style == 0:                           # separable by first coordinate
        ys = [1 if x[0] > 0 else 0 for x in xs]
    elif style == 1:
        ys = [r.below(2) for _ in range(n)]
    else:                                    # unbalanced
        ys = [1 if r.chance(1, 5) else 0 for _ in range(n)]
    if all(y == ys[0] for y in ys):
        ys[0] = 1 - ys[0]
    return n, d, xs, ys


def data_text(n, d, xs, ys):
    return f"{n} {d} " + " ".join(tok(v) for x in xs for v in x) + " " + " ".join(str(y) for y in ys)


def classify(ops, res):
    head = ops[0].split()
    if res.crash:
        m = re.search(r"ERROR: AddressSanitizer: (\S+)|runtime error: ([^\n]*)", res.stderr)
        tag = (m.group(1) or m.group(2)) if m else "crash"
        return f"crash:{tag}:{head[0]}", f"harness aborted ({tag}) on {ops}"
    if res.oracle:
        m = re.search(r"!oracle (\S+?)(?:[@(]|\s|$)", res.oracle[0])
        bias = head[1] if head[0] == "csvm" else (head[4] if head[0] in ("csvm3", "trx") else head[3])
        return f"oracle:{m.group(1)}:bias={bias}", f"property oracle failed ({res.oracle[0][res.oracle[0].index('!oracle'):][:200]}) on {ops[0][:200]}"
    return f"mismatch:{head[0]}", f"trainer model and CSvmTrainer disagree at line {res.diff_at} of {ops[0][:200]}"


def run(ctx):
    ctx.trusted += ["correspondence harness harness/c07.cpp + generator checks/c07.py",
                    "hand-written model Model/SvmTrainer.lean + Model/Smo.lean (CSvmTrainer.h, QpSolver.h, SvmProblems.h ... are modelled, not translated)",
                    "translator translate/cxx2lean_analytic.py for the analytic kernels used by the solver model"]
    ctx.assumptions += ["kernel matrix symmetric PSD (hypothesis of the near-optimality theorem)",
                        "exact arithmetic in the theorems; the Float instance is tied bit-for-bit on integer-point data",
                        "the solver sees the kernel through its float cache: the oracle rounds its own kernel entries to float as well"]
    translate(ctx)
    ctx.prove(["SharkVerif.Props.C07", "SharkVerif.Props.C07b"])
    if not ctx.quick:
        ctx.leanchecker(["SharkVerif.Props.C07", "SharkVerif.Props.C07b"])
    exe = build(ctx)
    drv = ctx.driver("drv_c07")
    if not exe or not drv:
        return
    r = ctx.rng.fork("c07")
    nmodel, ncross = (200, 20) if ctx.quick else (2000, 200)
    # (1) model vs trainer, bit for bit
    cases = []
    corpus_dir = os.path.join(core.VERIF, "corpus", PID)
    if os.path.isdir(corpus_dir):
        for fn in sorted(os.listdir(corpus_dir)):
            ops = [l.strip() for l in open(os.path.join(corpus_dir, fn)) if l.strip() and not l.startswith("#")]
            cases += [[o] for o in ops if o.split()[0] in ("csvm", "csvm2", "esvr", "ocsvm")]
    ctx.cov["corpus_cases"] = len(cases)
    for _ in range(nmodel):
        n, d, xs, ys = gen_data(r, ctx.quick)
        bias, shrink = r.below(2), r.below(2)
        C = 2.0 ** r.range(-3, 6)
        eps = r.choice([1e-3, 2.0 ** -10, 2.0 ** -4, 2.0 ** -16])
        maxit = r.choice([100000, 100000, 100000, 3, 17])
        cases.append([f"csvm {bias} {shrink} {tok(C)} {tok(eps)} {maxit} " + data_text(n, d, xs, ys)])
        ctx.hist("n", n); ctx.hist("bias", bias); ctx.hist("shrinking", shrink); ctx.hist("log2C", int(math.log2(C)))
    # widened model: class-specific C + per-example weights, epsilon-regression, one-class (cold starts)
    for _ in range(nmodel // 2):
        n, d, xs, ys = gen_data(r, ctx.quick)
        shrink = r.below(2)
        eps = r.choice([1e-3, 2.0 ** -10, 2.0 ** -4, 2.0 ** -16])
        maxit = r.choice([100000, 100000, 100000, 3, 17])
        pts = " ".join(tok(v) for x in xs for v in x)
        kind = r.choice(["csvm2", "csvm2", "esvr", "esvr", "ocsvm"])
        if kind == "csvm2":
            bias = r.below(2)
            Cn = 2.0 ** r.range(-3, 6)
            Cp = Cn if r.chance(1, 3) else 2.0 ** r.range(-3, 6)          # one C / class-specific C
            weighted = r.below(2)
            ws = [r.choice([1.0, 1.0, 0.5, 2.0, 0.25, 0.0]) if weighted and r.chance(1, 2) else 1.0 for _ in range(n)]
            pre, cache = r.choice([(1, 0), (0, 0), (0, 2 * n), (0, 3 * n + 1)])   # the model has no cache: all must agree with it
            warmit, warmfac = (0, 1.0) if r.chance(1, 2) else (r.choice([1, 3, 10, 100000]), r.choice([1.0, 4.0, 0.25]))
            cases.append([f"csvm2 {bias} {shrink} {pre} {cache} {weighted} {tok(Cn)} {tok(Cp)} {tok(eps)} {maxit} {warmit} {tok(warmfac)} "
                          f"{n} {d} {pts} " + " ".join(str(y) for y in ys) + " " + " ".join(tok(w) for w in ws)])
            ctx.hist("csvm2_config", f"pre={pre} weighted={weighted} classC={int(Cn != Cp)} warm={int(warmit > 0)}")
        elif kind == "esvr":
            C = 2.0 ** r.range(-3, 6)
            tube = r.choice([0.125, 0.5, 1.0, 2.0])
            lab = [r.range(-10, 10) / 2 for _ in range(n)]
            cases.append([f"esvr {shrink} {tok(C)} {tok(tube)} {tok(eps)} {maxit} {n} {d} {pts} " + " ".join(tok(v) for v in lab)])
        else:
            nu = r.choice([0.25, 0.5, 0.75, 0.125])
            cases.append([f"ocsvm {shrink} {tok(nu)} {tok(eps)} {maxit} {n} {d} {pts}"])
        ctx.hist("model_op", kind)
    res = core.run_case(ctx, [exe], [drv], [c[0] for c in cases], timeout=900, env=HENV)
    its = [int(m.group(1)) for l in res.impl for m in [re.search(r"it=(\d+)", l)] if m]
    for it in its:
        ctx.hist("iterations", min(it // 5 * 5, 100))
    ctx.cov["accuracy_reached"] = sum("acc=1" in l for l in res.impl)
    if res.ok:
        ctx.count("traces_validated_against_impl", len(cases)); ctx.count("ops_compared", len(cases))
        ctx.log(f"K-C07[model: trainer == Float model, bit for bit]: {len(cases)} trainings agree")
    else:
        core.correspond(ctx, "K-C07[model: trainer == Float model, bit for bit]", cases, [exe], [drv], classify, env=HENV)
    # (1b) the same trainer model against the real trainer on the axes the model does not have: double cache, sparse inputs,
    # real cache sizes from the minimum of two rows upward (pre = 2), explicit previous coefficients (clipped and re-balanced)
    exx = build_x(ctx)
    if exx:
        cases3 = []
        for _ in range(nmodel // 2):
            n = r.range(2, 9 if ctx.quick else 14); d = r.range(1, 3)
            style, xs = gen_points(r, n, d, ctx.quick)
            ys = [float(r.below(2)) for _ in range(n)]
            if all(y == ys[0] for y in ys): ys[r.below(n)] = 1.0 - ys[0]
            p1 = 2.0 ** r.range(-3, 6); p2 = p1 if r.chance(1, 3) else 2.0 ** r.range(-3, 6)
            weighted = r.below(2)
            ws = [r.choice([1.0, 1.0, 0.5, 2.0, 0.25, 0.0]) if weighted and r.chance(1, 2) else 1.0 for _ in range(n)]
            pre, cache = r.choice([(0, 0), (1, 0), (2, 2 * n), (2, 2 * n), (2, 2 * n + 1), (2, 3 * n + 1), (2, n * n + 5)])
            wm = r.choice([0, 0, 1, 2])
            a1 = [0.0] * n
            if wm == 2:          # arbitrary previous coefficients: outside the box (clipped and re-balanced), inside but unbalanced
                Cmax = 2 * max(p1, p2)   # (re-balanced since the repair of F-C07-9), inside and balanced (passed through)
                st = r.choice(["clip", "clip", "inbox", "balanced"])
                if st == "clip":
                    a1 = [r.range(-8, 8) * Cmax / 8 for _ in range(n)]
                    a1[r.below(n)] = r.choice([-1.0, 1.0]) * 4 * Cmax
                elif st == "inbox":
                    a1 = [(1 if ys[i] > 0 else -1) * (p2 if ys[i] > 0 else p1) * ws[i] * r.choice([0.0, 0.25, 0.5, 1.0]) for i in range(n)]
                else:
                    m = min(p1, p2) * min([w_ for w_ in ws if w_ > 0] or [0.0]) / 4
                    pos = [i for i in range(n) if ys[i] > 0 and ws[i] > 0]; neg = [i for i in range(n) if ys[i] <= 0 and ws[i] > 0]
                    a1 = [0.0] * n
                    if pos and neg: a1[pos[0]] = m; a1[neg[0]] = -m
                a1 = [v + 0.0 for v in a1]      # no negative zeros among the given coefficients (their sign is not modelled)
                ctx.hist("csvm3_start_vector", st)
            cfg = dict(kind="c", kern="lin", gamma=1.0, bias=r.below(2), shrink=r.below(2), pre=pre, cache=cache,
                       eps=r.choice([1e-3, 2.0 ** -10, 2.0 ** -4, 2.0 ** -16]), maxit=r.choice([4000, 4000, 4000, 3, 17]), maxsec=None,
                       warmmode=wm, warmit=r.choice([1, 3, 10, 100000]), warmfac=r.choice([1.0, 4.0, 0.25]), weighted=weighted, p1=p1, p2=p2,
                       dbl=r.below(2), sparse=r.below(2), n=n, d=d, xs=xs, ys=ys, ws=ws, a1=a1)
            cases3.append([trx_line("csvm3", cfg)])
            ctx.hist("csvm3_config", f"pre={pre} dbl={cfg['dbl']} sparse={cfg['sparse']} warm={wm}")
            ctx.hist("csvm3_points", style)
            if pre == 2: ctx.hist("csvm3_cache_rows", round(cache / n, 1))
        with open(os.path.join(core.CACHE, "c07_csvm3_ops.txt"), "w") as f:      # kept for post-mortems of a stuck run
            f.write("\n".join(c[0] for c in cases3) + "\n")
        res3 = core.run_case(ctx, [exx], [drv], [c[0] for c in cases3], timeout=900, env=HENV)
        its3 = [int(m.group(1)) for l in res3.impl for m in [re.search(r"it=(\d+)", l)] if m]
        its += its3
        if res3.ok:
            ctx.count("traces_validated_against_impl", len(cases3)); ctx.count("ops_compared", len(cases3))
            ctx.log(f"K-C07[model: trainer == Float model on double cache / sparse inputs / real cache sizes / given start vectors]: "
                    f"{len(cases3)} trainings agree")
        else:
            core.correspond(ctx, "K-C07[model: trainer == Float model, extended axes]", cases3, [exx], [drv], classify, env=HENV)
        cases += cases3
    # (2) configuration cross through the real trainer, oracle + objective comparison
    ncfg = nviol = 0
    for _ in range(ncross):
        n, d, xs, ys = gen_data(r, ctx.quick)
        C = 2.0 ** r.range(-3, 6)
        eps = r.choice([1e-3, 2.0 ** -10, 2.0 ** -4])
        kern = r.choice(["lin", "lin", "rbf"])
        gamma = r.choice([0.5, 0.125, 1.0])
        for bias in (0, 1):
            lines = []
            for shrink in (0, 1):
                for pre, cache in ((1, 0), (0, 0), (0, 2 * n), (0, 3 * n + 1)):
                    lines.append(f"cfg {kern} {tok(gamma)} {bias} {shrink} {pre} {cache} {tok(C)} {tok(eps)} " + data_text(n, d, xs, ys))
            rc, out = core.sh([exe], input="\n".join(lines) + "\n", timeout=600,
                              env=dict(os.environ, **HENV))
            outs = out.splitlines()
            ncfg += len(lines)
            ctx.hist("kernel", kern)
            bad = [(l, o) for l, o in zip(lines, outs) if "!oracle" in o]
            if rc != 0 or len(outs) < len(lines):
                bad = bad or [(lines[min(len(outs), len(lines) - 1)], "crash: " + out[-800:])]
            objs = [untok_obj(o) for o in outs if "acc=1" in o and ";obj=" in o]
            bound = 2 * eps * n * C + 1e-9 * (1 + n * C)
            if objs and max(objs) - min(objs) > bound:
                bad.append((lines[0], f"!oracle objective-depends-on-configuration spread={max(objs)-min(objs)} bound={bound}"))
            for l, o in bad[:1]:
                nviol += 1
                m = re.search(r"!oracle (\S+?)(?:[@(]|\s|$)", o)
                key = f"oracle:{m.group(1) if m else 'crash'}:bias={bias}"
                if nviol <= 3:
                    ctx.violation(key, {"harness_cmd": [exe], "ops": [l], "impl_output": [o[:2000]]}, found_input=True,
                                  what=f"trainer-level oracle: {o[o.find('!oracle'):][:300]}")
    ngeneral = run_general(ctx, exe, r.fork("general"), 40 if ctx.quick else 300)
    next_ = run_extended(ctx, exx, r.fork("extended"), 90 if ctx.quick else 700) if exx else 0
    ctx.cov["configurations_trained"] = ncfg
    ctx.cov["evaluations"] = len(cases) + ncfg + ngeneral + next_
    ctx.cov["distinct_nontrivial"] = sum(1 for it in its if it >= 2)
    ctx.sample({"op": cases[len(cases) // 2][0][:200]})
    ctx.log(f"K-C07[oracle]: {ncfg} trainer configurations, {nviol} with oracle failures")


def untok_obj(o):
    m = re.search(r";obj=(\S+)", o)
    return c08.untok(m.group(1))


# ----------------------------------------------------------------------------- general trainers (oracle only)
def gen_general(r, quick):
    """one problem, and the op lines of its configuration cross: class-specific C / per-example weights / warm start
    (kind c), epsilon-regression (kind e), one-class (kind o)"""
    kind = r.choice(["c", "c", "c", "e", "e", "o"])
    n = r.range(2, 8 if quick else 12)
    d = r.range(1, 3)
    xs = [[float(r.range(-3, 3)) for _ in range(d)] for _ in range(n)]
    if r.chance(1, 4) and n > 2:
        xs[r.below(n)] = list(xs[r.below(n)])
    weighted = 0
    ws = [1.0] * n
    if kind == "c":
        ys = [float(r.below(2)) for _ in range(n)]
        if all(y == ys[0] for y in ys):
            ys[0] = 1.0 - ys[0]
        p1 = 2.0 ** r.range(-3, 4)
        p2 = p1 if r.chance(2, 5) else 2.0 ** r.range(-3, 4)
        if r.chance(1, 2):
            weighted = 1
            ws = [r.choice([0.0, 0.25, 0.5, 1.0, 1.0, 2.0]) for _ in range(n)]
    elif kind == "e":
        ys = [r.range(-10, 10) / 2 for _ in range(n)]
        p1 = 2.0 ** r.range(-3, 4)
        p2 = r.choice([0.125, 0.5, 1.0])
    else:
        ys = [0.0] * n
        p1 = r.choice([0.25, 0.5, 0.75])
        p2 = 0.0
    kern = r.choice(["lin", "lin", "rbf"])
    gamma = r.choice([0.5, 0.125, 1.0])
    eps = r.choice([1e-3, 2.0 ** -10, 2.0 ** -4])
    warms = [(0, 1.0)]
    if kind == "c":
        warms.append((r.choice([1, 3, 10, 100000]), r.choice([1.0, 4.0, 0.25])))
    tail = f"{weighted} {tok(p1)} {tok(p2)} {n} {d} " + " ".join(tok(v) for x in xs for v in x) + " " + \
        " ".join(tok(y) for y in ys) + " " + " ".join(tok(w) for w in ws)
    groups = []
    for bias in ((0, 1) if kind == "c" else (1,)):
        lines = []
        for warmit, warmfac in warms:
            for shrink in (0, 1):
                for pre, cache in ((1, 0), (0, 0), (0, 2 * n)):
                    lines.append(f"trn {kind} {kern} {tok(gamma)} {bias} {shrink} {pre} {cache} {tok(eps)} 100000 "
                                 f"{warmit} {tok(warmfac)} " + tail)
        groups.append(lines)
    return dict(kind=kind, weighted=weighted, zero_weight=int(weighted and 0.0 in ws), eps=eps, kern=kern), groups


def general_key(line, out):
    t = line.split()
    m = re.search(r"!oracle (\S+?)(?:[@(]|\s|$)", out)
    tag = m.group(1) if m else ("exception" if out.startswith("exception") else "crash")
    w = [c08.untok(x) for x in t[-int(t[15]):]]
    return (f"oracle:{tag}:kind={t[1]}:warm={0 if t[10] == '0' else 1}:weighted={t[12]}:"
            f"zeroweight={int(t[12] == '1' and 0.0 in w)}:bias={t[4]}")


def run_general(ctx, exe, r, ngen):
    ntr = nviol = 0
    seen = {}
    corpus = os.path.join(core.VERIF, "corpus", PID)
    groups_all = []
    if os.path.isdir(corpus):
        for fn in sorted(os.listdir(corpus)):
            ops = [l.strip() for l in open(os.path.join(corpus, fn)) if l.strip() and not l.startswith("#")]
            ops = [o for o in ops if o.startswith("trn")]
            if ops:
                groups_all.append((dict(kind=ops[0].split()[1], weighted=0, zero_weight=0, eps=c08.untok(ops[0].split()[8]), kern="corpus"), [ops]))
    for _ in range(ngen):
        groups_all.append(gen_general(r, ctx.quick))
    for info, groups in groups_all:
        ctx.hist("general_kind", info["kind"] + ("+w" if info["weighted"] else ""))
        for lines in groups:
            rc, out = core.sh([exe], input="\n".join(lines) + "\n", timeout=900,
                              env=dict(os.environ, **HENV))
            outs = out.splitlines()
            ntr += len(lines)
            bad = [(l, o) for l, o in zip(lines, outs) if "!oracle" in o or o.startswith("exception") or o == "bad-op"]
            if rc != 0 or len(outs) < len(lines):
                bad.append((lines[min(len(outs), len(lines) - 1)], "crash: " + out[-800:]))
            # configuration independence: all clean runs of the same problem (shrinking, cache, precomputation, warm/cold)
            good = [(l, o) for l, o in zip(lines, outs) if "acc=1" in o and "!oracle" not in o and ";obj=" in o]
            if len(good) > 1:
                objs = [untok_obj(o) for _, o in good]
                width = c08.untok(re.search(r";width=(\S+)", good[0][1]).group(1))
                bound = 2 * info["eps"] * width + 1e-9 * (1 + width + max(abs(x) for x in objs))
                if max(objs) - min(objs) > bound:
                    bad.append((good[0][0], f"!oracle objective-depends-on-configuration spread={max(objs)-min(objs)} bound={bound}"))
            for l, o in bad:
                key = general_key(l, o)
                if key in seen:
                    continue
                seen[key] = 1
                nviol += 1
                ctx.count("general_oracle_failure_kinds")
                ctx.violation(key, {"harness_cmd": [exe], "ops": [l], "impl_output": [o[:2000]]}, found_input=True,
                              what=f"trainer-level oracle (general trainers): {o[o.find('!oracle'):][:300]} on {l[:160]}")
    ctx.cov["general_trainings"] = ntr
    ctx.log(f"K-C07[general trainers: class-specific C, weights, warm start, epsilon-SVR, one-class]: {ntr} trainings, "
            f"{nviol} distinct oracle failure keys (known findings are listed, not counted as violations)")
    return ntr


# ----------------------------------------------------------------------------- extended trainers / axes (harness c07x)
TRX_NFIX = 21

def trx_line(op, c):
    """c: dict with all fields of a `trx` op"""
    n = c["n"]
    return (f"{op} {c['kind']} {c['kern']} {tok(c['gamma'])} {c['bias']} {c['shrink']} {c['pre']} {c['cache']} {tok(c['eps'])} "
            f"{c['maxit']} {'inf' if c['maxsec'] is None else tok(c['maxsec'])} {c['warmmode']} {c['warmit']} {tok(c['warmfac'])} "
            f"{c['weighted']} {tok(c['p1'])} {tok(c['p2'])} {c['dbl']} {c['sparse']} {n} {c['d']} "
            + " ".join(tok(v) for x in c["xs"] for v in x) + " " + " ".join(tok(v) for v in c["ys"]) + " "
            + " ".join(tok(v) for v in c["ws"]) + " " + " ".join(tok(v) for v in c["a1"]))


def gen_points(r, n, d, quick):
    """integer points with the boundary classes: duplicates, all equal, zero vectors, one coordinate only, scaled"""
    style = r.choice(["plain", "plain", "dup", "allsame", "zeros", "axis", "scaled", "tiny"])
    xs = [[float(r.range(-3, 3)) for _ in range(d)] for _ in range(n)]
    if style == "dup" and n > 1:
        for _ in range(r.range(1, max(1, n // 2))):
            xs[r.below(n)] = list(xs[r.below(n)])
    elif style == "allsame":
        xs = [list(xs[0]) for _ in range(n)]
    elif style == "zeros":
        for i in range(n):
            if r.chance(1, 2): xs[i] = [0.0] * d
    elif style == "axis":
        xs = [[x[0]] + [0.0] * (d - 1) for x in xs]
    elif style == "scaled":
        xs = [[v * 64.0 for v in x] for x in xs]
    elif style == "tiny":
        xs = [[v / 64.0 for v in x] for x in xs]
    return style, xs


def gen_trx(r, quick, kind=None, n_fixed=None, kern_fixed=None):
    """one problem and the op lines of its configuration cross (one group = one problem; objectives are compared
    within a group, sparse/dense and float/double twins must agree bit for bit on exact data)"""
    kind = kind or r.choice(["c", "c", "c", "q", "q", "e", "o", "r", "m"])
    n = r.choice([1, 2, 2, 3]) if r.chance(1, 5) else r.range(2, 8 if quick else 12)
    if n_fixed: n = n_fixed
    if kind != "o" and n < 2: n = 2
    d = r.range(1, 3)
    style, xs = gen_points(r, n, d, quick)
    weighted, ws, a1 = 0, [1.0] * n, [0.0] * n
    p1 = 2.0 ** r.range(-3, 5)
    p2 = p1
    bias_opts = (1,)
    if kind in ("c", "q", "m"):
        ys = [float(r.below(2)) for _ in range(n)]
        if r.chance(1, 4): ys = [1.0 if r.chance(1, 5) else 0.0 for _ in range(n)]     # unbalanced
        if all(y == ys[0] for y in ys): ys[r.below(n)] = 1.0 - ys[0]
        if kind != "m" and r.chance(3, 5): p2 = 2.0 ** r.range(-3, 5)
        if kind == "q" and r.chance(1, 4): p1 = p2 = 2.0 ** r.choice([-10, 12])          # weak / strong regularisation
        if kind == "q" and style == "scaled":
            # K + 1/(2C) must stay representable in the float cache (K up to 2^17 here): beyond that the regulariser is rounded
            # away, the dual that is solved is unbounded and the float run has nothing to do with the double one (findings_proposed/C07.md)
            p1, p2 = min(p1, 16.0), min(p2, 16.0)
        if kind == "c" and r.chance(1, 2):
            weighted = 1
            ws = [r.choice([0.0, 0.25, 0.5, 1.0, 1.0, 2.0]) for _ in range(n)]
        bias_opts = (0, 1)
    elif kind == "e":
        ys = [r.range(-10, 10) / 2 for _ in range(n)]
        if r.chance(1, 5): ys = [ys[0]] * n                                             # constant labels: everything inside the tube
        p2 = r.choice([0.125, 0.5, 1.0, 4.0])
    elif kind == "o":
        ys = [0.0] * n
        p1 = r.choice([0.25, 0.5, 0.75, 0.125, 0.9375])
    else:                                                                               # ranking: labels 0..2, at least one pair
        ys = [float(r.below(3)) for _ in range(n)]
        if all(y == ys[0] for y in ys): ys[r.below(n)] = (ys[0] + 1.0) % 3
        bias_opts = (0,)
    kern = "lin" if kind == "m" else (kern_fixed or r.choice(["lin", "lin", "rbf"]))      # the missing-feature trainer refuses kernels of fixed input size
    gamma = r.choice([0.5, 0.125, 1.0])
    eps = r.choice([1e-3, 2.0 ** -10, 2.0 ** -4, 2.0 ** -16 if kern == "lin" else 2.0 ** -7])
    dim = 2 * n if kind == "e" else n
    base = dict(kind=kind, kern=kern, gamma=gamma, eps=eps, maxit=100000, maxsec=None, warmmode=0, warmit=0, warmfac=1.0,
                weighted=weighted, p1=p1, p2=p2, n=n, d=d, xs=xs, ys=ys, ws=ws, a1=a1, pre=0, cache=0, dbl=0, sparse=0, shrink=1, bias=1)
    groups = []
    for bias in bias_opts:
        cfgs = []
        def add(**kw):
            c = dict(base); c.update(bias=bias); c.update(kw); cfgs.append(c)
        shrink0 = r.below(2)
        add(shrink=shrink0)                                  # reference
        add(shrink=1 - shrink0)
        add(shrink=shrink0, sparse=1)                        # sparse twin of the reference
        add(shrink=shrink0, dbl=1)                           # double-cache twin
        add(shrink=r.below(2), dbl=1, sparse=1, pre=r.below(2))
        add(shrink=r.below(2), pre=1)
        if kind == "c":
            for cache in (2 * dim, r.choice([2 * dim + 1, 3 * dim + 1, 5 * dim, dim * dim + 3])):
                add(shrink=r.below(2), pre=2, cache=cache, dbl=r.below(2))
            # sparse inputs behind a two-row cache with shrinking: rows are recomputed after coordinate flips (with the Gaussian
            # kernel this is the GaussianKernelMatrix path of trainBinary, which keeps its own table of squared norms)
            add(shrink=1, sparse=1, pre=2, cache=2 * dim, dbl=r.below(2))
            add(shrink=1, sparse=1, pre=0)
            wm = r.choice([1, 2, 3, 4])
            if wm == 4:        # the previous machine was trained with the other bias setting (its coefficients need not sum to 0)
                add(shrink=r.below(2), warmmode=4, warmit=r.choice([3, 100000]), warmfac=r.choice([1.0, 0.25, 4.0]), pre=r.choice([0, 1]))
            elif wm == 1:
                add(shrink=r.below(2), warmmode=1, warmit=r.choice([1, 3, 10, 100000]), warmfac=r.choice([1.0, 4.0, 0.25, 64.0]), pre=r.choice([0, 1, 2]),
                    cache=3 * dim + 1)
            elif wm == 2:      # arbitrary previous coefficients: outside the box, wrong sign, unbalanced, all zero, all at a bound
                st = r.choice(["wild", "bounds", "zero", "feasible"])
                Cmax = max(p1, p2) * 2
                if st == "wild": a = [r.range(-8, 8) * Cmax / 4 for _ in range(n)]
                elif st == "bounds": a = [(p2 * ws[i] if ys[i] > 0 else -p1 * ws[i]) * r.choice([0, 1, 1]) for i in range(n)]
                elif st == "zero": a = [0.0] * n
                else: a = [(1 if ys[i] > 0 else -1) * min(p1, p2) * ws[i] * r.choice([0.0, 0.25, 0.5]) for i in range(n)]
                add(shrink=r.below(2), warmmode=2, a1=a, pre=r.choice([0, 1]))
            else:
                add(shrink=r.below(2), warmmode=3, warmit=r.range(1, n), pre=r.choice([0, 1]))
        # stopping: iteration limit / time limit -- the stop type must be the truth, feasibility must hold anyway
        add(shrink=r.below(2), maxit=r.choice([0, 1, 2, 3, 7, 17]), pre=r.below(2))
        if r.chance(1, 3):
            add(shrink=r.below(2), maxsec=r.choice([0.0, 1e-9, 1e6]), maxit=r.choice([100000, 1200, 2500]))
        groups.append(cfgs)
    info = dict(kind=kind, style=style, kern=kern, eps=eps, n=n, weighted=weighted, zero_weight=int(weighted and 0.0 in ws),
                exact=(kern == "lin" or True))
    return info, groups


def gen_trx_slow(r, quick):
    """long runs (noisy data, linear kernel, large C, small eps: 10^4..10^5 iterations to converge) cut by the time limit and by
    iteration limits on both sides of the solver's 1000-iteration clock: the stop type must be the truth (QpTimeout only with a
    time limit and at iteration 999 mod 1000, QpMaxIterationsReached exactly at the limit), feasibility must hold anyway"""
    kind = r.choice(["c", "c", "e"])
    n = r.range(30, 40) if kind == "c" else r.range(16, 22)
    d = 2
    xs = [[float(r.range(-3, 3)) for _ in range(d)] for _ in range(n)]
    ys = [float(r.below(2)) for _ in range(n)] if kind == "c" else [r.range(-10, 10) / 2 for _ in range(n)]
    C = 2.0 ** 10
    base = dict(kind=kind, kern="lin", gamma=1.0, eps=2.0 ** -16, maxit=100000, maxsec=None, warmmode=0, warmit=0, warmfac=1.0,
                weighted=0, p1=C, p2=C if kind == "c" else 0.125, n=n, d=d, xs=xs, ys=ys, ws=[1.0] * n, a1=[0.0] * n, pre=0, cache=0,
                dbl=0, sparse=0, shrink=1, bias=1)
    cfgs = []
    for kw in (dict(maxsec=0.0), dict(maxsec=1e-9, maxit=2500, shrink=0), dict(maxsec=1e6, maxit=1500), dict(maxit=1000, pre=1),
               dict(maxit=999, sparse=1), dict(maxsec=0.0, maxit=999, dbl=1)):
        c = dict(base); c.update(kw); cfgs.append(c)
    return dict(kind=kind, style="slow", kern="lin", eps=base["eps"], n=n, weighted=0, zero_weight=0), [cfgs]


def trx_key(c, out):
    m = re.search(r"!oracle (\S+?)(?:[@(]|\s|$)", out)
    tag = m.group(1) if m else ("exception" if out.startswith("exception") else "crash")
    return (f"oracle:{tag}:kind={c['kind']}:bias={c['bias']}:warm={c['warmmode']}:weighted={c['weighted']}:"
            f"zeroweight={int(c['weighted'] == 1 and 0.0 in c['ws'])}:shrink={c['shrink']}:stop={'acc' if 'stop=1 ' in out else 'other'}")


def parse_trx(out):
    m = re.match(r"stop=(\d+) it=(\d+) alpha=\[([^\]]*)\] b=(\S+) ;obj=(\S+) ;width=(\S+) ;val=(\S+)", out)
    if not m: return None
    return dict(stop=int(m.group(1)), it=int(m.group(2)), alpha=m.group(3), b=m.group(4), obj=c08.untok(m.group(5)),
                width=c08.untok(m.group(6)), val=c08.untok(m.group(7)))


def run_extended(ctx, exe, r, ngen):
    """the trainers and axes beyond harness c07: squared hinge, ranking, missing-feature trainer; double cache; sparse inputs;
    real cache sizes (pre = 2); warm start from arbitrary vectors / from a machine trained on a subset; iteration and time
    limits with truthful stop types.  Oracle in the harness; here: configuration independence and twin identity."""
    ntr = nviol = 0
    seen = {}
    groups_all = []
    corpus = os.path.join(core.VERIF, "corpus", PID)
    if os.path.isdir(corpus):
        for fn in sorted(os.listdir(corpus)):
            ops = [l.strip() for l in open(os.path.join(corpus, fn)) if l.strip().startswith("trx ")]
            if ops:
                groups_all.append((dict(kind=ops[0].split()[1], style="corpus", kern=ops[0].split()[2], eps=c08.untok(ops[0].split()[8]), n=0,
                                        weighted=0, zero_weight=0),
                                   [[parse_trx_line(o) for o in ops if o.split()[4] == b] for b in ("0", "1") if any(o.split()[4] == b for o in ops)]))
    kinds = ["c", "q", "e", "o", "r", "m"]
    for k in range(ngen):
        groups_all.append(gen_trx(r, ctx.quick, kind=kinds[k] if k < len(kinds) else None))   # every kind in every run
    groups_all.append(gen_trx(r, ctx.quick, kind="o", n_fixed=1))     # a single point: one free variable, offset = its gradient
    for k in "cqerm":
        groups_all.append(gen_trx(r, ctx.quick, kind=k, n_fixed=2))   # the smallest two-class / one-pair problems
    for _ in range(16 if ctx.quick else 60):                           # Gaussian kernel on sparse inputs behind small caches with shrinking
        groups_all.append(gen_trx(r, ctx.quick, kind="c", kern_fixed="rbf"))
    for _ in range(3 if ctx.quick else 12):
        groups_all.append(gen_trx_slow(r, ctx.quick))
    for info, groups in groups_all:
        ctx.hist("trx_kind", info["kind"] + ("+w" if info["weighted"] else "")); ctx.hist("trx_points", info["style"])
        ctx.hist("trx_n", info["n"])
        for cfgs in groups:
            lines = [trx_line("trx", c) for c in cfgs]
            rc, out = core.sh([exe], input="\n".join(lines) + "\n", timeout=900, env=dict(os.environ, **HENV))
            outs = out.splitlines()
            ntr += len(lines)
            bad = [(c, l, o) for c, l, o in zip(cfgs, lines, outs) if "!oracle" in o or o.startswith("exception") or o == "bad-op"]
            if rc != 0 or len(outs) < len(lines):
                i = min(len(outs), len(lines) - 1)
                bad.append((cfgs[i], lines[i], "crash: " + out[-800:]))
            res = [parse_trx(o) for o in outs] + [None] * (len(lines) - len(outs))
            for c, p in zip(cfgs, res):
                if p is None: continue
                ctx.hist("trx_stop", {1: "accuracy", 4: "max-iterations", 8: "timeout"}.get(p["stop"], str(p["stop"])))
                ctx.hist("trx_axis", f"pre={c['pre']} dbl={c['dbl']} sparse={c['sparse']} warm={c['warmmode']}")
                if c["pre"] == 2: ctx.hist("trx_cache_rows", round(c["cache"] / max(1, (2 * c["n"] if c["kind"] == "e" else c["n"])), 1))
                if c["maxsec"] is not None or c["maxit"] < 100000: ctx.count("trx_limited_runs")
            # configuration independence: all converged clean runs of one problem
            good = [(c, p) for c, o, p in zip(cfgs, outs, res) if p and p["stop"] == 1 and "!oracle" not in o]
            if len(good) > 1 and cfgs[0]["kind"] != "q":
                objs = [p["obj"] for _, p in good]
                width = good[0][1]["width"]
                bound = 2 * info["eps"] * width + 1e-9 * (1 + width + max(abs(x) for x in objs))
                if cfgs[0]["kind"] == "r" and (cfgs[0]["kern"] == "rbf"): bound += 1e-5 * (1 + max(abs(x) for x in objs))
                if max(objs) - min(objs) > bound:
                    bad.append((good[0][0], lines[0], f"!oracle objective-depends-on-configuration spread={max(objs)-min(objs)} bound={bound}"))
                ctx.count("trx_groups_compared")
            if len(good) > 1 and cfgs[0]["kind"] == "q":      # strictly concave dual: the solutions themselves must be close
                ctx.count("trx_groups_compared")
            # twins: same configuration, sparse instead of dense inputs / double instead of float cache -- on integer points every
            # kernel entry is exact in both, so the whole run must be identical
            ref, refp = cfgs[0], res[0]
            for c, p, l in zip(cfgs[1:4], res[1:4], lines[1:4]):
                if refp is None or p is None: continue
                twin_sparse = c["sparse"] == 1 and c["dbl"] == 0 and c["shrink"] == ref["shrink"]
                twin_dbl = c["dbl"] == 1 and c["sparse"] == 0 and c["shrink"] == ref["shrink"] and ref["kern"] == "lin"
                if twin_sparse or twin_dbl:
                    ctx.count("trx_twins_compared")
                    if (p["alpha"], p["b"], p["it"], p["stop"]) != (refp["alpha"], refp["b"], refp["it"], refp["stop"]):
                        bad.append((c, l, f"!oracle {'sparse-dense' if twin_sparse else 'float-double'}-twin-differs it={p['it']} vs {refp['it']}"))
            for c, l, o in bad:
                key = trx_key(c, o)
                if key in seen: continue
                seen[key] = 1
                nviol += 1
                ctx.count("trx_oracle_failure_kinds")
                ctx.violation(key, {"harness_cmd": [exe], "ops": [l], "impl_output": [o[:2000]]}, found_input=True,
                              what=f"trainer-level oracle (extended trainers/axes): {o[o.find('!oracle'):][:300]} on {l[:200]}")
    ctx.cov["extended_trainings"] = ntr
    ctx.log(f"K-C07[extended: squared hinge, ranking, missing-feature trainer, double cache, sparse inputs, real cache sizes, "
            f"arbitrary/subset warm starts, iteration and time limits]: {ntr} trainings, {nviol} distinct oracle failure keys")
    return ntr


def parse_trx_line(op):
    t = op.split()
    n, d = int(t[19]), int(t[20])
    u = c08.untok
    f = lambda a, b: [u(x) for x in t[a:b]]
    at = TRX_NFIX
    return dict(kind=t[1], kern=t[2], gamma=u(t[3]), bias=int(t[4]), shrink=int(t[5]), pre=int(t[6]), cache=int(t[7]), eps=u(t[8]),
                maxit=int(t[9]), maxsec=None if t[10] == "inf" else u(t[10]), warmmode=int(t[11]), warmit=int(t[12]), warmfac=u(t[13]),
                weighted=int(t[14]), p1=u(t[15]), p2=u(t[16]), dbl=int(t[17]), sparse=int(t[18]), n=n, d=d,
                xs=[f(at + i * d, at + (i + 1) * d) for i in range(n)], ys=f(at + n * d, at + n * d + n),
                ws=f(at + n * d + n, at + n * d + 2 * n), a1=f(at + n * d + 2 * n, at + n * d + 3 * n))


def replay(ctx, rep):
    exe = build(ctx); drv = ctx.driver("drv_c07")
    ops = rep["ops"]
    if ops[0].startswith("csvm"):
        if ops[0].startswith("csvm3"):
            exe = build_x(ctx)
        res = core.run_case(ctx, [exe], [drv], ops, env=HENV)
        for a, b in zip(res.impl, res.model):
            print("impl :", a[:1500]); print("model:", b[:1500])
        print("OK" if res.ok else "FAILS")
        return 0 if res.ok else 1
    if ops[0].startswith("trx"):
        exe = build_x(ctx)
    rc, out = core.sh([exe], input="\n".join(ops) + "\n", timeout=600, env=dict(os.environ, **HENV))
    print(out[-3000:])
    ok = rc == 0 and "!oracle" not in out and "exception" not in out
    print("OK" if ok else "FAILS")
    return 0 if ok else 1
