"""K-C01 directed programs: the parts of the property's quantifier a random expression generator reaches
only with negligible probability.

 A  aliasing assignment between every pair of dense proxy kinds of ONE storage (row / column / diagonal /
    linearisation / sub-ranges of them for vectors; container / transpose / sub-matrix / rows / columns for
    matrices), overlapping in both directions (target behind / before the source in the element order), with the
    plain and all compound forms, bare proxies and expressions of them; strided and contiguous storage
 B  row-wise reductions `red(as_rows(M))` / `red(as_columns(M))` for all six reductions, both storage
    orientations, both directions, containers / proxies / element-wise expressions, on all-negative /
    all-positive / mixed / constant / zero data; scalar reductions of vectors, strided proxies and matrices
 C  products (gemm / gemv), mixed-orientation assignment, with container, proxy and expression operands, on
    shapes just below / at / just above / far from every blocking constant of kernels/default and kernels/cblas
 D  triangular products (trmm / trmv) around their block size

The statements of B, C and D contain no shape literal: they are compiled once and run on many shapes and data
classes.  In the quick tier the STRUCTURE of the directed program does not depend on the seed (so its object
files stay cached), the DATA do; the thorough tier adds a seed-dependent batch of family A.
"""
from checks.c01cls import Unsupported, DENSE
from checks.c01gen import Gen, Var, E, MAXBITS
from vlib.core import SplitMix64

K0 = 500000          # statement numbers of the directed program


class Pl:
    """a dense place: expression node, base variable, storage offsets of its elements"""
    __slots__ = ("e", "var", "addr", "kind", "is_m")

    def __init__(self, e, var, addr, kind, is_m):
        self.e, self.var, self.addr, self.kind, self.is_m = e, var, addr, kind, is_m

    @property
    def flat(self):
        return [a for r in self.addr for a in r] if self.is_m else list(self.addr)

    @property
    def shape(self):
        return self.e.shape


def hazard(T, S):
    """(fh, bh, same): element i of the target is read as element j of the source with i<j / i>j / i=j"""
    pos = {a: i for i, a in enumerate(T)}
    fh = bh = same = False
    for j, a in enumerate(S):
        i = pos.get(a)
        if i is None:
            continue
        if i < j:
            fh = True
        elif i > j:
            bh = True
        else:
            same = True
    return fh, bh, same


DATA = ["mixed", "neg", "pos", "negline", "const", "zero", "pow2", "wide"]


CLASS_BOUND = {"mixed": 4, "neg": 4, "pos": 4, "negline": 4, "const": 4, "zero": 1, "pow2": 4, "wide": 9}


def fill(dr, cls, n1, n2):
    """n1*n2 values (logical row-major) of a data class"""
    n = n1 * n2
    if cls == "neg":
        return [-dr.range(1, 4) for _ in range(n)]
    if cls == "pos":
        return [dr.range(1, 4) for _ in range(n)]
    if cls == "zero":
        return [0] * n
    if cls == "const":
        c = dr.choice([-3, -1, 2, 4])
        return [c] * n
    if cls == "pow2":
        return [dr.choice([1, 2, 4, -1, -2, -4]) for _ in range(n)]
    if cls == "wide":
        return [dr.range(-9, 9) for _ in range(n)]
    if cls == "negline":
        # one line (row and column) of one sign inside data of the other sign
        sg = dr.choice([1, -1])
        i0, j0 = dr.below(max(1, n1)), dr.below(max(1, n2))
        return [(-sg if (i == i0 or j == j0) else sg) * dr.range(1, 4) for i in range(n1) for j in range(n2)]
    return [dr.range(-4, 4) for _ in range(n)]


class Dir(Gen):
    def __init__(self, ctx, calc, sr, dr):
        Gen.__init__(self, sr, ctx, maxdepth=1, calc=calc)
        self.sr, self.dr = sr, dr
        self.k = K0
        self.skipped = {}

    # ------------------------------------------------------------------ variables
    def setup(self, vecs, As, Bs):
        """declare variables; shapes only (data are filled by `init_ops`)"""
        self.vars = []
        for k, n in enumerate(vecs):
            self.vars.append(Var("v", k, n))
        for k, sh in enumerate(As):
            self.vars.append(Var("A", k, sh))
        for k, sh in enumerate(Bs):
            self.vars.append(Var("B", k, sh))
        self.dims = [2, 3]

    def V(self, kind, k):
        for v in self.vars:
            if v.kind == kind and v.idx == k:
                return v
        raise KeyError((kind, k))

    def init_ops(self, classes, bound=None):
        """op lines declaring the variables with data of the given classes (dict name -> class, '*' default)"""
        ops = ["new"]
        for v in self.vars:
            cls = classes.get(v.name, classes.get("*", "mixed"))
            if v.kind == "v":
                vals = fill(self.dr, cls, 1, v.shape)
                ops.append("vec " + " ".join(map(str, [v.shape] + vals)))
            else:
                vals = fill(self.dr, cls, v.shape[0], v.shape[1])
                ops.append(f"mat {v.kind} {v.shape[0]} {v.shape[1]} " + " ".join(map(str, vals)))
            v.values = vals
            # the bound of the data CLASS, not of the drawn values: which statements pass the magnitude check (the
            # structure of the program, hence the cached object files) must not depend on the seed
            v.bound, v.dexp = max([abs(x) for x in vals] + [CLASS_BOUND.get(cls, 4)]), 0
        return [o.strip() for o in ops]

    def skip(self, why):
        why = str(why)[:70]
        self.skipped[why] = self.skipped.get(why, 0) + 1

    # ------------------------------------------------------------------ places with addresses
    def p_var(self, v):
        e = v.expr()
        if v.kind == "v":
            return Pl(e, v, list(range(v.shape)), "var", False)
        n1, n2 = v.shape
        if v.kind == "A":
            addr = [[i * n2 + j for j in range(n2)] for i in range(n1)]
        else:
            addr = [[j * n1 + i for j in range(n2)] for i in range(n1)]
        return Pl(e, v, addr, "var", True)

    def p_row(self, P, i):
        return Pl(self.mk_row(P.e, i), P.var, list(P.addr[i]), "row", False)

    def p_col(self, P, j):
        if P.e.ops == ():
            return Pl(self.mk_col(P.e, j), P.var, [r[j] for r in P.addr], "col", False)
        return self.p_row(self.p_trans(P), j)        # column() exists for l-values only

    def p_diag(self, P):
        n = min(P.shape)
        return Pl(self.mk_diag(P.e), P.var, [P.addr[i][i] for i in range(n)], "diag", False)

    def p_tovec(self, P):
        n1, n2 = P.shape
        return Pl(self.mk_tovec(P.e), P.var, list(range(n1 * n2)), "tovec", False)

    def p_range(self, P, s, t):
        return Pl(self.mk_range(P.e, s, t), P.var, P.addr[s:t], P.kind, False)

    def p_trans(self, P):
        n1, n2 = P.shape
        return Pl(self.mk_trans(P.e), P.var, [[P.addr[i][j] for i in range(n1)] for j in range(n2)], "trans", True)

    def p_mrange(self, P, s1, e1, s2, e2):
        return Pl(self.mk_mrange(P.e, s1, e1, s2, e2), P.var, [r[s2:e2] for r in P.addr[s1:e1]], "mrange", True)

    def p_rows(self, P, s, e):
        return Pl(self.mk_rows(P.e, s, e), P.var, [list(r) for r in P.addr[s:e]], "rows", True)

    def p_cols(self, P, s, e):
        return Pl(self.mk_cols(P.e, s, e), P.var, [r[s:e] for r in P.addr], "cols", True)

    # ------------------------------------------------------------------ candidate places
    def cand_v(self, M, kind, L):
        P = self._cand_v(M, kind, L)
        if P is not None:
            P.kind = kind
        return P

    def cand_m(self, M, kind, L1, L2):
        P = self._cand_m(M, kind, L1, L2)
        if P is not None and P is not M:
            P.kind = kind
        return P

    def _cand_v(self, M, kind, L):
        """a vector place of length L of line kind `kind` over the matrix / vector place M (random spelling)"""
        r = self.sr
        if not M.is_m:
            n = M.shape
            if L > n:
                return None
            s = r.range(0, n - L)
            P = self.p_range(M, s, s + L)
            if r.chance(1, 4) and L >= 2:       # nested sub-range, same elements
                a = r.range(0, s)
                P = self.p_range(self.p_range(M, a, n), s - a, s - a + L)
            return P
        n1, n2 = M.shape
        if kind == "row":
            if L > n2 or n1 == 0:
                return None
            i, s = r.below(n1), r.range(0, n2 - L)
            how = r.below(3)
            if L == n2 and how == 0:
                return self.p_row(M, i)
            if how == 1:
                return self.p_row(self.p_cols(M, s, s + L), i)
            if how == 2:
                i0 = r.range(0, i); i1 = r.range(i + 1, n1)
                return self.p_row(self.p_mrange(M, i0, i1, s, s + L), i - i0)
            return self.p_range(self.p_row(M, i), s, s + L)
        if kind == "col":
            if L > n1 or n2 == 0:
                return None
            j, s = r.below(n2), r.range(0, n1 - L)
            how = r.below(3)
            if L == n1 and how == 0:
                return self.p_col(M, j)
            if how == 1:
                return self.p_row(self.p_trans(self.p_rows(M, s, s + L)), j)
            if how == 2:
                return self.p_range(self.p_row(self.p_trans(M), j), s, s + L)
            return self.p_range(self.p_col(M, j), s, s + L)
        if kind == "diag":
            if n1 != n2 or L > n1:
                return None
            s = r.range(0, n1 - L)
            if L == n1:
                return self.p_diag(M)
            if r.chance(1, 3):
                return self.p_diag(self.p_mrange(M, s, s + L, s, s + L))
            return self.p_range(self.p_diag(M), s, s + L)
        if kind == "tovec":
            if L > n1 * n2:
                return None
            s = r.range(0, n1 * n2 - L)
            return self.p_range(self.p_tovec(M), s, s + L)
        return None

    def _cand_m(self, M, kind, L1, L2):
        r = self.sr
        n1, n2 = M.shape
        if kind == "var":
            return M if (n1, n2) == (L1, L2) else None
        if kind == "trans":
            return self.p_trans(M) if (n2, n1) == (L1, L2) else None
        if kind == "mrange":
            if L1 > n1 or L2 > n2:
                return None
            s1, s2 = r.range(0, n1 - L1), r.range(0, n2 - L2)
            return self.p_mrange(M, s1, s1 + L1, s2, s2 + L2)
        if kind == "rows":
            if L2 != n2 or L1 > n1:
                return None
            s = r.range(0, n1 - L1)
            return self.p_rows(M, s, s + L1)
        if kind == "cols":
            if L1 != n1 or L2 > n2:
                return None
            s = r.range(0, n2 - L2)
            return self.p_cols(M, s, s + L2)
        if kind == "transrange":
            if L1 > n2 or L2 > n1:
                return None
            s1, s2 = r.range(0, n2 - L1), r.range(0, n1 - L2)
            if r.chance(1, 2):
                return self.p_mrange(self.p_trans(M), s1, s1 + L1, s2, s2 + L2)
            return self.p_trans(self.p_mrange(M, s2, s2 + L2, s1, s1 + L1))
        return None

    # ------------------------------------------------------------------ statements
    def commit(self, base, form, cand):
        """magnitude of the target's base variable after `target form= cand` (False: would leave the exact range)"""
        tb, td = base.bound, base.dexp
        if form == "set":
            nb, nd = max(tb << max(0, cand.dexp - td), cand.bound << max(0, td - cand.dexp)), max(td, cand.dexp)
        elif form in ("plus", "minus"):
            nb, nd = (tb << max(0, cand.dexp - td)) + (cand.bound << max(0, td - cand.dexp)), max(td, cand.dexp)
        elif form == "times":
            nb, nd = tb * cand.bound, td + cand.dexp
        else:
            nb, nd = tb << cand.dexp, td + max(1, cand.bound).bit_length()
        if max(1, nb).bit_length() + nd > MAXBITS or cand.bits() > MAXBITS:
            return False
        base.bound, base.dexp = nb, nd
        return True

    def emit(self, out, fname, T, e, family):
        """append one statement (k, op, src, info) to `out`; returns False if it cannot be generated"""
        form = fname[3:] if fname.startswith("na_") else fname
        base = T.var if isinstance(T, Pl) else [v for v in self.vars if v.name in T.reads][0]
        te = T.e if isinstance(T, Pl) else T
        if not self.commit(base, form, e):
            self.skip("magnitude bound")
            return False
        op, src, info = self.render_statement(self.k, fname, te, e)
        info["family"] = family
        out.append((self.k, op, src, info))
        self.k += 1
        return True

    def wrap(self, S, form, style, others, pow2=False):
        """an expression reading the place S (and possibly a second place of the same storage)"""
        e = S.e
        kind = "V" if not S.is_m else "M"
        w = style % 7
        if pow2:
            # the storage must keep holding non-zero powers of two (it is also used as a divisor)
            w = [0, 1, 2, 5, 6][style % 5]
        if w == 0:
            return self.un(kind, "abs", e)
        if w == 1:
            return self.mk_smul(-1, e)
        if w == 2:
            return self.mk_smul(self.sr.choice([2, -2] if pow2 else [2, 3, -2]), e, self.sr.chance(1, 2))
        if w == 3:
            return self.mk_add(e, e)
        if w == 4 and others:
            return self.mk_sub(e, self.sr.choice(others).e)
        if w == 5 and others:
            return self.bin(kind, self.sr.choice(["max", "min"]), e, self.sr.choice(others).e)
        if others:
            return self.bin(kind, "mul", e, self.sr.choice(others).e)
        return self.un(kind, "sqr" if not pow2 else "abs", e)

    # ------------------------------------------------------------------ family A
    COMPOUND = ["plus", "minus", "times", "divide"]

    def find_pair(self, M, kT, kS, want, matrix=False, shapes=None):
        r = self.sr
        best = None
        for _ in range(120):
            try:
                if matrix:
                    L1, L2 = r.choice(shapes)
                    T, S = self.cand_m(M, kT, L1, L2), self.cand_m(M, kS, L1, L2)
                else:
                    L = r.range(2, max(2, max(M.shape) if M.is_m else M.shape))
                    T, S = self.cand_v(M, kT, L), self.cand_v(M, kS, L)
            except Unsupported as u:
                self.skip(u)
                continue
            if T is None or S is None:
                continue
            fh, bh, same = hazard(T.flat, S.flat)
            if not (fh or bh or same):
                continue
            if want == "fh" and fh:
                if not bh:
                    return T, S
                best = best or (T, S)
            if want == "bh" and bh:
                if not fh:
                    return T, S
                best = best or (T, S)
            if want == "same" and T.flat == S.flat:
                return T, S
        return best

    def fam_alias_storage(self, kind, shape, vkinds, mkinds, per_case, seq, full=True):
        """cases of aliasing statements over one matrix variable `kind`(A/B) of `shape`"""
        cases, stmts = [], []
        cur_cls = [None]

        def new_case():
            self.setup([max(shape), 3], [shape, shape] if kind == "A" else [], [shape, shape] if kind == "B" else [])
            cur_cls[0] = "pow2" if (len(cases) % 2 == 0) else "wide"
            return self.init_ops({"*": cur_cls[0]})

        init = new_case()

        def flush():
            nonlocal init, stmts
            if stmts:
                cases.append((init, stmts))
            stmts = []
            init = new_case()

        def add(T, S, style, pool):
            # style: 0 plain bare, 1 compound bare, 2 plain wrapped, 3 compound wrapped, 4 noalias (same-index only)
            seq[0] += 1
            p2 = cur_cls[0] == "pow2"
            form = "set" if style in (0, 2) else (["times", "divide"][seq[0] % 2] if p2 else ["plus", "minus", "times"][seq[0] % 3])
            try:
                others = [p for p in pool if p.shape == S.shape]
                e = S.e if style in (0, 1) else self.wrap(S, form, seq[0], others, p2)
                fname = form
                if style == 4:
                    fname, e = "na_" + form, (S.e if seq[0] % 2 else self.wrap(S, form, seq[0], [], p2))
                if not self.emit(stmts, fname, T, e, "alias"):
                    return
            except Unsupported as u:
                self.skip(u)
                return
            if self.ctx is not None:
                fh, bh, same = hazard(T.flat, S.flat)
                rel = "+".join(n for n, b in (("target-behind", fh), ("target-before", bh), ("same-index", same)) if b)
                self.ctx.hist("alias_pairs", f"{kind}:{T.kind}<-{S.kind}:{rel}")
            if len(stmts) >= per_case:
                flush()

        def pairs(klist, matrix, full):
            n = 0
            for ti, kT in enumerate(klist):
                for si, kS in enumerate(klist):
                    if matrix and (si - ti) % len(klist) not in (0, 1, 3):
                        continue
                    wants = ["fh", "bh"] + (["same"] if kT == kS else [])
                    if kT != kS and (matrix or not full):
                        wants = [wants[(ti + si) % 2]]
                    for want in wants:
                        M = self.p_var(self.V(kind, 0))
                        shapes = None
                        if matrix:
                            a, b = shape
                            shapes = [(a, b), (b, a), (max(1, a - 1), max(1, b - 1)), (2, 2), (max(1, a - 1), b), (a, max(1, b - 1)), (2, 3), (3, 2)]
                        pr = self.find_pair(M, kT, kS, want, matrix, shapes)
                        if pr is None:
                            continue
                        T, S = pr
                        pool = []
                        for _ in range(3):
                            try:
                                c = self.cand_m(M, self.sr.choice(klist), *T.shape) if matrix else \
                                    self.cand_v(M, self.sr.choice(klist), T.shape)
                            except Unsupported:
                                c = None
                            if c is not None:
                                pool.append(c)
                        if kT == kS:
                            add(T, S, 0, pool)                      # plain `=` between two proxies of one type
                            if full or want == "same":
                                add(T, S, 4 if want == "same" else 1 + n % 3, pool)
                        else:
                            add(T, S, n % 4, pool)
                        n += 1
        pairs(vkinds, False, full)
        if mkinds:
            pairs(mkinds, True, full)
        if stmts:
            cases.append((init, stmts))
        return cases

    def fam_alias_vector(self, seq):
        """sub-ranges of one dense vector (contiguous storage), shifts in both directions"""
        cases = []
        self.setup([9, 9], [], [])
        init = self.init_ops({"*": "wide"})
        stmts = []
        M = self.p_var(self.V("v", 0))
        for want in ("fh", "bh", "same", "fh", "bh"):
            pr = self.find_pair(M, "range", "range", want)
            if pr is None:
                continue
            T, S = pr
            seq[0] += 1
            form = ["set", "plus", "minus", "set", "times"][seq[0] % 5]
            try:
                e = S.e if seq[0] % 2 else self.wrap(S, form, seq[0], [])
                self.emit(stmts, form, T, e, "alias")
            except Unsupported as u:
                self.skip(u)
            if self.ctx is not None:
                self.ctx.hist("alias_pairs", f"v:range<-range:{want}")
        cases.append((init, stmts))
        return cases

    def fam_alias_products(self):
        """block-wise right-hand sides that read the target (the temporary is mandatory).  Every expression node is
        built when its statement is emitted (magnitudes of the operands are the current ones) and the store is
        re-initialised every three statements, so that the values stay inside the exact range of double"""
        cases = []
        for kind in ("A", "B"):
            other = "B" if kind == "A" else "A"
            lay = lambda: self.setup([4, 4], [(4, 4), (4, 4)] if kind == "A" else [(4, 4)],
                                     [(4, 4), (4, 4)] if kind == "B" else [(4, 4)])
            P = lambda kd, k: self.p_var(self.V(kd, k))
            M, M1, O, v = (lambda: P(kind, 0)), (lambda: P(kind, 1)), (lambda: P(other, 0)), (lambda: P("v", 0))
            todo = [
                ("set", v, lambda: self.mk_mv(M().e, v().e)),
                ("plus", v, lambda: self.mk_vm(v().e, M().e)),
                ("set", M, lambda: self.mk_mm(M().e, M1().e)),
                ("set", M, lambda: self.mk_mm(M1().e, self.mk_trans(M().e))),
                ("minus", M, lambda: self.mk_mm(O().e, M().e)),
                ("set", lambda: self.p_row(M(), 1), lambda: self.mk_mv(M().e, self.p_col(M(), 2).e)),
                ("set", lambda: self.p_col(M(), 0), lambda: self.mk_vm(self.p_row(M(), 3).e, M().e)),
                ("plus", lambda: self.p_diag(M()), lambda: self.mk_fold("max", False, M().e)),
                ("set", lambda: self.p_row(M(), 0), lambda: self.mk_fold("min", True, M().e)),
                ("set", M, lambda: self.mk_outer(self.p_col(M(), 1).e, self.p_row(M(), 2).e)),
                ("set", M, lambda: self.mk_trans(M().e)),
                ("plus", M, lambda: self.mk_trans(M().e)),
                ("set", lambda: self.p_mrange(M(), 0, 3, 0, 3),
                 lambda: self.mk_mm(self.p_mrange(M(), 1, 4, 1, 4).e, self.p_mrange(M1(), 0, 3, 1, 4).e)),
            ]
            lay()
            init, stmts = self.init_ops({"*": "mixed"}), []
            for form, T, mk in todo:
                try:
                    self.emit(stmts, form, T(), mk(), "alias-blockwise")
                except Unsupported as u:
                    self.skip(u)
                if len(stmts) >= 3:
                    cases.append((init, stmts))
                    lay()
                    init, stmts = self.init_ops({"*": "mixed"}), []
            if stmts:
                cases.append((init, stmts))
        return cases

    def family_alias(self, quick):
        seq = [0]
        cases = []
        vk = ["row", "col", "diag", "tovec"]
        mk = ["var", "trans", "mrange", "rows", "cols", "transrange"]
        cases += self.fam_alias_storage("A", (4, 4), vk, mk, 6, seq)
        cases += self.fam_alias_storage("B", (4, 4), vk, mk, 6, seq)
        for kind, shape in (("A", (3, 6)), ("B", (6, 3)), ("A", (5, 2)), ("B", (2, 5))):
            cases += self.fam_alias_storage(kind, shape, ["row", "col", "tovec"], None, 6, seq, full=False)
        cases += self.fam_alias_vector(seq)
        cases += self.fam_alias_products()
        return cases

    # ------------------------------------------------------------------ families B, C: shape-independent pool
    # variables of the universal layout for dimensions (M, K, N)
    #   v0(M) v1(K) v2(N) v3(K) v4(M)
    #   A0(MxN) A1(MxK) A2(MxK) A3(KxN) A4(KxN) A5(KxM) A6(NxK) A7(NxM)
    #   B0(MxN) B1(MxK) B2(KxN) B3(KxM) B4(NxM)
    def layout(self, M, K, N):
        self.setup([M, K, N, K, M],
                   [(M, N), (M, K), (M, K), (K, N), (K, N), (K, M), (N, K), (N, M)],
                   [(M, N), (M, K), (K, N), (K, M), (N, M)])

    def pool_bc(self):
        """[(k, op, src, info, tags, ok(M,K,N))] built on a prototype shape; texts contain no shape literal"""
        self.layout(2, 3, 4)
        X = lambda kind, k: self.V(kind, k).expr()
        pool = []

        def stmt(fname, T, mk, tags, ok=None, fam="fold"):
            try:
                e = mk()
                op, src, info = self.render_statement(self.k, fname, T, e)
            except Unsupported as u:
                self.skip(u)
                return
            info["family"] = fam
            pool.append((self.k, op, src, info, set(tags), ok or (lambda M, K, N: True)))
            self.k += 1

        def red(kind, mk, tags, ok=None):
            try:
                args = mk()
                r = self.render_reduction(self.k, kind, args)
            except Unsupported as u:
                self.skip(u)
                return
            if r is None:
                return
            op, src, info = r
            info["family"] = "reduction"
            pool.append((self.k, op, src, info, set(tags), ok or (lambda M, K, N: True)))
            self.k += 1

        forms = ["set", "plus", "na_set", "minus", "na_plus"]
        fi = [0]

        def nf():
            fi[0] += 1
            return forms[fi[0] % len(forms)]

        # ---- B: row-wise reductions of an (M x K) operand; rows -> v0 (M), columns -> v1 (K)
        full = [lambda: X("A", 1), lambda: X("B", 1)]
        part = [lambda: self.mk_trans(X("A", 5)), lambda: self.mk_trans(X("B", 3)),
                lambda: self.mk_add(X("A", 1), X("A", 2)), lambda: self.un("M", "neg", X("B", 1)),
                lambda: self.bin("M", "mul", X("A", 1), X("B", 1)), lambda: self.mk_smul(2, X("B", 1))]
        for oi, opnd in enumerate(full + part):
            reds = self.FOLD_REDS if oi < len(full) else ["max", "min", "sum"]
            for rd in reds:
                for rows in (True, False):
                    nonempty = rd in ("max", "min", "norm_inf")
                    ok = (lambda M, K, N, rows=rows, ne=nonempty: (not ne) or ((K if rows else M) > 0))
                    stmt(nf(), X("v", 0) if rows else X("v", 1), (lambda rd=rd, rows=rows, opnd=opnd: self.mk_fold(rd, rows, opnd())),
                         ["M", "K"], ok, "fold")
        # ---- scalar reductions
        for kind in self.REDS_V:
            ne = kind in ("max", "min", "norm_inf")
            red(kind, (lambda kind=kind: [X("v", 1)] + ([X("v", 3)] if kind == "inner_prod" else [])), ["K"],
                (lambda M, K, N, ne=ne: K > 0 or not ne))
        for kind in ("sum", "max", "min", "norm_inf"):
            red(kind, lambda: [self.mk_col(X("A", 1), 0)], ["M"], lambda M, K, N: K > 0 and M > 0)      # strided
            red(kind, lambda: [self.mk_row(X("B", 1), 0)], ["K"], lambda M, K, N: K > 0 and M > 0)      # strided
            red(kind, lambda: [self.mk_sub(X("v", 1), X("v", 3))], ["K"], lambda M, K, N: K > 0)
        red("inner_prod", lambda: [self.mk_row(X("B", 1), 0), self.mk_col(X("A", 3), 0)], ["K"], lambda M, K, N: M > 0 and N > 0)
        mops = [lambda: X("A", 1), lambda: X("B", 1), lambda: self.mk_trans(X("A", 5)), lambda: self.mk_sub(X("A", 1), X("A", 2)),
                lambda: self.un("M", "neg", X("B", 1))]
        for oi, opnd in enumerate(mops):
            for kind in ("msum", "mmax", "mmin", "mnorm_1", "mnorm_inf"):
                if oi >= 2 and kind in ("mnorm_1", "mnorm_inf"):
                    continue
                red(kind, (lambda opnd=opnd: [opnd()]), ["M", "K"], lambda M, K, N: M > 0 and K > 0)
        red("frobenius_prod", lambda: [X("A", 1), X("B", 1)], ["M", "K"])
        red("frobenius_prod", lambda: [X("A", 1), X("A", 2)], ["M", "K"])

        # ---- C: products
        lhs = [("c", lambda: X("A", 1)), ("c", lambda: X("B", 1)), ("e", lambda: self.mk_add(X("A", 1), X("A", 2))),
               ("p", lambda: self.mk_trans(X("A", 5))), ("p", lambda: self.mk_trans(X("B", 3))),
               ("e", lambda: self.un("M", "neg", X("B", 1))), ("s", lambda: self.mk_smul(2, X("A", 1)))]
        rhs = [("c", lambda: X("A", 3)), ("c", lambda: X("B", 2)), ("e", lambda: self.mk_sub(X("A", 3), X("A", 4))),
               ("p", lambda: self.mk_trans(X("A", 6))), ("e", lambda: self.un("M", "abs", X("B", 2))),
               ("s", lambda: self.mk_smul(-1, X("B", 2)))]
        n = 0
        for li, (lt, L) in enumerate(lhs):
            for ri, (rt, R) in enumerate(rhs):
                core = li < 3 and ri < 3
                if not core and (li + ri) % 3 != 0:
                    continue
                for tk in (("A", "B") if core else (("A",) if (li + ri) % 2 else ("B",))):
                    n += 1
                    stmt(nf(), X(tk, 0), (lambda L=L, R=R: self.mk_mm(L(), R())), ["M", "K", "N"], None, "gemm")
        for lt, L in lhs:
            stmt(nf(), X("v", 0), (lambda L=L: self.mk_mv(L(), X("v", 1))), ["M", "K"], None, "gemv")
        for rt, R in rhs:
            stmt(nf(), X("v", 2), (lambda R=R: self.mk_vm(X("v", 1), R())), ["K", "N"], None, "gemv")
        stmt("set", X("v", 1), lambda: self.mk_mv(self.mk_trans(X("A", 1)), X("v", 4)), ["M", "K"], None, "gemv")
        stmt("plus", X("v", 1), lambda: self.mk_vm(self.mk_sub(X("v", 0), X("v", 4)), X("B", 1)), ["M", "K"], None, "gemv")
        # ---- C: assignment across orientations (blocked transposing kernels of matrix_assign.hpp), outer products
        A0, B0 = (lambda: X("A", 0)), (lambda: X("B", 0))
        for fname, T, mk in [
                ("set", B0, A0), ("set", A0, B0), ("plus", B0, A0), ("minus", A0, B0), ("na_set", B0, A0), ("na_plus", A0, B0),
                ("set", A0, lambda: self.mk_trans(X("A", 7))), ("set", B0, lambda: self.mk_trans(X("B", 4))),
                ("plus", A0, lambda: self.mk_trans(X("B", 4))), ("set", B0, lambda: self.mk_trans(X("A", 7))),
                ("set", A0, lambda: self.un("M", "abs", X("B", 0))), ("minus", B0, lambda: self.mk_smul(2, X("A", 0))),
                ("set", A0, lambda: self.mk_add(X("B", 0), X("A", 0))), ("set", B0, lambda: self.bin("M", "max", X("A", 0), self.mk_trans(X("A", 7)))),
                ("set", A0, lambda: self.mk_outer(X("v", 0), X("v", 2))), ("plus", B0, lambda: self.mk_outer(X("v", 4), X("v", 2))),
        ]:
            stmt(fname, T(), mk, ["M", "N"], None, "assign-orientation")
        return pool

    SMALL = [(3, 4, 5), (4, 6, 7), (7, 5, 6), (1, 1, 1), (2, 3, 1), (5, 2, 3), (8, 9, 12), (13, 7, 11)]
    ZERO = [(0, 3, 2), (2, 0, 3), (2, 3, 0)]
    FOLDB = [(15, 3, 2), (16, 2, 17), (17, 2, 16), (33, 2, 1), (2, 15, 3), (3, 16, 2), (2, 17, 1), (1, 33, 2), (32, 1, 2), (31, 4, 2)]
    KT = [(2, 511, 3), (3, 512, 2), (2, 513, 3), (1, 1025, 2), (2, 600, 1), (3, 1024, 1)]
    MT = [(127, 2, 3), (128, 3, 2), (129, 2, 2), (257, 1, 2), (130, 5, 1)]
    NT = [(2, 2, 1019), (1, 3, 1020), (2, 2, 1021), (1, 1, 2041)]

    def family_bc(self, quick):
        pool = self.pool_bc()
        dr = self.dr
        cases = []
        shapes = [(s, None) for s in self.SMALL + self.ZERO + self.FOLDB] + \
                 [(s, "K") for s in self.KT] + [(s, "M") for s in self.MT] + [(s, "N") for s in self.NT]
        if not quick:
            extra = []
            for _ in range(12):
                extra.append(((dr.range(1, 40), dr.range(1, 40), dr.range(1, 40)), None))
            for c in (512, 1024):
                extra.append(((dr.range(1, 3), c + dr.range(1, 300), dr.range(1, 3)), "K"))
            extra.append(((128 + dr.range(1, 140), dr.range(1, 3), dr.range(1, 3)), "M"))
            extra.append(((dr.range(1, 2), dr.range(1, 3), 1020 + dr.range(1, 600)), "N"))
            shapes += extra
        rot = ["mixed", "neg", "pos", "negline", "mixed", "const", "neg", "pos", "zero", "negline"]
        for ci, ((M, K, N), big) in enumerate(shapes):
            self.layout(M, K, N)
            cls = rot[ci % len(rot)] if big is None else dr.choice(["mixed", "mixed", "wide", "neg", "pos"])
            classes = {"*": cls}
            if cls != "mixed" and dr.chance(1, 2):
                # one operand of another class, so that binary expressions see mixed classes
                classes[dr.choice(["A2", "B1", "A4", "v3"])] = dr.choice(["mixed", "neg", "pos"])
            init = self.init_ops(classes)
            sel = [p for p in pool if p[5](M, K, N) and (big is None or big in p[4])]
            if big is not None and len(sel) > 48:
                # large stores are printed after every statement: a seed-dependent subset, products and folds first
                must = [p for p in sel if p[3]["family"] in ("gemm",)]
                rest = [p for p in sel if p[3]["family"] not in ("gemm",)]
                keep = set(id(p) for p in must)
                while len(keep) < 48 and rest:
                    keep.add(id(rest.pop(dr.below(len(rest)))))
                sel = [p for p in sel if id(p) in keep]
            if self.ctx is not None:
                self.ctx.hist("directed_shapes", f"{M}x{K}x{N}:{cls}")
            cases.append((init, [(k, op, src, info) for (k, op, src, info, _, _) in sel]))
        return cases

    # ------------------------------------------------------------------ family R: one witness per rewrite rule
    # variables of the rule layout (all operand shapes distinct: 3, 4, 5; `p2` = non-zero powers of two, used as divisors)
    #   v0(3) v1(5) v2(4) v3(5)p2 v4(3) v5(4)p2 v6(5) v7(12: vector target)
    #   A0(3x5) A1(3x5)p2 A2(3x4) A3(4x5) A4(4x4) A5(4x4)p2 A6(5x3) A7(10x10: row-major target)
    #   B0(3x5) B1(4x5) B2(4x4) B3(10x10: column-major target)
    RULE_FORMS = ["set", "plus", "na_set", "minus", "na_plus", "na_minus"]

    def layout_rules(self):
        self.setup([3, 5, 4, 5, 3, 4, 5, 12],
                   [(3, 5), (3, 5), (3, 4), (4, 5), (4, 4), (4, 4), (5, 3), (10, 10)],
                   [(3, 5), (4, 5), (4, 4), (10, 10)])
        return self.init_ops({"*": "wide", "v3": "pow2", "v5": "pow2", "A1": "pow2", "A5": "pow2"})

    def rule_builders(self, rw=(1, 3), cw=(2, 5), vr=(1, 4), ri=2, dw=(1, 4)):
        """[(rule name, builder)]: for every rule of the table at least one expression whose construction through the
        public functions makes exactly this specialisation fire, with NON-symmetric arguments: non-square operands,
        row window != column window, start offsets > 0 and pairwise different, scalar factors != 1, non-commutative
        functors (division), distinct operands on the two sides of every binary node"""
        X = lambda kind, k: self.V(kind, k).expr()
        v = lambda k: X("v", k)
        A = lambda k: X("A", k)
        B = lambda k: X("B", k)
        sm, un, bn = self.mk_smul, self.un, self.bin
        # matrix operands of shape 3 x 5, by expression class
        m35 = {
            "matrix_scalar_multiply": lambda: sm(2, A(0)),
            "matrix_addition": lambda: self.mk_add(A(0), B(0)),
            "scalar_matrix": lambda: self.mk_cmat(3, 5, 3),
            "vector_repeater_row_major": lambda: self.mk_repeat(v(1), 3),
            "vector_repeater_column_major": lambda: self.mk_trans(self.mk_repeat(v(0), 5)),
            "matrix_unary": lambda: un("M", "abs", A(0)),
            "matrix_binary": lambda: bn("M", "div", A(0), A(1)),
            "outer_product": lambda: self.mk_outer(v(0), v(1)),
            "matrix_matrix_prod": lambda: sm(-2, self.mk_mm(A(2), B(1))),
            "diagonal_matrix": lambda: self.mk_diagm(v(1)),                       # 5 x 5
        }
        m35["vector_repeater"] = m35["vector_repeater_row_major"]
        mcat = {"matrix_concat": lambda: self.mk_concatr(A(0), B(0)), "matrix_concat#b": lambda: self.mk_concatb(B(0), A(0))}
        # square operands (4 x 4) for diag()
        m44 = {
            "matrix_scalar_multiply": lambda: sm(3, A(4)),
            "matrix_addition": lambda: self.mk_add(A(4), B(2)),
            "vector_repeater": lambda: self.mk_repeat(v(2), 4),
            "vector_repeater#c": lambda: self.mk_trans(self.mk_repeat(v(2), 4)),
            "matrix_unary": lambda: un("M", "abs", B(2)),
            "matrix_binary": lambda: bn("M", "div", B(2), A(5)),
            "outer_product": lambda: self.mk_outer(v(2), v(5)),
            "diagonal_matrix": lambda: self.mk_diagm(v(2)),
        }
        # vector operands of size 5
        v5 = {
            "matrix_vector_prod": lambda: sm(-3, self.mk_mv(A(6), v(0))),
            "vector_scalar_multiply": lambda: sm(2, v(1)),
            "scalar_vector": lambda: self.mk_cvec(5, 3),
            "unit_vector": lambda: self.mk_unit(5, 2, -3),
            "vector_unary": lambda: un("V", "abs", v(1)),
            "vector_addition": lambda: self.mk_add(v(1), v(6)),
            "vector_binary": lambda: bn("V", "div", v(1), v(3)),
            "vector_concat": lambda: self.mk_concat(v(0), self.mk_range(v(2), 1, 3)),
        }
        out = []

        def add(rule, mk):
            out.append((rule, mk))

        def pat(r):
            """key of the operand dictionaries for the pattern of rule r"""
            p = r["pattern"]
            head = p.split("<")[0]
            if head == "vector_repeater":
                if "row_major" in p:
                    return "vector_repeater_row_major"
                if "column_major" in p:
                    return "vector_repeater_column_major"
            return head

        for r in self.api.c.rules_in_order():
            if r["status"] != "translated":
                continue
            name, opt, key = r["name"], r["opt"], pat(r)
            if opt == "vector_range_optimizer" and key in v5:
                add(name, lambda key=key: self.mk_range(v5[key](), *vr))
            elif opt == "matrix_transpose_optimizer" and (key in m35 or key in mcat):
                if key in mcat:
                    add(name, lambda: self.mk_trans(mcat["matrix_concat"]()))
                    add(name, lambda: self.mk_trans(mcat["matrix_concat#b"]()))
                else:
                    add(name, lambda key=key: self.mk_trans(m35[key]()))
            elif opt == "matrix_row_optimizer" and key in m35:
                add(name, lambda key=key: self.mk_row(m35[key](), ri))
            elif opt == "matrix_diagonal_optimizer" and key in m44:
                add(name, lambda key=key: self.mk_diag(m44[key]()))
                if key + "#c" in m44:
                    add(name, lambda key=key: self.mk_diag(m44[key + "#c"]()))
            elif opt == "matrix_range_optimizer" and key in m35:
                # rows [1,3) and columns [2,5): different starts, different extents
                # the rule for the diagonal matrix has the precondition start1 == start2, end1 == end2
                # (REMORA_RANGE_CHECK: "unimplemented: non-diagonal subranges of diagonal matrix"; hypotheses hc1, hc2
                # of its lemma), so its window is a diagonal block with a start offset
                w = (rw + cw) if key != "diagonal_matrix" else (dw + dw)
                add(name, lambda key=key, w=w: self.mk_mrange(m35[key](), *w))
                if key == "vector_repeater":
                    add(name, lambda: self.mk_mrange(m35["vector_repeater_column_major"](), *(rw + cw)))
                if key != "diagonal_matrix":
                    # same extents, different starts: a mixed-up window changes the values, not the shape
                    w2 = (rw[0], rw[1], cw[0], cw[0] + rw[1] - rw[0]) if cw[0] + rw[1] - rw[0] <= 5 and cw[0] != rw[0] else \
                        (rw[0], rw[1], rw[0] + 1, rw[1] + 1)
                    add(name, lambda key=key, w2=w2: self.mk_mrange(m35[key](), *w2))
            elif opt == "matrix_rows_optimizer" and key in m35:
                add(name, lambda key=key: self.mk_rows(m35[key](), *rw))
                add(None, lambda key=key: self.mk_cols(m35[key](), *cw))     # = trans(rows(trans(.)))
            elif opt == "vector_scalar_multiply_optimizer":
                if key == "default":
                    add(name, lambda: sm(-2, v(1)))
                elif key in v5:
                    add(name, lambda key=key: sm((-3, 2), v5[key](), key != "vector_addition"))     # t*v and v*t
            elif opt == "matrix_scalar_multiply_optimizer":
                if key == "default":
                    add(name, lambda: sm(-2, B(0)))
                elif key in mcat:
                    add(name, lambda: sm(-2, mcat["matrix_concat"]()))
                    add(name, lambda: sm(3, mcat["matrix_concat#b"]()))
                elif key in m35:
                    add(name, lambda key=key: sm((-3, 2), m35[key](), key != "matrix_addition"))    # t*A and A*t
            elif opt == "matrix_vector_prod_optimizer":
                pp = r["pattern"]
                if key == "default":
                    add(name, lambda: self.mk_mv(A(0), v(1)))
                    add(name, lambda: self.mk_vm(v(0), B(0)))
                elif pp.startswith("matrix_scalar_multiply<M>, vector_scalar_multiply"):
                    add(name, lambda: self.mk_mv(sm(2, A(0)), sm(-3, v(1))))
                elif pp.startswith("matrix_scalar_multiply"):
                    add(name, lambda: self.mk_mv(sm(2, B(0)), v(1)))
                elif pp.startswith("M,"):
                    add(name, lambda: self.mk_mv(A(0), sm(-3, v(1))))
                elif key == "matrix_matrix_prod":
                    add(name, lambda: self.mk_mv(sm(2, self.mk_mm(A(2), B(1))), v(1)))
                elif key == "matrix_addition":
                    add(name, lambda: self.mk_mv(self.mk_add(A(0), sm(2, B(0))), v(1)))
                elif key == "outer_product":
                    add(name, lambda: self.mk_mv(self.mk_outer(v(0), v(1)), v(6)))
                elif key == "vector_repeater_row_major":
                    add(name, lambda: self.mk_mv(self.mk_repeat(v(1), 3), v(6)))
                elif key == "diagonal_matrix":
                    add(name, lambda: self.mk_mv(self.mk_diagm(v(1)), v(6)))
                    # the same operand classes on the left: prod(v, M) = prod(trans(M), v)
                    add(None, lambda: self.mk_vm(v(0), sm(2, B(0))))
                    add(None, lambda: self.mk_vm(sm(-3, v(0)), sm(2, A(0))))
                    add(None, lambda: self.mk_vm(v(0), self.mk_add(A(0), sm(2, B(0)))))
                    add(None, lambda: self.mk_vm(v(0), sm(2, self.mk_mm(A(2), B(1)))))
                    add(None, lambda: self.mk_vm(v(4), self.mk_outer(v(0), v(1))))
                    add(None, lambda: self.mk_vm(v(6), self.mk_diagm(v(1))))
            elif opt == "matrix_matrix_prod_optimizer" and key == "default":
                add(name, lambda: self.mk_mm(A(2), B(1)))
                add(name, lambda: self.mk_mm(self.mk_trans(A(6)), self.mk_trans(A(3))))
            elif opt == "matrix_unary_optimizer":
                if key == "default":
                    add(name, lambda: un("M", "abs", B(0)))
                elif key == "matrix_unary":
                    # f2(f1(x)): dropping either functor changes the value (1/x^2 on powers of two), and the ORDER
                    # of the composition is visible when f1 carries a folded negative factor: (-2|x|)^2 != -2|x^2|
                    add(name, lambda: un("M", "inv", un("M", "sqr", A(1))))
                    add(name, lambda: un("M", "sqr", sm(-2, un("M", "abs", A(0)))))
                elif key == "matrix_binary":
                    add(name, lambda: un("M", "abs", bn("M", "div", A(0), A(1))))
            elif opt == "vector_unary_optimizer":
                if key == "default":
                    add(name, lambda: un("V", "abs", v(1)))
                elif key == "vector_unary":
                    add(name, lambda: un("V", "inv", un("V", "sqr", v(3))))
                    add(name, lambda: un("V", "sqr", sm(-2, un("V", "abs", v(1)))))
                elif key == "vector_binary":
                    add(name, lambda: un("V", "abs", bn("V", "div", v(1), v(3))))
                elif key == "matrix_row_transform":
                    # g2(fold(A, f, g)): the outer functor applies to the folded value, not to the elements
                    add(name, lambda: un("V", "abs", self.mk_fold("min", True, A(0))))
                    add(name, lambda: un("V", "sqr", self.mk_fold("sum", False, B(0))))
            elif opt == "fold_vector_set_optimizer":
                rows = "row_major" in r["pattern"]
                add(name, lambda rows=rows: self.mk_fold("sum", rows, A(0)))
                add(name, lambda rows=rows: self.mk_fold("max", rows, B(0)))
                add(name, lambda rows=rows: self.mk_fold("norm_1", rows, A(0)))
        return out

    def family_rules(self, quick, per_case=10):
        """family R: for every translated rule of the table statements that make it fire (decided by the class-level
        interpreter: the rule is in the set of specialisations selected while the expression is built)"""
        calc = self.api.c if self.api is not None else None
        self.rule_witness = {}
        if calc is None:
            return []
        cases, stmts = [], []
        init = self.layout_rules()
        builders = self.rule_builders()
        if not quick:
            # thorough tier: a second set of witnesses with windows / indices from the seed
            dr = self.dr
            def win(n, other=None):
                for _ in range(50):
                    a = dr.range(0, n - 1); b = dr.range(a + 1, n)
                    if (a, b) != other:
                        return (a, b)
                return (0, n)
            rw = win(3); cw = win(5, rw)
            builders += self.rule_builders(rw, cw, win(5), dr.below(3), win(5))
        n = 0
        for rule, mk in builders:
            before = dict(calc.fired)
            try:
                e = mk()
            except Unsupported as u:
                self.skip(f"{rule}: {u}")
                continue
            delta = sorted(k for k, c in calc.fired.items() if c != before.get(k, 0))
            if rule is not None and rule not in delta:
                self.skip(f"{rule}: builder does not fire it")
                continue
            n += 1
            fname = self.RULE_FORMS[n % len(self.RULE_FORMS)]
            if e.kind == "V":
                L = e.shape
                s0 = (3 * n) % (12 - L + 1)
                T = self.p_range(self.p_var(self.V("v", 7)), s0, s0 + L)
            else:
                n1, n2 = e.shape
                base = self.p_var(self.V("A", 7) if n % 2 else self.V("B", 3))
                s1, s2 = (3 * n) % (10 - n1 + 1), (5 * n + 1) % (10 - n2 + 1)
                T = self.p_mrange(base, s1, s1 + n1, s2, s2 + n2)
            k0 = len(stmts)
            if not self.emit(stmts, fname, T, e, "rule"):
                continue
            stmts[k0][3]["witness"] = rule
            stmts[k0][3]["rules"] = delta
            for fr in ([rule] if rule is not None else delta):
                self.rule_witness[fr] = self.rule_witness.get(fr, 0) + 1
            if n % 3 == 0:
                # the same right-hand side through the reduction entry points (no target: sum / sum of all elements)
                try:
                    rr = self.render_reduction(self.k, "sum" if e.kind == "V" else "msum", [mk()])
                except Unsupported:
                    rr = None
                if rr is not None:
                    rr[2].update(family="rule", witness=None, rules=delta)
                    stmts.append((self.k,) + rr)
                    self.k += 1
            if len(stmts) >= per_case:
                cases.append((init, stmts))
                stmts, init = [], self.layout_rules()
        if stmts:
            cases.append((init, stmts))
        return cases

    # ------------------------------------------------------------------ family D: triangular products
    def pool_tri(self):
        #   v0(T) v1(T)   A0(TxT) A1(TxN) A2(TxN)   B0(TxT) B1(TxN) B2(TxN)
        self.layout_tri(3, 2)
        X = lambda kind, k: self.V(kind, k).expr()
        pool = []
        forms = ["set", "plus", "na_set", "minus"]
        n = 0
        for tri in ("lower", "upper", "unit_lower", "unit_upper"):
            for tm in ("A", "B"):
                for (fam, T, mk) in [
                        ("trmv", lambda: X("v", 0), lambda tri=tri, tm=tm: self.mk_trimv(tri, X(tm, 0), X("v", 1))),
                        ("trmm", lambda: X("A", 2), lambda tri=tri, tm=tm: self.mk_trimm(tri, X(tm, 0), X("A", 1))),
                        ("trmm", lambda: X("B", 2), lambda tri=tri, tm=tm: self.mk_trimm(tri, X(tm, 0), X("B", 1)))]:
                    n += 1
                    if fam == "trmm" and n % 2 and tri.startswith("unit"):
                        continue
                    try:
                        op, src, info = self.render_statement(self.k, forms[n % 4], T(), mk())
                    except Unsupported as u:
                        self.skip(u)
                        continue
                    info["family"] = fam
                    pool.append((self.k, op, src, info))
                    self.k += 1
        return pool

    def layout_tri(self, T, N):
        self.setup([T, T], [(T, T), (T, N), (T, N)], [(T, T), (T, N), (T, N)])

    TRI_SHAPES = [(1, 1), (2, 3), (3, 2), (5, 4), (16, 2), (33, 7), (127, 2), (128, 1), (129, 2)]

    def family_tri(self, quick):
        pool = self.pool_tri()
        cases = []
        shapes = list(self.TRI_SHAPES)
        if not quick:
            shapes += [(self.dr.range(2, 60), self.dr.range(1, 9)) for _ in range(4)] + [(257, 1), (130, 3)]
        for ci, (T, N) in enumerate(shapes):
            self.layout_tri(T, N)
            init = self.init_ops({"*": ["mixed", "pos", "neg"][ci % 3]})
            if self.ctx is not None:
                self.ctx.hist("directed_shapes", f"tri:{T}x{N}")
            cases.append((init, list(pool)))
        return cases


def directed_program(ctx, calc, quick, with_tri=True):
    """returns (cases, skipped): cases = [(init ops, [(k, op, src, info)])]; a statement number may occur in
    several cases (shape-independent statements), its source is rendered once"""
    sr = SplitMix64(0xC01D1)                          # structure: fixed in the quick tier
    dr = ctx.rng.fork("c01-directed-data")            # data: from the seed
    d = Dir(ctx, calc, sr, dr)
    cases = []
    cases += d.family_alias(quick)
    cases += d.family_bc(quick)
    if with_tri:
        cases += d.family_tri(quick)
    cases += d.family_rules(quick)      # last: its statement numbers do not shift those of the other families
    if not quick:
        d2 = Dir(ctx, calc, ctx.rng.fork("c01-directed-structure"), dr)
        d2.k = d.k + 100000
        seq = [0]
        vk, mk = ["row", "col", "diag", "tovec"], ["var", "trans", "mrange", "rows", "cols", "transrange"]
        n = dr.choice([3, 5, 6])
        cases += d2.fam_alias_storage("A", (n, n), vk, mk, 6, seq)
        cases += d2.fam_alias_storage("B", (dr.range(3, 6), dr.range(3, 6)), ["row", "col", "tovec"], mk, 6, seq)
        for k, v in d2.skipped.items():
            d.skipped[k] = d.skipped.get(k, 0) + v
    return cases, d.skipped
