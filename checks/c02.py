"""C02 — linear-system solvers and decompositions: theorems (Props/C02.lean) about
Model/LinSolve.lean + correspondence K-C02 between that model (driver drv_c02, exact
Rat arithmetic) and remora's real kernels (harness/c02.cpp, built twice: default kernels
and the OpenBLAS-backed bindings)."""
import os, re, json, sys
if hasattr(sys, 'set_int_max_str_digits'):
    sys.set_int_max_str_digits(0)     # approximated roots give rationals with thousands of digits
from fractions import Fraction
from vlib import core

TRUST = ("Lean 4.33 kernel; axioms at most propext/Classical.choice/Quot.sound (audited per run by #audit_module); "
         "hand-written model tied to the C++ by the correspondence harness (differential, generator-bounded); ")
MANIFEST = dict(
  text=("Theorems in exact arithmetic over Rat about executable Lean models, for every size n, every matrix / right-hand side, every tag, side and block size (no bound anywhere); "
        "headline file Props/C02.lean, layers Lemmas/LinSolve{Props,Blocked,BlockedChol,CG,Semi,Pstrf}.lean, Lemmas/SolveExpr.lean (every theorem of these modules is an audited obligation). "
        "TRIANGULAR: trsv_correct / trsm_correct (no zero on a divided diagonal => T x = b, x T = b, T X = B, X T = B; other triangle never read), trsv_unique; "
        "the BLOCKED recursion trsm_recursive (Model/LinSolveBlocked.lean, block size a parameter, split as in the C++): trsmBlocked_eq_trsm (= the unblocked loop for every block size and every n), trsmBlocked_correct, trsm_recursive_correct (block 32). "
        "CHOLESKY: potrf_correct (returns 0 => L L^T = A on the stored triangle, other triangle untouched), potrf_upper_correct, potrf_info_spec; the blocked potrf_recursive: potrfBlocked_eq (return value and factor equal the unblocked loop's, every block size), potrf_blocked_correct (end to end). "
        "LU: getrf_correct (P A = L U for the recorded transpositions). SOLVES: solve_spd_correct / solve_spd_right_correct / solve_spd_unique, solve_lu_correct / solve_lu_right_correct, inv_prod_is_solve(_spd), the lazily consumed forms row_of_left_solve / lazy_row_left_trsm / prod_of_right_solve / prod_of_left_trsm (+ wrong-side witness). "
        "PIVOTED CHOLESKY and the semi-definite solver: pstrf_correct (loop invariant of the right-looking pivoted factorisation: P^T A P = F F^T + Rem, Rem supported on the discarded block, its diagonal <= eps, F lower triangular with non-zero diagonal; every n, every eps, no definiteness assumed), "
        "semi_solve_exact_of_pstrf (full rank: A x = b), semi_solve_lsq / semi_solve_lsq_of_pstrf (normal equations A (A x - b) = 0 when nothing non-zero is discarded), semi_solve_lsq_trunc (in general: least squares for A - P Rem P^T), semi_lsq_tolerance_witness (for A = diag(1, 2^-51) the modelled solver reports rank 1 and does NOT return a least-squares solution of A: the clause holds up to the numerical-rank tolerance only). "
        "CONJUGATE GRADIENT (Model/LinSolveCG.lean: both overloads of cg_solver::cg with starting-point rule, tolerance test, iteration limit): cgVec_residual / cgCol_residual (the stored residual is b - A x; no hypothesis on A), cgVec_done_iff, cgVec_converged_residual, cgStep_orth, cgVec_conjugate / cgVec_conjugate_spd (all residuals mutually orthogonal, all directions A-conjugate, over the whole run), "
        "cgVec_spd_done (termination within n passes for symmetric positive definite A), cg_residual_at_requested_level (|b - A x|_inf < eps). "
        "SYSTEM TAG THROUGH THE EXPRESSION LAYER (Model/SolveExpr.lean; rule set Gen/SolveRules.lean REGENERATED from solve.hpp on every run by translate/solve_rules.py): solveTagTranspose_params / _type / _involutive, rules_preserving, "
        "tag_state_survives_{trans,row,column,prod_vec,vec_prod,prod_mat} (the rewritten expression carries exactly the tag states of its operands, by induction over the expression), rules_sides, inv_prod_is_solve_rule / inv_prod_mat_is_solve_rule / mat_prod_inv_is_solve_rule (the inverse-product form IS the solve node with the same tag), transposedDefault_drops_state. "
        "RANK-ONE UPDATE: cholUpdate_correct, cholUpdate_scale_correct. The square root is a parameter r required exact on the values that occur (SqrtSpec / PstrfRoot / hroot). "
        "TIE, every run: exact correspondence (driver drv_c02 in Rat vs C++ doubles printed exactly; whenever FE_INEXACT stays clear the results must be equal) on systems built from integer factors with power-of-two diagonals, sizes 1..70 across the block sizes 4/16/20/32/64, both orientations, left/right, vector/matrix right-hand sides, all tags, rank deficiencies 0..n; the driver runs the BLOCKED trsm / potrf models; "
        "otherwise, and for the OpenBLAS-backed build, in-harness residual oracles in long double. Exercised on every run (quick tier too): every way the solve expression is written and consumed -- solve(), inv(A)%B / B%inv(A), noalias += / -=, the explicit inverse evaluated as a matrix, expression operands, row(expr,i), column(expr,k), expr % e_k, e_i % expr, expr % I, trans(solve(..)), trans(inv(..)) -- "
        "for each of the 7 direct system tags x left/right, and for conjugate_gradient(eps, max_iterations) with NON-DEFAULT parameters in each of these 27 forms x left/right x vector/matrix right-hand side: tolerance below the default on systems that need > 15 passes, iteration limits 1..3, small systems; "
        "the driver evaluates the expression rewritten by the regenerated rules with the exact CG kernels (n <= 10, or <= 3 passes up to n = 40; 1e-7 relative), the harness holds an independent long-double CG (oracles: true residual <= requested eps + rounding; with a limit k on a single-solve form the result is the k-th iterate). "
        "Decomposition objects used directly and re-used, compute_inverse_factor (Moore-Penrose oracle), pivoted LU with ties, sequences of 1..5 rank-one updates over 9 vector classes, symmetric eigenproblems of 7 matrix classes."),
  note=TRUST + "PARTIAL. Proved only on the models: everything listed in `text` as theorem. potrf_strict_correct_partial needs 'no pivot is exactly zero' "
       "(the unrepaired (row_major,upper) kernel accepted a zero pivot: finding C02-potrf-zero-pivot-accepted, fixed in /repo). potrfBlocked_eq needs 'the root does not vanish on a positive pivot' (RootNZ, implied by SqrtSpec). "
       "The least-squares clause is proved with the discarded remainder explicit (semi_solve_lsq_trunc); 'Rem = 0 for an exactly rank-deficient PSD matrix and eps = 0' and 'the inner Cholesky of L^T L succeeds' (InnerCholOk; cholesky_decomposition::decompose ignores potrf's return value) are hypotheses, checked at run time by the oracles pstrf-PAPt / solve-normal-equations. "
       "Conjugacy / termination are proved for the vector overload; for the matrix overload only the residual recurrence and the tolerance test (its columns run the same recurrence from zero). "
       "The nesting of each rewrite rule of solve.hpp (which sub-optimizer is applied to which operand) is modelled by hand in Model/SolveExpr.lean and pinned by a skeleton comparison in the translator (any textual change of a rule body fails the run loudly); tag function and side are regenerated. "
       "NOT theorems, exercised by the correspondence / residual oracles only: the matrix-rhs forms of the LU- and Cholesky-based solves (the vector forms are proved; the model applies them column by column), getrf's blocked recursion (modelled as the unblocked loop, tied exactly across the block boundaries), "
       "that update() throws exactly when the updated matrix is not positive definite (independent oracle), symmetric eigendecomposition syev (INDEPENDENT ORACLE only: Q D Q^T = A, Q^T Q = I, order; no model), floating-point backward-error bounds ('residual at rounding level' is measured, not proved), the OpenBLAS/LAPACK bindings. "
       "The forms that go through the explicit inverse (row(expr,i), evaluated inv(A)) are only forward stable; they are generated on well-conditioned systems so that the 1e-9 residual bound is sound. The harness oracle for an iteration limit knows which forms are a single solve of the given right-hand side (the identities documented in solve.hpp); "
       "for the product forms only the model comparison speaks. A syntax-only compile probe per tree (trans_forms_level) decides whether the transposed forms t/c/l/u are compiled in (evidence field transposed_solve_forms).",
  technique="Lean 4 proofs (course-of-values recurrences, elimination / pivoting loop invariants, block-recursion induction with uniqueness, Krylov-recurrence invariants and a dimension argument for CG termination, structural induction over rewritten expressions) + translator T-C02 (solve.hpp rule table -> Lean) + exact-mode differential correspondence with the C++ (ASan/UBSan, FE_INEXACT) + independent residual / reference-CG oracles",
  design="§6 C02, §14 C02")
FINISH = dict(level="proof",
              rule="one case = one kernel / decomposition / solve call on a generated system; exact cases are built from integer "
                   "factors with power-of-two diagonals (every sqrt and division exact); a case is non-trivial if n >= 2; "
                   "distinct = distinct op text")
LAKE_TARGETS = ["SharkVerif.Props.C02", "drv_c02"]


# every theorem of these modules is an obligation (Props/C02.lean is the headline file and imports the others)
PROOF_MODULES = ["SharkVerif.Props.C02", "SharkVerif.Lemmas.LinSolveProps", "SharkVerif.Lemmas.LinSolveBlocked",
                 "SharkVerif.Lemmas.LinSolveBlockedChol", "SharkVerif.Lemmas.LinSolveCG", "SharkVerif.Lemmas.LinSolveSemi",
                 "SharkVerif.Lemmas.LinSolvePstrf", "SharkVerif.Lemmas.SolveExpr"]


def translate(ctx):
    """T-C02: Gen/SolveRules.lean from solve.hpp (what every rewrite of a solve / inverse expression does with the tag and the side)"""
    return ctx.translate("solve_rules.py")

BOUNDARY = [1, 2, 3, 4, 5, 8, 15, 16, 17, 19, 20, 21, 31, 32, 33, 40, 41, 63, 64, 65, 70]


# --------------------------------------------------------------------------- numbers
def fmt(p, s=0):
    """p / 2^s as `p` or `p/q`"""
    while s > 0 and p % 2 == 0:
        p //= 2; s -= 1
    return str(p) if s == 0 else f"{p}/{1 << s}"


def emit(M, s=0):
    return " ".join(fmt(v, s) for row in M for v in row)


def emitv(v, s=0):
    return " ".join(fmt(x, s) for x in v)


def mm(A, B):
    Bt = list(zip(*B))
    return [[sum(a * b for a, b in zip(row, col)) for col in Bt] for row in A]


def tr(A):
    return [list(r) for r in zip(*A)]


def mv(A, x):
    return [sum(a * b for a, b in zip(row, x)) for row in A]


def ident(n):
    return [[1 if i == j else 0 for j in range(n)] for i in range(n)]


def perm_rows(A, p):
    return [A[i] for i in p]


def rand_perm(r, n):
    p = list(range(n))
    for i in range(n - 1, 0, -1):
        j = r.below(i + 1); p[i], p[j] = p[j], p[i]
    return p


def small(r, lim, density=2):
    """small integer, zero with probability 1/density... (density 1: never forced to zero)"""
    if density > 1 and r.below(density) != 0:
        return 0
    return r.range(-lim, lim)


# --------------------------------------------------------------------------- generators
def gen_tri_matrix(r, n, upper, unit, singular=False):
    """full n x n integer matrix whose `upper`/lower triangle is the system; the other triangle
    (and, for unit tags, the diagonal) is filled with garbage that must not be read"""
    dens = r.choice([1, 2, 4])
    A = [[0] * n for _ in range(n)]
    for i in range(n):
        for j in range(n):
            if i == j:
                A[i][j] = r.range(-3, 3) if unit else r.choice([1, -1]) * (1 << r.below(4))
            elif (j > i) == upper:
                A[i][j] = small(r, 3, dens)
            else:
                A[i][j] = r.range(-9, 9)       # garbage
    if singular and not unit and n > 0:
        k = r.below(n); A[k][k] = 0
    return A


def tri_part(A, upper, unit):
    n = len(A)
    return [[(1 if unit else A[i][j]) if i == j else (A[i][j] if (j > i) == upper else 0) for j in range(n)] for i in range(n)]


def sparse_vec(r, n):
    k = r.below(4)
    v = [0] * n
    if n == 0 or k == 0:
        return v
    if k == 1:
        v[r.below(n)] = r.choice([-4, -1, 1, 2, 8])
    elif k == 2:
        z = r.below(n)
        v = [0] * z + [r.range(-5, 5) for _ in range(n - z)]
    else:
        z = r.below(n)
        v = [r.range(-5, 5) for _ in range(n - z)] + [0] * z
    return v


def gen_trsv(r, n, tol=False):
    upper, unit, left = r.chance(1, 2), r.chance(1, 3), r.chance(1, 2)
    oa = r.choice("rc")
    singular = (not tol) and r.chance(1, 25)
    A = gen_tri_matrix(r, n, upper, unit, singular)
    T = tri_part(A, upper, unit)
    x0 = [r.range(-4, 4) for _ in range(n)]
    mode = r.below(8)
    if mode < 5:
        b = mv(T if left else tr(T), x0)
    elif mode == 5:
        b = [r.range(-5, 5) for _ in range(n)]
    else:
        b = sparse_vec(r, n)      # zero-skipping branches of the kernels: leading / trailing zeros, unit vectors
    line = f"trsv {'u' if upper else 'l'} {'u' if unit else 'n'} {'L' if left else 'R'} {oa} {n} {emit(A)} {emitv(b)}"
    return dict(op=line, kind="exact", n=n, name="trsv", cfg=f"{'u' if upper else 'l'}{'u' if unit else 'n'}{'L' if left else 'R'}{oa}",
                singular=singular and not unit)


def gen_trsm(r, n, m, upper=None, unit=None, left=None, consistent=False):
    upper = r.chance(1, 2) if upper is None else upper
    unit = r.chance(1, 3) if unit is None else unit
    left = r.chance(1, 2) if left is None else left
    oa, ob = r.choice("rc"), r.choice("rc")
    singular = (not consistent) and r.chance(1, 30)
    A = gen_tri_matrix(r, n, upper, unit, singular)
    T = tri_part(A, upper, unit)
    if left:
        X0 = [[r.range(-3, 3) for _ in range(m)] for _ in range(n)]
        B = mm(T, X0)
    else:
        X0 = [[r.range(-3, 3) for _ in range(n)] for _ in range(m)]
        B = mm(X0, T)
    if consistent:
        pass
    elif r.chance(1, 5):
        B = [[r.range(-5, 5) for _ in row] for row in B]
    elif r.chance(1, 5):
        vs = [sparse_vec(r, n) for _ in range(m)]
        B = tr(vs) if left else vs
    line = f"trsm {'u' if upper else 'l'} {'u' if unit else 'n'} {'L' if left else 'R'} {oa} {ob} {n} {m} {emit(A)} {emit(B)}"
    return dict(op=line, kind="exact", n=n, name="trsm", cfg=f"{'u' if upper else 'l'}{'u' if unit else 'n'}{'L' if left else 'R'}{oa}{ob}",
                singular=singular and not unit and m > 0)


def int_chol_factor(r, n, lim=2):
    """integer lower-triangular L with power-of-two diagonal"""
    dens = r.choice([1, 2, 3])
    return [[(1 << r.below(4)) if i == j else (small(r, lim, dens) if j < i else 0) for j in range(n)] for i in range(n)]


def sym_garbage(r, A, keep_upper):
    """overwrite the triangle that the kernel must not read"""
    n = len(A)
    G = [row[:] for row in A]
    for i in range(n):
        for j in range(n):
            if i != j and ((j > i) != keep_upper):
                G[i][j] = A[i][j] + r.range(1, 5)
    return G


def gen_potrf(r, n, notpd=False):
    upper, oa = r.chance(1, 2), r.choice("rc")
    L = int_chol_factor(r, n)
    A = mm(L, tr(L))
    if notpd and n > 0:
        # make the leading minor k+1 fail: lower A[k][k] to (sum of squares of the row before the diagonal) - d, d >= 0
        k = r.below(n)
        d = r.choice([0, 0, 1, 5])
        A[k][k] = sum(L[k][c] ** 2 for c in range(k)) - d
    if r.chance(1, 2):
        A = sym_garbage(r, A, upper)
    line = f"potrf {'u' if upper else 'l'} {oa} {n} {emit(A)}"
    return dict(op=line, kind="exact", n=n, name="potrf", cfg=f"{'u' if upper else 'l'}{oa}" + ("-notpd" if notpd else ""))


def float_factor(r, n, cols=None, bits=8):
    """well-conditioned dyadic lower-trapezoidal factor with entries k/2^bits: diagonal in [1,2], off-diagonal small"""
    cols = n if cols is None else cols
    one = 1 << bits
    L = [[0] * cols for _ in range(n)]
    for i in range(n):
        for j in range(min(i + 1, cols)):
            L[i][j] = one + r.below(one) if i == j else r.range(-one, one) // max(2, n // 2)
    return L


def float_spd(r, n, bits=8):
    """well-conditioned SPD matrix with dyadic entries that is NOT of the form L L^T with dyadic L
    (so that roots and quotients are inexact): A = M M^T + n I, M dense with entries in [-1,1]; scale 2^(2 bits)"""
    one = 1 << bits
    M = [[r.range(-one, one) for _ in range(n)] for _ in range(n)]
    A = mm(M, tr(M))
    for i in range(n):
        A[i][i] += n * one * one
    return A, 2 * bits


def gen_potrf_float(r, n):
    upper, oa = r.chance(1, 2), r.choice("rc")
    A, s = float_spd(r, n)
    line = f"potrf {'u' if upper else 'l'} {oa} {n} {emit(A, s)}"
    return dict(op=line, kind="tol", n=n, name="potrf", cfg=f"{'u' if upper else 'l'}{oa}-float")


def lu_factors(r, n):
    """L unit lower with entries in {0, ±1/4, ±1/2} (scale 4: ints in {0,±1,±2}, diagonal 4),
    U upper with ±2^k diagonal (k=2..4): partial pivoting has a unique maximum in every column"""
    dens = r.choice([1, 2, 3])
    L4 = [[4 if i == j else (small(r, 2, dens) if j < i else 0) for j in range(n)] for i in range(n)]
    U = [[r.choice([1, -1]) * (1 << r.range(2, 4)) if i == j else (small(r, 3, dens) if j > i else 0) for j in range(n)] for i in range(n)]
    return L4, U


def gen_lu_matrix(r, n):
    """A = Pi^T L U with scale 4 (entries are multiples of 1/4)"""
    L4, U = lu_factors(r, n)
    A4 = mm(L4, U)
    return perm_rows(A4, rand_perm(r, n)), 2


def gen_lu_ties(r, n):
    """A = Pi^T L U with multipliers in {0, +-1}: the pivot search meets ties (equal absolute values) in the
    first column at least; non-singular by construction (det = prod U_ii)"""
    L = [[1 if i == j else (r.choice([0, 1, -1]) if j < i else 0) for j in range(n)] for i in range(n)]
    U = [[r.choice([1, -1]) * (1 << r.range(0, 3)) if i == j else (small(r, 3, 2) if j > i else 0) for j in range(n)] for i in range(n)]
    return perm_rows(mm(L, U), rand_perm(r, n)), 0


def gen_getrf(r, n, singular=False, ties=False):
    oa = r.choice("rc")
    A, s = gen_lu_ties(r, n) if ties else gen_lu_matrix(r, n)
    if singular and n > 0:
        k = r.below(n)
        for i in range(n): A[i][k] = 0
    line = f"getrf {oa} {n} {emit(A, s)}"
    return dict(op=line, kind="exact", n=n, name="getrf", cfg=oa + ("-singular" if singular else "") + ("-ties" if ties else ""))


def pstrf_matrix(r, n, rank):
    """PSD integer matrix of the given rank on which pivoted Cholesky stays exact:
    A = Pi (L L^T) Pi^T, L n x rank; the first `rank` rows form groups with equal diagonal 2^e
    (e decreasing from group to group, >= 4), coupled only to earlier groups by entries in {-1,0,1};
    the remaining rows have entries in {-1,0,1}.  The running diagonal maximum is then always a
    power of four attained inside the current group."""
    L = [[0] * rank for _ in range(n)]
    ngroups = r.range(1, min(8, rank)) if rank > 0 else 0
    cuts = sorted({r.below(rank) for _ in range(ngroups - 1)} | {0}) if rank > 0 else []
    group = [0] * rank
    for t in range(rank):
        group[t] = sum(1 for c in cuts if c <= t) - 1
    ng = len(cuts)
    for t in range(rank):
        e = 4 + (ng - 1 - group[t])
        L[t][t] = 1 << e
        for c in range(t):
            if group[c] < group[t]:
                L[t][c] = small(r, 1, 2)
    for i in range(rank, n):
        for c in range(rank):
            L[i][c] = small(r, 1, 2)
    A = mm(L, tr(L)) if rank > 0 else [[0] * n for _ in range(n)]
    p = rand_perm(r, n)
    return [[A[p[i]][p[j]] for j in range(n)] for i in range(n)]


def gen_pstrf(r, n, rank=None):
    upper, oa = r.chance(1, 2), r.choice("rc")
    if rank is None:
        rank = r.choice([n, n, r.range(0, n), r.range(0, n), max(0, n - 1), min(n, 1)])
    A = pstrf_matrix(r, n, rank)
    line = f"pstrf {'u' if upper else 'l'} {oa} {n} {emit(A)}"
    return dict(op=line, kind="exact", n=n, name="pstrf", cfg=f"{'u' if upper else 'l'}{oa}-def{n - rank if n - rank < 3 else '3+'}", rank=rank)


def float_psd(r, n, rank, bits=8):
    one = 1 << bits
    M = [[r.range(-one, one) for _ in range(rank)] for _ in range(n)]
    A = mm(M, tr(M)) if rank else [[0] * n for _ in range(n)]
    if rank == n:
        for i in range(n): A[i][i] += n * one * one
    return A, 2 * bits


def float_general(r, n, bits=8):
    """well-conditioned general matrix: random entries in [-1,1] plus a dominant, randomly row-permuted diagonal"""
    one = 1 << bits
    A = [[r.range(-one, one) for _ in range(n)] for _ in range(n)]
    for i in range(n):
        A[i][i] += r.choice([1, -1]) * (n + 1) * one
    return perm_rows(A, rand_perm(r, n)), bits


def rhs_for(r, A, sA, n, m, left, vec, exact_from=None):
    """right-hand side B = A X0 (left) / X0 A (right) for small integer X0, or random small integers"""
    if vec:
        x0 = [r.range(-3, 3) for _ in range(n)]
        b = mv(A if left else tr(A), x0)
        return emitv(b, sA)
    if left:
        X0 = [[r.range(-3, 3) for _ in range(m)] for _ in range(n)]
        B = mm(A, X0)
    else:
        X0 = [[r.range(-3, 3) for _ in range(n)] for _ in range(m)]
        B = mm(X0, A)
    return emit(B, sA)


# ---- well-conditioned exact systems (for the lazily consumed forms r/j, which go through rows of the
# explicit inverse and are therefore only forward stable: residual <= eps * cond)
def wc_tri_matrix(r, n, upper, unit):
    """triangular system with a dominant power-of-two diagonal (8..32) and at most two entries +-1 per row;
    for unit tags the stored diagonal is garbage and the off-diagonal entries are dyadic (+-1/4)"""
    A = [[r.range(-9, 9) for _ in range(n)] for _ in range(n)]
    for i in range(n):
        A[i][i] = r.range(-3, 3) if unit else r.choice([1, -1]) * (1 << r.range(3, 5))
        cand = [j for j in range(n) if j != i and (j > i) == upper]
        for j in cand:
            A[i][j] = 0
        for _ in range(min(2, len(cand))):
            A[i][r.choice(cand)] = r.choice([1, -1])
    return A, 0


def wc_chol_factor(r, n):
    L = [[0] * n for _ in range(n)]
    for i in range(n):
        L[i][i] = 1 << r.range(2, 4)
        for _ in range(min(2, i)):
            L[i][r.below(i)] = r.choice([1, -1])
    return L


def wc_lu_matrix(r, n):
    """A = Pi^T L U, scale 4: L unit lower with at most two entries +-1/4 per row, U upper with diagonal
    +-16..64 and at most two entries +-1 per row"""
    L4 = [[4 if i == j else 0 for j in range(n)] for i in range(n)]
    U = [[0] * n for _ in range(n)]
    for i in range(n):
        for _ in range(min(2, i)):
            L4[i][r.below(i)] = r.choice([1, -1])
        U[i][i] = r.choice([1, -1]) * (1 << r.range(4, 6))
        for _ in range(min(2, n - 1 - i)):
            U[i][r.range(i + 1, n - 1)] = r.choice([1, -1])
    return perm_rows(mm(L4, U), rand_perm(r, n)), 2


def float_tri(r, n, upper, unit, bits=8):
    """well-conditioned dyadic triangular system (row sums of the off-diagonal part below 1/2 of the diagonal)"""
    one = 1 << bits
    A = [[r.range(-9 * one, 9 * one) for _ in range(n)] for _ in range(n)]
    for i in range(n):
        for j in range(n):
            if i == j:
                A[i][j] = r.range(-3 * one, 3 * one) if unit else r.choice([1, -1]) * (one + r.below(one))
            elif (j > i) == upper:
                A[i][j] = r.range(-one, one) // max(2, n)
    return A, bits


FORMS_ANY = "siabkexy"       # every right-hand side kind (a b: += forms, k: -= form; x, y: explicit inverse evaluated as a matrix)
FORMS_MAT = "rjpqmn"         # lazily consumed matrix solves: matrix right-hand sides only
FORMS_TRANS = "tcl"          # trans(solve), column(solve,k), e_i % solve: only where the transpose rewrite compiles
FORMS_TRANS_ANY = "u"        # trans(inv(At, tag^T)) % B / B % trans(inv(..)): every right-hand side kind, same condition
TAGS = ["spd", "semi", "lu", "tl", "tu", "tul", "tuu"]


def gen_solve(r, n, tag=None, tol=False, form=None, left=None, K=None):
    tag = tag or r.choice(["spd", "spd", "semi", "semi", "lu", "lu", "tl", "tu", "tul", "tuu"])
    left = r.chance(1, 2) if left is None else left
    oa = r.choice("rc")
    if K is None:
        K = r.choice("rc") if (form is not None and form in FORMS_MAT + FORMS_TRANS) else r.choice(["v", "v", "r", "c"])
    if form is None:
        form = r.choice("ssii" + FORMS_ANY) if K == "v" else r.choice("ssii" + FORMS_ANY + FORMS_MAT + FORMS_MAT)
    m = 1 if K == "v" else r.choice([1, 2, 3, 5, 17])
    # forms that go through rows / columns of the explicit inverse (r j x y; p q from the right: X e_k = B (A^-1 e_k))
    # are forward stable only: generated on well-conditioned systems, where the 1e-9 residual bound is sound
    wc = form in "rjpqxylcu"   # c from the right = B times rows of the inverse, like l from the left
    if wc and tag == "semi":
        n = min(n, 24)
    s = 0
    extra = ""
    if tag == "spd":
        if tol:
            A, s = float_spd(r, n)
        else:
            L = wc_chol_factor(r, n) if wc else int_chol_factor(r, n); A = mm(L, tr(L))
    elif tag == "semi":
        if tol:
            rank = r.choice([n, r.range(1, n)]); A, s = float_psd(r, n, rank)
        else:
            rank = r.choice([n, n, r.range(0, n), max(0, n - 1)]); A = pstrf_matrix(r, n, rank)
        extra = f"-def{min(n - rank, 3)}"
    elif tag == "lu":
        A, s = float_general(r, n) if tol else (wc_lu_matrix(r, n) if wc else gen_lu_matrix(r, n))
    else:
        upper, unit = tag in ("tu", "tuu"), tag in ("tul", "tuu")
        if tol:
            A, s = float_tri(r, n, upper, unit)
        elif wc:
            A, s = wc_tri_matrix(r, n, upper, unit)
            if unit:
                s = 2      # the implicit diagonal is 1: read all entries as quarters (off-diagonal +-1/4)
        else:
            A = gen_tri_matrix(r, n, upper, unit)
        T = tri_part(A, upper, unit)
        if s and unit:
            T = [[(1 << s) if i == j else T[i][j] for j in range(n)] for i in range(n)]
    Aeff = T if tag.startswith("t") else A
    if r.chance(1, 12):
        # zero right-hand side / zero columns (the solution is zero; every solver must return it, not NaN)
        zc = [r.chance(1, 2) for _ in range(m)]
        if K == "v" or not any(zc):
            B = " ".join("0" for _ in range(n * m))
        elif left:
            B = " ".join("0" if zc[k] else str(r.range(-5, 5)) for i in range(n) for k in range(m))
        else:
            B = " ".join("0" if zc[k] else str(r.range(-5, 5)) for k in range(m) for i in range(n))
    elif tol or (tag == "semi" and rank < n) or r.chance(1, 6):
        cnt = n * m
        B = " ".join(str(r.range(-5, 5)) for _ in range(cnt))
    else:
        B = rhs_for(r, Aeff, s, n, m, left, K == "v")
    line = f"solve {tag} {'L' if left else 'R'} {oa} {K} {form} {n} {m} {emit(A, s)} {B}"
    return dict(op=line, kind="tol" if tol else "exact", n=n, name="solve", form=form,
                cfg=f"{tag}{extra}:{'L' if left else 'R'}{oa}{K}{form}" + ("-float" if tol else ""))


def gen_decomp(r, n, tol=False):
    """one decomposition object serving several solve requests (all four side / rhs-kind combinations in random order)"""
    cls = r.choice(["chol", "chold", "lu", "semi", "semi"] + (["eig", "eigd"] if tol else []))
    oa = r.choice("rc")
    s = 0
    if cls in ("chol", "chold", "eig", "eigd"):
        if tol:
            A, s = float_spd(r, n)
        else:
            L = int_chol_factor(r, n); A = mm(L, tr(L))
            if r.chance(1, 2):
                A = sym_garbage(r, A, False)        # only the lower triangle may be read
    elif cls == "lu":
        A, s = float_general(r, n) if tol else gen_lu_matrix(r, n)
    else:
        if tol:
            rank = r.choice([n, r.range(1, n)]); A, s = float_psd(r, n, rank)
        else:
            rank = r.choice([n, r.range(0, n), max(0, n - 1)]); A = pstrf_matrix(r, n, rank)
    q = r.range(2, 5)
    Asym = [[A[i][j] if j <= i else A[j][i] for j in range(n)] for i in range(n)] if cls in ("chol", "chold", "eig", "eigd") else A
    reqs = []
    for _ in range(q):
        left = r.chance(1, 2); K = r.choice("vrc"); m = 1 if K == "v" else r.choice([1, 2, 3, 5])
        if tol or cls == "semi" or r.chance(1, 5):
            B = " ".join(str(r.range(-5, 5)) for _ in range(n * m))
        else:
            B = rhs_for(r, Asym, s, n, m, left, K == "v")
        reqs.append(f"{'L' if left else 'R'} {K} {m} {B}")
    line = f"decomp {cls} {oa} {n} {q} {emit(A, s)} {' '.join(reqs)}"
    return dict(op=line, kind="tol" if tol else "exact", n=n, name="decomp", cfg=f"{cls}:{oa}:q{q}" + ("-float" if tol else ""))


# ---- rank-one updates of a Cholesky factor
V_CLASSES = ["dense", "lead0", "unit", "trail0", "inner0", "zero", "colL", "colL-singular", "indef"]
ALPHAS_EXACT = ["1", "4", "1/4", "16", "1/16", "9/4", "9"]
ALPHAS_TOL = ["1", "4", "1/4", "2", "3/2", "7/10", "13/10", "9/10"]


def gen_cholseq(r, n, tol=False, vclass=None, alpha=None, k=None):
    """cholesky_decomposition(A), k updates (alpha_t, beta_t, v_t) on the same object, then a solve.
    Vector classes: dense; leading / trailing / interior zeros; unit vectors; the zero vector; a scaled
    column of the factor (the update then stays exact: new factor = old with one column rescaled);
    the same with alpha + beta t^2 = 0 (exactly singular target: must throw); a large downdate (must throw)."""
    oa = r.choice("rc")
    k = k or r.choice([1, 1, 2, 3, 5])
    one = 256
    if tol:
        A, s = float_spd(r, n); L = None
    else:
        L = int_chol_factor(r, n, lim=2); A = mm(L, tr(L)); s = 0
        if r.chance(1, 2):
            A = sym_garbage(r, A, False)
    ups, classes = [], []
    for t in range(k):
        vc = vclass if (vclass and t == 0) else r.choice(V_CLASSES[:7] * 3 + V_CLASSES[7:])
        if tol and vc.startswith("colL"):
            vc = "lead0"
        if vc in ("colL-singular", "indef") and t + 1 < k:
            vc = "lead0"           # throwing updates only as the last one
        al = alpha if (alpha and t == 0) else r.choice(ALPHAS_TOL if tol else ALPHAS_EXACT)
        be = r.choice(["1", "1/2", "3", "0", "-1/8", "-1/2", "5", "3/4", "2"])
        ent = (lambda: fmt(r.range(-one, one) or 1, 8)) if tol else (lambda: str(r.choice([-3, -2, -1, 1, 2, 3])))
        v = ["0"] * n
        if vc == "dense":
            v = [ent() for _ in range(n)]
        elif vc == "lead0":
            z = r.range(1, n - 1) if n > 1 else 0
            v = ["0"] * z + [ent() for _ in range(n - z)]
        elif vc == "unit":
            i = r.below(n) if r.chance(1, 4) else r.range(min(1, n - 1), n - 1)
            v[i] = ent()
        elif vc == "trail0":
            z = r.range(1, n - 1) if n > 1 else 0
            v = [ent() for _ in range(n - z)] + ["0"] * z
        elif vc == "inner0":
            v = [ent() if r.chance(1, 2) else "0" for _ in range(n)]
        elif vc == "zero":
            pass
        elif vc in ("colL", "colL-singular"):
            # v = t * (column c of the CURRENT factor) is only known for the first update: use the initial factor and
            # alpha + beta t^2 a square (resp. zero)
            c = r.below(n)
            if vc == "colL":
                al, be, tt = r.choice([("1", "3", 1), ("4", "5", 1), ("1/4", "2", 1), ("1", "-3/4", 1), ("1", "2", 2), ("4", "3", 2), ("16", "9", 1)])
            else:
                al, be, tt = r.choice([("1", "-1", 1), ("4", "-1", 2), ("1/4", "-1/4", 1), ("1", "-1/4", 2)])
            if t > 0:      # later updates: the current factor is not known here; fall back to leading zeros
                v = ["0"] * (n - 1) + [ent()]
                vc = "lead0"
            else:
                v = [str(tt * L[i][c]) for i in range(n)]
        elif vc == "indef":
            v = [ent() for _ in range(n)]
            be = "-4096" if not tol else "-64"
        ups.append(f"{al} {be} {' '.join(v)}")
        classes.append(vc)
    S = r.choice("LRN")
    b = "" if S == "N" else " " + " ".join(str(r.range(-5, 5)) for _ in range(n))
    line = f"cholseq {oa} {n} {k} {emit(A, s)} {' '.join(ups)} {S}{b}"
    a1 = ups[0].split()[0]
    return dict(op=line, kind="tol" if tol else "exact", n=n, name="cholseq",
                cfg=f"{oa}:k{k}:{classes[0]}:a{'1' if a1 == '1' else 'x'}" + ("-float" if tol else ""), vclasses=classes)



# ---- conjugate gradient: the one system tag with state (epsilon, max_iterations)
CG_EPS_TIGHT = ["1/1000000000000", "1/10000000000000"]                  # below the default 1e-10
CG_EPS_ANY = CG_EPS_TIGHT + ["1/100000000", "1/1024", "1/10000000000", "1/1000000"]


def cg_spd(r, n, shift=None, bits=8):
    """symmetric positive definite A = M M^T + shift I (dyadic entries, scale 2^(2 bits)); the shift sets the condition
    number: about 1 + 4n/(3 shift)"""
    one = 1 << bits
    M = [[r.range(-one, one) for _ in range(n)] for _ in range(n)]
    A = mm(M, tr(M))
    shift = shift or r.choice([n, max(1, n // 4), 1])
    for i in range(n):
        A[i][i] += shift * one * one
    return A, 2 * bits, shift


def gen_cg(r, n, form=None, left=None, K=None, eps=None, maxit=None, tforms=True):
    """solve with conjugate_gradient(eps, maxit) in one of the forms; right-hand sides are dyadic with row and column
    1-norms <= 1 (the residual of the product forms is then bounded by eps as well), zero columns with probability 1/10"""
    left = r.chance(1, 2) if left is None else left
    oa = r.choice("rc")
    allmat = FORMS_ANY + FORMS_MAT + (FORMS_TRANS + FORMS_TRANS_ANY if tforms else "")
    allvec = FORMS_ANY + (FORMS_TRANS_ANY if tforms else "")
    if K is None:
        K = r.choice("rc") if (form is not None and form not in allvec) else r.choice(["v", "v", "r", "c"])
    if form is None:
        form = r.choice(allvec if K == "v" else allmat)
    m = 1 if K == "v" else r.choice([1, 2, 3, 5])
    A, s, shift = cg_spd(r, n)
    eps = eps or r.choice(CG_EPS_ANY)
    maxit = r.choice([0, 0, 1, 2, 3, n]) if maxit is None else maxit
    sb = 8 + max(n, m).bit_length()
    rows, cols = (n, m) if (left or K == "v") else (m, n)
    zc = [r.chance(1, 10) for _ in range(m)]
    def ent(i, j):
        k = 0 if K == "v" else (j if left else i)
        return 0 if zc[k] else r.range(-256, 256)
    B = [[ent(i, j) for j in range(cols)] for i in range(rows)]
    line = f"solve cg:{eps}:{maxit} {'L' if left else 'R'} {oa} {K} {form} {n} {m} {emit(A, s)} {emit(B, sb)}"
    kind = "eps-tight" if (maxit == 0 and eps in CG_EPS_TIGHT) else ("eps" if maxit == 0 else ("limit" if maxit < n else "limit-n"))
    return dict(op=line, kind="tol", n=n, name="cg", form=form, rel=True,
                cfg=f"{'L' if left else 'R'}{oa}{K}{form}:{kind}:cond{'lo' if shift == n else ('mid' if shift > 1 else 'hi')}")


def gen_oracle_only(r, n):
    """conjugate gradient and symmetric eigendecomposition: residual oracle only"""
    if r.chance(1, 2):
        return gen_cg(r, n)
    return gen_syev(r, n)


def gen_syev(r, n, cls=None):
    """symmetric eigendecomposition; classes: dense; repeated eigenvalues (block-diagonal copies); diagonal;
    zero matrix; identity multiple; rank one; tridiagonal"""
    oa = r.choice("rc")
    one = 256
    cls = cls or r.choice(["dense", "dense", "repeated", "diagonal", "zero", "identity", "rank1", "tridiagonal"])
    A = [[0] * n for _ in range(n)]
    if cls == "dense":
        M = [[r.range(-one, one) for _ in range(n)] for _ in range(n)]
        A = [[M[i][j] + M[j][i] for j in range(n)] for i in range(n)]
    elif cls == "repeated":
        h = max(1, n // 2)
        M = [[r.range(-one, one) for _ in range(h)] for _ in range(h)]
        for i in range(n):
            for j in range(n):
                if i // h == j // h and i // h < 2:
                    A[i][j] = M[i % h][j % h] + M[j % h][i % h]
    elif cls == "diagonal":
        for i in range(n):
            A[i][i] = r.choice([0, one, -one, 2 * one, r.range(-one, one)])
    elif cls == "identity":
        c = r.choice([one, -3 * one, one // 2])
        for i in range(n):
            A[i][i] = c
    elif cls == "rank1":
        u = [r.range(-16, 16) for _ in range(n)]
        A = [[u[i] * u[j] for j in range(n)] for i in range(n)]
    elif cls == "tridiagonal":
        for i in range(n):
            A[i][i] = r.range(-one, one)
            if i + 1 < n:
                A[i][i + 1] = A[i + 1][i] = r.range(-one, one)
    return dict(op=f"syev {oa} {n} {emit(A, 8)}", kind="tol", n=n, name="syev", cfg=f"{oa}:{cls}")


def load_corpus():
    d = os.path.join(core.VERIF, "corpus", "C02")
    out = []
    if os.path.isdir(d):
        for fn in sorted(os.listdir(d)):
            for l in open(os.path.join(d, fn)):
                l = l.strip()
                if l and not l.startswith("#"):
                    t = l.split()
                    iscg = t[0] == "solve" and t[1].startswith("cg:")
                    out.append(dict(op=l, kind="tol" if iscg else "corpus", rel=iscg, n=0, name="cg" if iscg else t[0],
                                    cfg="corpus:" + fn, singular=False))
    return out


def sizes(ctx, r, k):
    """sizes for one generator: quick = boundary sizes subsampled + random ones; thorough = all 1..70"""
    if ctx.quick:
        s = [1, 2, 3] + [r.choice(BOUNDARY[3:]) for _ in range(k)] + [r.range(1, 70) for _ in range(k)]
    else:
        s = list(range(1, 71)) + BOUNDARY * 2
    return s


def gen_cases(ctx):
    r = ctx.rng.fork("c02")
    q = ctx.quick
    cases = []
    for n in sizes(ctx, r, 12 if q else 0):
        cases.append(gen_trsv(r, n))
        cases.append(gen_trsv(r, n))
    for n in sizes(ctx, r, 10 if q else 0):
        m = r.choice([1, 2, 3, 15, 16, 17, 33]) if r.chance(1, 2) else r.range(1, 40)
        cases.append(gen_trsm(r, n, m))
    # the blocked recursions (block 32): second level from n = 65 (a split with start > 0), third from n = 129 --
    # every triangular tag x side at such sizes on every run (a seeded change manifests only for lower-left /
    # upper-right at n >= 65), consistent right-hand sides so that the comparison stays exact
    for upper in (False, True):
        for unit in (False, True):
            for left in (True, False):
                for n in ([r.range(65, 70), r.choice([97, 129, 131])] if q else [65, 66, 70, 96, 97, 129, 131, 160]):
                    cases.append(gen_trsm(r, n, r.choice([1, 2, 3, 17]), upper=upper, unit=unit, left=left, consistent=True))
    for n in ([r.range(65, 70), 97] if q else [65, 66, 70, 96, 97, 129, 131]):
        cases.append(gen_potrf(r, n))
        cases.append(gen_potrf(r, n, notpd=True))
    for n in sizes(ctx, r, 8 if q else 0):
        cases.append(gen_potrf(r, n))
        if r.chance(1, 3):
            cases.append(gen_potrf(r, n, notpd=True))
    for n in sizes(ctx, r, 3 if q else 0):
        if n <= 40:
            cases.append(gen_potrf_float(r, n))
    for n in sizes(ctx, r, 8 if q else 0):
        cases.append(gen_getrf(r, n, singular=r.chance(1, 15)))
    for n in ([2, 3, 4, 5, 7, 9, 12] if q else list(range(2, 13)) * 3):
        cases.append(gen_getrf(r, n, ties=True))
    for n in sizes(ctx, r, 8 if q else 0):
        cases.append(gen_pstrf(r, n))
        if not q:
            cases.append(gen_pstrf(r, n, rank=r.range(0, n)))
    if not q:
        # every rank deficiency 0..n-1 for a spread of sizes
        for n in [1, 2, 3, 5, 8, 13, 19, 20, 21, 27, 33, 41, 50, 64, 70]:
            for rank in range(0, n + 1):
                cases.append(gen_pstrf(r, n, rank=rank))
    else:
        n = r.choice([6, 9, 12, 21, 23])
        for rank in range(0, n + 1):
            cases.append(gen_pstrf(r, n, rank=rank))
    for n in sizes(ctx, r, 25 if q else 0) * (1 if q else 3):
        cases.append(gen_solve(r, n))
    # every form of writing / consuming the solve expression x every system tag x both sides, on every run
    tforms = (FORMS_TRANS + FORMS_TRANS_ANY) if trans_forms_available(ctx) else ""
    ctx.cov["transposed_solve_forms"] = (f"exercised (t c l u), probe level {trans_forms_level(ctx)}" if tforms
                                         else "not instantiable in this tree (compile probe): not exercised")
    # conjugate gradient with NON-DEFAULT parameters in every form x both sides x vector / matrix right-hand side:
    # a tolerance below the default on systems that need > 15 passes (the residual must reach the requested level),
    # iteration limits 1..3 (the result must be that iterate), any tolerance on small systems (compared with the exact model)
    for form in FORMS_ANY + FORMS_MAT + tforms:
        for left in (True, False):
            for K in (["v"] if False else (["v", r.choice("rc")] if form in FORMS_ANY + FORMS_TRANS_ANY else [r.choice("rc")])):
                for rep in range(1 if q else 3):
                    cases.append(gen_cg(r, r.range(20, 36), form=form, left=left, K=K, eps=r.choice(CG_EPS_TIGHT), maxit=0, tforms=bool(tforms)))
                    cases.append(gen_cg(r, r.range(3, 10) if rep == 0 else r.range(11, 40), form=form, left=left, K=K, maxit=r.choice([1, 2, 3]), tforms=bool(tforms)))
                    cases.append(gen_cg(r, r.choice([1, 2, 3, 4, 5, 6, 7, 8]), form=form, left=left, K=K, maxit=r.choice([0, 0, 0, 8]), tforms=bool(tforms)))
    for form in FORMS_ANY + FORMS_MAT + tforms:
        for tag in TAGS:
            for left in (True, False):
                n = r.choice([2, 3, 4, 5, 6, 7, 9, 12])
                cases.append(gen_solve(r, n, tag=tag, form=form, left=left))
                if not q:
                    cases.append(gen_solve(r, r.choice(BOUNDARY[5:]), tag=tag, form=form, left=left))
                    cases.append(gen_solve(r, r.range(2, 40), tag=tag, form=form, left=left, tol=True))
        if q:
            for tag in TAGS:
                cases.append(gen_solve(r, r.range(2, 24), tag=tag, form=form, tol=True))
    for n in sizes(ctx, r, 6 if q else 0):
        if n <= 40:
            cases.append(gen_solve(r, n, tag=r.choice(TAGS), tol=True))
            cases.append(gen_oracle_only(r, n))
    # symmetric eigendecomposition: every matrix class
    for cls in ["dense", "repeated", "diagonal", "zero", "identity", "rank1", "tridiagonal"]:
        for n in ([1, 2, r.range(3, 12)] if q else [1, 2, 3, 5, 8, 13, 21, 34]):
            cases.append(gen_syev(r, n, cls))
    # decomposition objects serving several requests
    for n in sizes(ctx, r, 4 if q else 0):
        cases.append(gen_decomp(r, n))
        if n <= 40:
            cases.append(gen_decomp(r, n, tol=True))
    # rank-one updates: every vector class x (alpha = 1 / alpha != 1), exact and float, on every run; then sequences
    for vc in V_CLASSES:
        for alpha in (["1", "4", "1/4"] if q else ALPHAS_EXACT):
            for n in ([r.choice([2, 3, 4, 5]), r.range(6, 12)] if q else [2, 3, 5, 8, 17, 33]):
                cases.append(gen_cholseq(r, n, vclass=vc, alpha=alpha, k=1))
        for alpha in (["1", "7/10"] if q else ALPHAS_TOL):
            for n in ([r.choice([2, 3, 4, 5]), r.range(6, 24)] if q else [2, 3, 5, 8, 17, 33]):
                cases.append(gen_cholseq(r, n, tol=True, vclass=vc, alpha=alpha, k=1))
    for n in sizes(ctx, r, 5 if q else 0):
        if n <= 40:
            cases.append(gen_cholseq(r, n))
            cases.append(gen_cholseq(r, n, tol=True))
    return cases


# --------------------------------------------------------------------------- comparison
VAL_RE = re.compile(r" v=(.*)$")


def parse_line(line):
    """-> (head tokens, values as Fractions or None for nan/inf)"""
    m = VAL_RE.search(line)
    head = line[:m.start()] if m else line
    vals = []
    if m:
        t = m.group(1).split()
        i = 0
        while i < len(t):
            if "/" in t[i]:
                vals.append(Fraction(t[i])); i += 1
            elif t[i] in ("nan", "inf", "-inf"):
                vals.append(None); i += 1
            else:
                mant, e = int(t[i]), int(t[i + 1]); i += 2
                vals.append(Fraction(mant) * (Fraction(2) ** e))
    return head.split(), vals


def compare(case, impl, model, blas):
    """-> (status, detail). status in exact, inexact-equal, tol, oracle-only, MISMATCH, ORACLE"""
    if "!oracle" in impl:
        return "ORACLE", impl[impl.index("!oracle"):][:200]
    core_impl = impl
    m = re.search(r" ix=(\d)", core_impl)
    ix = int(m.group(1)) if m else 0
    core_impl = re.sub(r" ix=\d", "", core_impl)
    if blas:
        ix = 1          # FE flags of BLAS worker threads are not visible: never claim exact mode
    if model == "skip":
        return "oracle-only", ""
    approx = " approx" in model
    model = model.replace(" approx", "")
    if core_impl == model:
        return ("exact" if ix == 0 else "inexact-equal"), ""
    if ix == 0 and not approx:
        return "MISMATCH", "FE_INEXACT clear but C++ result differs from the exact model"
    # toleranced comparison
    hi, vi = parse_line(core_impl)
    hm, vm = parse_line(model)
    if hi[:1] != hm[:1]:
        return "MISMATCH", f"status differs: impl {hi[:2]} model {hm[:2]}"
    if case["kind"] != "tol":
        # ill-conditioning is possible: integer fields and values are left to the residual oracle
        return "oracle-only", ""
    if hi != hm:
        return "MISMATCH", f"integer fields differ: impl {hi} model {hm}"
    if len(vi) != len(vm):
        return "MISMATCH", f"value count differs: {len(vi)} vs {len(vm)}"
    if any(v is None for v in vi):
        return "MISMATCH", "nan/inf in C++ result"
    scale = max([abs(v) for v in vm] + [Fraction(1, 10 ** 30) if case.get("rel") else Fraction(1)])
    worst = max([abs(a - b) for a, b in zip(vi, vm)] + [Fraction(0)])
    if worst > Fraction(1, 10 ** 7) * scale:
        return "MISMATCH", f"toleranced comparison fails: max abs diff {float(worst):.3g} at scale {float(scale):.3g}"
    return "tol", ""


def run_lines(ctx, cmd, text, env=None, timeout=900):
    import subprocess
    e = dict(os.environ)
    e.setdefault("ASAN_OPTIONS", "detect_leaks=0:abort_on_error=0")
    e.setdefault("UBSAN_OPTIONS", "print_stacktrace=1")
    e["OPENBLAS_NUM_THREADS"] = "1"
    e["OMP_NUM_THREADS"] = "1"
    if env: e.update(env)
    try:
        p = subprocess.run(cmd, input=text, stdout=subprocess.PIPE, stderr=subprocess.PIPE, text=True,
                           errors="replace", timeout=timeout, env=e)
        return p.returncode, p.stdout.splitlines(), p.stderr[-3000:]
    except subprocess.TimeoutExpired:
        return -99, [], "TIMEOUT"


def correspond(ctx, name, cases, hcmd, dcmd, blas=False, model_lines=None):
    import time
    t = time.time()
    cases = [c for c in cases if not (blas and c.get("singular"))]
    text = "\n".join(c["op"] for c in cases) + "\n"
    rc, impl, err = run_lines(ctx, hcmd, text)
    if model_lines is None:
        mrc, model, merr = run_lines(ctx, dcmd, text)
        if mrc != 0 or len(model) != len(cases):
            ctx.broken("driver", name, f"driver rc={mrc} lines={len(model)}/{len(cases)} {merr[-500:]}")
            return None
    else:
        model = [model_lines[c["op"]] for c in cases]
    crashed_at = None
    if rc != 0 or len(impl) != len(cases):
        crashed_at = len(impl)
    fails = []
    for i, c in enumerate(cases):
        if i >= len(impl):
            break
        st, detail = compare(c, impl[i], model[i], blas)
        ctx.hist(f"modes[{name}]", st)
        ctx.hist(f"modes_by_op[{name}]", f"{c['name']}:{st}")
        if st in ("MISMATCH", "ORACLE"):
            fails.append((c, impl[i], model[i], st, detail, ""))
        if model[i] == "bad-op" or impl[i].startswith("bad-op"):
            fails.append((c, impl[i], model[i], "MISMATCH", "bad-op", ""))
    if crashed_at is not None and crashed_at < len(cases):
        c = cases[crashed_at]
        rc1, impl1, err1 = run_lines(ctx, hcmd, c["op"] + "\n", timeout=300)
        fails.append((c, (impl1 or ["<no output>"])[0], model[crashed_at], "CRASH", f"harness rc={rc1}", err1 if rc1 != 0 else err))
        # continue after the crashing case
        rest = cases[crashed_at + 1:]
        if rest:
            ml = {cc["op"]: mm_ for cc, mm_ in zip(cases, model)}
            correspond(ctx, name, rest, hcmd, dcmd, blas, ml)
    ctx.count("traces_validated_against_impl", len(cases))
    ctx.count("ops_compared", len(cases))
    seen = set()
    fails.sort(key=lambda f: len(f[0]["op"]))
    for c, il, ml, st, detail, err in fails:
        key = f"{st.lower()}:{c['name']}:{c['cfg']}" + (":cblas" if blas else "")
        kshort = classify_key(c, st, detail, il, blas)
        if not kshort.startswith("C02-"):
            kshort = f"{st.lower()}:{c['name']}:{detail.split()[1] if st == 'ORACLE' else ''}" + (":cblas" if blas else "")
        if kshort in seen:
            continue
        seen.add(kshort)
        what = f"{name}: {st} on `{c['op'][:160]}{'...' if len(c['op']) > 160 else ''}`: {detail}; impl `{il[:200]}` model `{ml[:200]}`"
        b = ctx.broken("correspondence", f"{name}:{key}", what); b["resolved"] = True
        replay = {"harness_cmd": hcmd, "driver_cmd": dcmd, "ops": [c["op"]], "impl_output": [il[:4000]], "model_output": [ml[:4000]],
                  "status": st, "detail": detail, "stderr_tail": err[-1500:], "blas": blas}
        ctx.violation(classify_key(c, st, detail, il, blas), replay, found_input=st in ("ORACLE", "CRASH"), what=what)
        if len(seen) >= 6:
            break
    ctx.log(f"{name}: {len(cases)} cases, {len(fails)} failing ({time.time()-t:.1f}s)")
    return model


def classify_key(c, st, detail, impl_line, blas):
    """stable keys for known findings"""
    t = c["op"].split()
    if t[0] == "potrf" and "nan" in impl_line and "info=0" in impl_line:
        return "C02-potrf-zero-pivot-accepted"
    if t[0] == "potrf" and "potrf-info" in impl_line and int(t[3]) > 32:
        return "C02-potrf-info-relative-to-block"
    if t[0] == "potrf" and "potrf-info" in impl_line and (t[1] == "u") == (t[2] == "r"):
        return "C02-potrf-zero-pivot-accepted"
    if t[0] == "pstrf" and all(x == "0" for x in t[4:]):
        return "C02-pstrf-zero-matrix"
    if t[0] == "solve" and t[1] == "semi" and all(x == "0" for x in t[8:8 + int(t[6]) ** 2]):
        return "C02-pstrf-zero-matrix"
    if t[0] == "solve" and t[1] == "cg" and "nan" in impl_line and cg_zero_rhs(t):
        return "C02-cg-zero-rhs-nan"
    return f"{st.lower()}:{c['name']}:{c['cfg']}" + (":cblas" if blas else "")


def cg_zero_rhs(t):
    """the listed defect C02-cg-zero-rhs-nan only: a cg solve that hands an exactly zero vector to the vector version of
    cg_solver::cg -- a zero vector right-hand side, or (forms p/q, left: solve(A, B e_k)) a zero column of B"""
    try:
        left, K, form, n, m = t[2] == "L", t[4], t[5], int(t[6]), int(t[7])
        rhs = t[8 + n * n:]
        zero = lambda x: Fraction(x) == 0
        if K == "v":
            return all(zero(x) for x in rhs[:n])
        if form in "pq" and left:
            return any(all(zero(rhs[i * m + k]) for i in range(n)) for k in range(m))
    except (ValueError, IndexError, ZeroDivisionError):
        pass
    return False


TRANS_PROBE = """#include <shark/LinAlg/BLAS/remora.hpp>
using namespace remora;
void c02_probe(matrix<double> const& A, MATB const& B, vector<double> const& v){
	matrix<double> X = trans(solve(A, B, lower(), left()));
	matrix<double> Y = trans(solve(A, B, indefinite_full_rank(), right()));
	auto const e = solve(A, B, symm_pos_def(), left());
	vector<double> c = column(e, 0);
	vector<double> r = v % solve(A, B, symm_semi_pos_def(), left());
	vector<double> q = v % solve(A, B, conjugate_gradient(), right());
}
"""


def trans_forms_level(ctx):
    """does `trans(solve(A,B,tag,side))` (and with it column(.,k), v % .) instantiate in this tree?  In the pinned tree
    matrix_transpose_optimizer<matrix_matrix_solve<..>> names a member no tag has.  A syntax-only compile of a 10-line
    probe decides (cached by the hash of the headers involved): 0 = no; 1 = only for A and B of the same type (a
    specialisation that builds both sub-optimisers from one operand type); 2 = for operands of different orientation too."""
    import subprocess
    inc = os.path.join(core.REPO, "include")
    hdr = "".join(core.file_sha(os.path.join(inc, "shark/LinAlg/BLAS", f)) for f in
                  ("solve.hpp", "decompositions.hpp", "detail/structure.hpp", "proxy_expressions.hpp", "detail/expression_optimizers.hpp"))
    key = core.sha(hdr + TRANS_PROBE)[:16]
    d = os.path.join(core.CACHE, "c02probe"); os.makedirs(d, exist_ok=True)
    res = os.path.join(d, key + ".level")
    if os.path.exists(res):
        return int(open(res).read().strip())
    level = 0
    for lv, matb in ((1, "matrix<double>"), (2, "matrix<double,column_major>")):
        src = os.path.join(d, f"{key}-{lv}.cpp")
        with open(src, "w") as f:
            f.write(TRANS_PROBE)
        p = subprocess.run(["g++", "-std=c++11", "-DNDEBUG", "-w", "-fsyntax-only", "-DMATB=" + matb, "-I" + inc, src],
                           stdout=subprocess.PIPE, stderr=subprocess.STDOUT, text=True)
        if p.returncode != 0:
            break
        level = lv
    with open(res, "w") as f:
        f.write(str(level))
    return level


def trans_forms_available(ctx):
    return trans_forms_level(ctx) > 0


def build(ctx):
    from concurrent.futures import ThreadPoolExecutor
    lv = trans_forms_level(ctx)
    extra = [f"-DC02_TRANS_FORMS={lv}"] if lv else []
    with ThreadPoolExecutor(max_workers=2) as ex:
        fa = ex.submit(ctx.harness, "c02", ["c02.cpp"], extra)
        fb = ex.submit(ctx.harness, "c02blas", ["c02.cpp"], ["-DC02_USE_SHARK_H"] + extra)
        return fa.result(), fb.result()


def run(ctx):
    ctx.trusted += ["correspondence harness harness/c02.cpp + generators checks/c02.py",
                    "hand-written model Model/LinSolve.lean (the remora kernels are modelled, not translated)",
                    "x86-64 SSE2 doubles, -ffp-contract=off, sticky FE_INEXACT (exact mode)",
                    "OpenBLAS/LAPACK bindings are observed through the residual oracle only"]
    ctx.assumptions += ["systems respect the documented preconditions (square, matching sizes; SPD / PSD / full rank as the tag says)",
                        "sqrt is a parameter r of the model with r s * r s = s and r s > 0 for s > 0"]
    translate(ctx)
    ctx.prove(PROOF_MODULES)
    if not ctx.quick:
        ctx.leanchecker(["SharkVerif.Props.C02"])
    exe, exeb = build(ctx)
    drv = ctx.driver("drv_c02")
    if not exe or not exeb or not drv:
        return
    corpus = load_corpus()
    ctx.cov["corpus_cases"] = len(corpus)
    cases = corpus + gen_cases(ctx)
    for c in cases:
        ctx.hist("op_mix", c["name"])
        ctx.hist("size_n", c["n"] if c["n"] < 4 else f"{c['n'] // 8 * 8}-{c['n'] // 8 * 8 + 7}")
        ctx.hist("config", f"{c['name']}:{c['cfg']}")
        ctx.hist("kind", c["kind"])
    for c in cases:
        if c["name"] == "cg" and c["op"].startswith("solve cg:"):
            t = c["op"].split()
            _, eps, mi = t[1].split(":")
            ctx.hist("cg_epsilon", eps)
            ctx.hist("cg_max_iterations", mi if int(mi) < 4 else ("n" if int(mi) == int(t[6]) else "4+"))
            ctx.hist("cg_form_side_rhs", f"{t[5]}{t[2]}{t[4]}")
            ctx.hist("cg_size", t[6] if int(t[6]) < 4 else f"{int(t[6]) // 8 * 8}-{int(t[6]) // 8 * 8 + 7}")
            nb = int(t[6]) * int(t[6])
            ctx.hist("cg_rhs", "zero" if all(x == "0" for x in t[8 + nb:]) else "nonzero")
    ctx.cov["evaluations"] = len(cases)
    ctx.cov["distinct_nontrivial"] = len({c["op"] for c in cases if c["n"] >= 2})
    for c in cases[len(corpus):len(corpus) + 3]:
        ctx.sample({"op": c["op"][:300]})
    model = correspond(ctx, "K-C02[default]", cases, [exe], [drv])
    if model is not None:
        ml = {c["op"]: m for c, m in zip(cases, model)}
        correspond(ctx, "K-C02[cblas]", cases, [exeb], [drv], blas=True, model_lines=ml)


def replay(ctx, rep):
    exe, exeb = build(ctx); drv = ctx.driver("drv_c02")
    cmd = [exeb if rep.get("blas") else exe]
    text = "\n".join(rep["ops"]) + "\n"
    rc, impl, err = run_lines(ctx, cmd, text)
    mrc, model, merr = run_lines(ctx, [drv], text)
    bad = rc != 0
    for op, a, b in zip(rep["ops"], impl, model):
        st, detail = compare(dict(op=op, kind="corpus"), a, b, bool(rep.get("blas")))
        print(f"op   : {op[:300]}\nimpl : {a[:600]}\nmodel: {b[:600]}\n=> {st} {detail}")
        bad = bad or st in ("MISMATCH", "ORACLE")
    print("stderr:", err[-2000:])
    print("FAILS" if bad else "OK")
    return 1 if bad else 0
