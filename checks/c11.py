"""C11 — evolution strategies: theorems (Props/C11.lean) about strategy-parameter formulas regenerated from the C++
(translate/cma_params.py -> Gen/CMAParams.lean) and about the models Model/CMA.lean, Model/ES.lean; correspondence K-C11 between
the models (driver drv_c11) and the real CMA, ElitistCMA, CMSA, VD-CMA, CrossEntropyMethod, SimplexDownhill; independent per-step oracle
on CMA, CMSA, ElitistCMA, VD-CMA, CrossEntropyMethod and SimplexDownhill (9 runs per case incl. a re-initialised used object and an
object used on another problem before), over the cross product of the configuration axes of every class' public interface (global / private
generator, every init overload, setters before / after init / in the middle of a run)."""
import os, re, struct, subprocess, time
from concurrent.futures import ThreadPoolExecutor
from vlib import core

REPO_SOURCES = ["src/Algorithms/DirectSearch/CMA.cpp", "src/Algorithms/DirectSearch/CMSA.cpp",
                "src/Algorithms/DirectSearch/ElitistCMA.cpp", "src/Algorithms/DirectSearch/CrossEntropyMethod.cpp",
                "src/Core/Random.cpp"]
LAKE_TARGETS = ["SharkVerif.Props.C11", "SharkVerif.Lemmas.CMACov", "drv_c11"]

TRUST = ("Lean 4.33 kernel; axioms at most propext/Classical.choice/Quot.sound (audited per run); strategy-parameter formulas regenerated from the C++ "
         "by translate/cma_params.py (T0), update rules hand-modelled and tied to the C++ by the correspondence harness (differential, generator-bounded); ")
MANIFEST = dict(
  text=("Theorems (Props/C11.lean) about executable models of the direct-search methods C11 names, for all dimensions, population sizes, recombination types, "
        "variate streams, objectives and numbers of steps. "
        "(1) Strategy parameters: the formulas of CMA::doInit, CMSA::doInit, VDCMA::init, the CMAChromosome constructor (ElitistCMA) and LMCMA::init are REGENERATED from the C++ on every run "
        "(Gen/CMAParams.lean) and proved admissible: doInit_admissible (end to end, for every n>=1, mu>=1, each recombination type, log strictly increasing: mu weights, positive, non-increasing in the rank, "
        "sum 1, mu_eff>=1, 0<c1<1, 0<cmu<=1-c1, 0<csigma<1, 0<cc<=1, dsigma>=1+csigma), cmsa_consts_admissible (cC>1, shrink factor 1-1/cC>0, the covariance update is a convex combination), "
        "ecma_consts_admissible (all six rates in range), vdcma_rates_of_correction + vdcma_correction_ok (admissible for every n>=1 since the repair of F14; vdcma_head_formula_not_positive records that the earlier formula was not positive for n<=5). "
        "(2) CMA-ES (Model/CMA.lean): rank_invariance (every order-preserving phi, same variate stream => same search distribution and reported points; key lemma on the stable merge sort), sigma_pos incl. the lower-bound clamp, "
        "cov_update_psd / cov_update_pd (Mathlib PosSemidef/PosDef over the reals), reported_value_is_f, deterministic. "
        "(3) Every comparison-based strategy (Model/ES.lean Strategy: sample, evaluate, stable-sort selection, update from the selected; instance: cross-entropy method): generic_rank_invariance, generic_value_is_f. "
        "(4) ElitistCMA::step with CMAChromosome::updateAsOffspring/updateAsParent: ecma_sigma_pos, ecma_pSucc_unit, ecma_elitist_monotone (real three-way success rule with the history of accepted values: the reported value never increases "
        "and the point changes only with it), active_update_admissible (the shortened unlearning rate keeps (1+r)-r|z|^2>0 for every z), ecma_factor_valid. "
        "(5) remora's Cholesky rank-one update (CMSA, ElitistCMA): cholUpdate_diag_pos / cholUpdate_valid (whenever the update returns, the factor has a positive diagonal again, for every alpha>0, any beta, any v), cmsa_factor_valid, cmsa_sigma_pos, cmsa_step_rank_invariant (selection on phi o f picks the same offspring; the update never reads the fitness). "
        "(5b) VD-CMA (Model/ES.lean vdUpdate = VDCMA::updateStrategyParameters with computeSAndTFirst/Second, constants from the regenerated formulas): vd_sigma_pos, vd_step_rank_invariant (selection on phi o f picks the same offspring, the update never reads the fitness). " "(6) cem_variance_nonneg; SimplexDownhill: simplex_best_monotone(_run), simplex_value_is_f, simplexInit_honest + simplex_value_is_f_run (value consistency of whole runs from init, every objective; init as repaired for F16, the pinned init is simplexInitMagic with an agreement theorem and a witness of its failure). "
        "(7) Configuration axes, universally quantified: ecmaInit_invariant + ecma_elitist_monotone_run / _prefix (whole ElitistCMA runs from init, any number of steps, BOTH settings of activeUpdate(): the reported value never gets worse), "
        "ecma_accepted_monotone (with penalties, i.e. a feasibility box: the accepted penalized fitness never increases), ecma_step_rank_invariant / ecma_rank_invariance (whole ElitistCMA runs on phi o f with the same samples visit the same points with the same step sizes and factors, every order-preserving phi, both activeUpdate settings; classify_relabel: the three-way success rule only compares), clamp_pos_any / sigma_pos_any_bound (sigma_pos for EVERY CMA::setLowerBound value, zero and negative included), "
        "cemNoise_nonneg / cem_variance_nonneg_any_noise (every CrossEntropyMethod::setNoiseType configuration, every generation). "
        "(8) Covariance of the modelled CMA::updatePopulation ON THE LIST MATRICES THE MODEL AND THE DRIVER COMPUTE WITH (Lemmas/CMACov.lean: entries, shape, quadratic form; ent_covUpdate, rankMu_psd, covUpdate_psd / covUpdate_pd; no detour through Mathlib's Matrix): "
        "update_C (the covariance written by CMA.update IS eq. 43 applied to the old covariance, the new path and the rank-mu matrix of the selected points), cma_update_cov_psd, doInit_covAdmissible, "
        "cma_run_cov_psd (END TO END: whole modelled runs with the coefficients of the regenerated doInit, every n>=1, every mu>=1 i.e. every admissible user-set lambda>mu, every recombination type, objective, variate stream, eigendecomposition, lower bound, step size, hSig, number of generations: C symmetric positive SEMIdefinite, path and mean of dimension n), "
        "cma_update_cov_pd_partial / cma_run_cov_pd_partial (symmetric positive DEFINITE after every generation PROVIDED c_mu stays below its cap 1-c1; _partial: cma_cmu_cap_reached shows the cap is reached by configurations the code accepts (n=1, mu=10, equal weights), and cma_cov_collapse_witness that the statement is then false -- identity replaced by the zero matrix in one generation of a converged run: finding F17 as mathematics). "
        "(9) VD-CMA: vd_cov_pd (D(I+vv^T)D is symmetric positive definite for every dimension, every v and every D without zero entry), vd_cov_singular_of_zero (and only then). "
        "(10) Constraint handling (Model/CMA.lean Constraint / project / unpenalized / penalized = PenalizingEvaluator): cma_value_is_f_closest_feasible, generic_value_is_f_closest_feasible (whole runs of CMA and of every Strategy instance: reported value = f at the reported point if feasible, f at its closest feasible point otherwise), "
        "ecma_value_is_f_closest_feasible (ElitistCMA::step, all three outcomes of the success rule, both activeUpdate settings), penalized_feasible, penalized_ge; generic_deterministic, ecma_deterministic (a modelled run is a function of the variate/input stream and of the objective's values). "
        "Tie, on every run: all strategy constants of CMA/CMSA/VD-CMA/ElitistCMA/LM-CMA objects initialised through their public interface are compared bit for bit with the Float instance of the regenerated formulas; "
        "CMA::updatePopulation, ElitistCMA::step, CMSA::updatePopulation, VDCMA::updateStrategyParameters and CrossEntropyMethod's update are re-computed step by step by the models from the real run's own state and samples (one-step refinement; ECMA/CMSA/CEM bit-identical, CMA and VD-CMA bit-identical or 1e-9 behind BLAS/eigensolver/remora kernels); "
        "whole SimplexDownhill runs are re-computed from the starting point (objective evaluated in Lean) and compared bit for bit. "
        "The PenalizingEvaluator model is tied to the real ElitistCMA on every run: for every generation of every ElitistCMA trace the driver re-evaluates the offspring x + sigma*y with the model (box projection with BoxConstraintHandler's 1e-13 slack, objective at the projection evaluated in Lean, penalty with the factor AS CONFIGURED, not read back from the object) and compares penalized and unpenalized fitness with the individual's (bit-exact in all generated cases); boxed traces start on the boundary / in corners of small boxes so that most offspring are infeasible. "
        "Independent oracle on the real CMA (all recombination types, user-set lambda from 2 to 200 incl. lambda >> n), CMSA, ElitistCMA, VD-CMA, CrossEntropyMethod (user-set population / selection / variance), SimplexDownhill, n from 1 to 60, after init and after every step: "
        "sigma>0 finite; covariance symmetric (1e-9 relative + 1e-16 absolute, F13) + own Cholesky of the symmetric part (C+C^T)/2, failing only on a pivot that is certifiably negative (below -64 n eps C_ii; pivots within rounding of zero are counted as undecided) (CMA) / valid Cholesky factor (CMSA, ElitistCMA) / D finite non-zero, v finite, |v|>0 (VD-CMA) / variance finite >=0 (CEM); mean and paths finite; weights positive, non-increasing, sum 1; learning rates in range; "
        "value = f(closest feasible point) bit-exact; 9 runs per case with the same seed: fresh, fresh, RE-INITIALISED used object, an object first USED ON ANOTHER PROBLEM (other dimension, smaller or larger, other start and seed, per-run state overwritten through the after-init setters) and then initialised, "
        "and f rescaled by 2, 1/8, a piecewise-linear exact map and by 2^340 (objective values beyond 1e100; identical points and step sizes); a share of the cases runs on the objective scaled by 2^340 from the start; elitist variants monotone (ElitistCMA: reported value without a box; penalized fitness of every newly accepted parent, read from the individual, with and without a box); best <= every simplex vertex; sphere convergence for all six methods "
        "(generator kind, init overload, activeUpdate and recombination type drawn at random). "
        "CONFIGURATION SWEEP (oracle on the real code, labelled as such; every run, both tiers): the cross product of the configuration axes of each class' public interface, each cell a run case with all oracles above (~460 cells in the quick tier, x4 in the thorough tier): "
        "CMA {global | private generator} x {init(f,p) | init(f) with proposed start | init(f,points) | init(f,p,lambda,mu,sigma[,C0 none/diagonal/dense])} x {no setter | setLambda+setMu | setLambda only | setMu only} x 3 recombination types x {default | setLowerBound(positive, 0, negative)}; "
        "CMSA the same generator / init / setter axes x setInitialSigma; ElitistCMA generator x 3 short inits x activeUpdate {untouched, false, true} x sigma() x {no box | feasibility box with default / custom constrainedPenaltyFactor()}; "
        "VD-CMA generator x 4 inits x {default | setInitialSigma | setSigma after init} x lambda() changed after init; CrossEntropyMethod 4 inits x {default | setVariance(double) | variance vector} x {no | ConstantNoise | LinearNoise} x population/selection size changed after init; SimplexDownhill 3 inits; "
        "setters called in the MIDDLE of a run (activeUpdate toggled, sigma(), setLowerBound, setSigma, lambda(), setVariance, population sizes). "
        "Every optimizer object is constructed in storage pre-filled with a byte pattern that differs between the runs of a case, so a member that neither constructor nor init sets has different garbage in the two fresh runs (uninitialised-member slips show as same-seed-different-run or a UBSan report). " "Determinism with a private generator is tested with random::globalRng in a DIFFERENT state in each of the 9 runs (a draw from the wrong generator changes the run), with the global generator it is seeded identically. "
        "The model traces cover the same axes where they change the update: activeUpdate on/off and a feasibility box (Ecma model), lower bound (carried in the trace header) and initial covariance (CMA model), initial covariance (CMSA), noise type / variance vector / resized population (CEM; cemNoise in Model/ES.lean), every init overload (simplex); "
        "the strategy constants are compared with the regenerated formulas under every construction mode / init overload / setter combination."),
  note=TRUST + "not modelled (inputs of the models): the random variates and the eigendecomposition of MultiVariateNormalDistribution::update; VD-CMA: the model vdUpdate is tied by one-step refinement (mostly within the 1e-9 tolerance, the inner products and norms go through remora's kernels), but that D stays free of zeros and v finite (validity of D(I+vv^T)D) is oracle-only; cov_update_psd / cov_update_pd on Mathlib real matrices are kept; since branch deep3-c11 the same statements are proved about the list-based covUpdate of the executable model itself (Lemmas/CMACov.lean) and composed end to end, over Rat (exact field arithmetic; floating-point rounding is outside every theorem -- F13 was a rounding defect and is found by the oracle, not by a theorem); "
       "VD-CMA: vd_cov_pd needs D free of zeros; vdUpdate sets D_i(1+s_i) and s_i = -1 is not excluded by the formulas, so zero-freeness of D stays oracle-only; "
       "positive definiteness of CMSA / ElitistCMA is proved as validity of the Cholesky factor (positive diagonal), not as a statement about L L^T; "
       "PenalizingEvaluator is tied for ElitistCMA (whose individual keeps the offspring's fitness pair); for CMA / CMSA / VD-CMA / CEM the traces feed the unpenalized fitness of the real offspring into the model and value = f(closest feasible point) is decided by the bit-exact oracle on the real runs; "
       "cholUpdate_diag_pos proves validity of the returned factor, not that L'L'^T equals alpha*LL^T+beta*vv^T; simplex rank invariance and CEM/simplex convergence are oracle-only; the noise-handling branch of CMA::step (function.isNoisy()) is outside the property (deterministic objective); "
       "ElitistSelection uses std::sort (unstable beyond 16 elements): generations with tied fitness among more than 16 offspring are counted, not compared; convergence on the sphere is numerical (value <= 1e-10 within the budget; CEM: 1e-6 and dimension 1 only, because the noise-free cross-entropy method with 10 of 100 parents converges prematurely in higher dimension: n=5, seed 862289 stalls at 3.6e-3; n=2, seed 680299 from (3, 2.5) stalls at 1.1e-2, about 1 run in 400). "
       "That a run with a private generator does not depend on random::globalRng, and the equivalence of per-run state after init of a used object, have no model-level content (the models take the variates as inputs) and are decided by the oracle on the real code only. "
       "Known findings on the unchanged tree (known_findings.json, findings_proposed/C11.md): F17 CMA with a population >= 10 n that has converged exactly keeps collapsing C until the stability clamp divides by zero (sigma = inf, then the eigensolver throws; thorough tier, corpus f17; no validated patch); F16 SimplexDownhill::init starts from the magic best value 1e100, so on objectives with values beyond 1e100 (the 2^340 rescaling) the reported pair is stale until a value below 1e100 is seen "
       "(patch C11-F16-simplex-init-best.patch, validated; Model/ES.lean simplexInit is the repaired init -- simplexInit_honest, simplex_value_is_f_run hold without hypothesis -- and simplexInitMagic the pinned one, with simplexInitMagic_eq_of_small and the witness simplexInitMagic_not_honest_witness); F14 VD-CMA learning rates negative for n<5 and zero for n=5 (patch C11-F14-vdcma-correction-floor.patch, validated) and its consequence F12 (VD-CMA turns NaN after stagnating), "
       "F13 the CMA covariance matrix drifts away from symmetry (oracle tolerance 1e-9*sqrt(CiiCjj)+1e-16), F15 CMA with a feasibility box whose optimum lies on the boundary and a large population loses positive definiteness of C and the eigensolver throws (thorough tier; corpus f15). CMA traces do not start at |x0| ~ 1e6 (cancellation in x - mean exceeds the 1e-9 tolerance of the C comparison; such starts are kept in the run cases). Observations (not violations of C11 as stated): CMA/CMSA rank offspring by unpenalizedFitness, so the PenalizingEvaluator penalty never influences selection; LMCMA.h does not compile and LMCMA::step always throws; CMAChromosome::roundUpdate deviates from the paper by a factor c_cov.",
  technique="Lean 4 proofs (induction over generations and over the columns of the Cholesky factor, stable-sort congruence, Mathlib PosSemidef) about regenerated formulas and hand-written models + differential correspondence and property oracle on the C++ (ASan/UBSan)",
  design="§6 C11, §14")
FINISH = dict(level="proof",
              rule="coefficient cases: (class, n, lambda, mu, recombination) incl. the defaults; run cases: objective (sphere | integer strictly convex quadratic | Rosenbrock | plateau | constant, optional soft box) x optimizer x population class x initial step size x x0 class x seed x steps, "
                   "each executed 9 times inside the harness (2x fresh, re-initialised used object, object used on another problem before, 4 rescalings); configuration cells: the cross product of the construction / init / setter axes of each class (gen_axis_cases), one run case per cell; trace cases: CMA / ElitistCMA / CMSA / VD-CMA / CEM steps re-computed by the models, whole simplex runs; non-trivial = at least 5 steps")


def fb(x):
    return "x%016x" % struct.unpack("<Q", struct.pack("<d", float(x)))[0]


def nums(xs):
    return " ".join(fb(x) for x in xs)


INF = float("inf")
HUGE_SCALE = 2.0 ** 340        # objective values beyond 1e100 (exact, order preserving)
SOFTBOX_OK = ("cma", "cmsa")      # rank by the unpenalized fitness; see gen_opt


def gen_objective(r, allow_box=True, kinds=("sphere", "quad", "rosen", "plateau"), dims=None):
    kind = r.choice(list(kinds))
    if kind == "sphere":
        n = r.choice(dims or [1, 1, 2, 3, 4, 5, 6, 8])
        ops = ["obj sphere %d" % n]
    elif kind == "plateau":
        n = r.choice(dims or [1, 2, 3, 4])
        ops = ["obj plateau %d" % n]        # floor(4|x|^2)/4: ties between different points in every generation
    elif kind == "quad":
        n = r.choice(dims or [1, 2, 3, 3, 4, 5])
        M = [[r.range(-2, 2) for _ in range(n)] for _ in range(n)]
        kk = r.choice([1, 2, 4])
        A = [[sum(M[t][i] * M[t][j] for t in range(n)) + (kk if i == j else 0) for j in range(n)] for i in range(n)]
        b = [r.range(-4, 4) for _ in range(n)]
        ops = ["obj quad %d %s %s" % (n, nums(x for row in A for x in row), nums(b))]
    else:
        n = r.choice(dims or [1, 2, 3, 4])   # rosen 1 is the constant objective 0: every comparison is a tie
        ops = ["obj rosen %d" % n]
    box = None
    if allow_box and r.chance(1, 3):
        lo = [-(r.choice([1, 2, 4]) / r.choice([1, 2])) for _ in range(n)]
        hi = [(r.choice([1, 2, 4]) / r.choice([1, 2])) for _ in range(n)]
        # CMA/CMSA/ElitistCMA reject *declared* constraints in checkFeatures; the soft box keeps the feasibility
        # predicate and closestFeasible (PenalizingEvaluator path) without the feature flag
        ops.append("softbox %s %s" % (nums(lo), nums(hi)))
        box = (lo, hi)
    return ops, n, kind, box


def gen_x0(r, n, box):
    if box:
        return [box[0][i] + (box[1][i] - box[0][i]) * r.range(0, 8) / 8 for i in range(n)], "box"
    k = r.below(10)
    if k == 0:
        return [0.0] * n, "zero"                                        # the optimum of sphere/plateau: value 0 from the start
    if k == 1:
        return [r.range(-16, 16) * 2.0 ** 18 for _ in range(n)], "huge"  # ~1e6
    if k == 2:
        return [r.range(-16, 16) * 2.0 ** -22 for _ in range(n)], "tiny"  # ~1e-6
    if k == 3:
        v = r.range(-8, 8) / 4
        return [v] * n, "equal-coordinates"
    return [r.range(-16, 16) / 4 for _ in range(n)], "generic"


SIGMAS = [0, 0, 0, 0.5, 1.0, 2.0, 2.0 ** -20, 2.0 ** 20]


def gen_opt(r, n, boxed, kinds=None):
    """(kind, op line, population class).  Soft boxes only for CMA and CMSA, which rank by the unpenalized fitness;
    ElitistCMA accepts on the *penalized* fitness and reports the unpenalized one, so with penalties neither monotonicity
    of the reported value nor rank invariance can be expected of it (and it refuses declared constraints anyway)"""
    kind = r.choice(kinds or (["cma", "cma", "cmsa"] if boxed else ["cma", "cma", "cma", "cmsa", "cmsa", "ecma", "ecma", "vdcma", "vdcma", "cem", "simplex"]))
    sigma = r.choice(SIGMAS)
    if kind == "simplex":
        return kind, "opt simplex", "-"
    if kind == "ecma":
        return kind, "opt ecma " + nums([0, 0, 0, sigma]), "-"
    k = r.below(5)
    if k <= 1:
        lam, mu, pc = 0, 0, "default"
    elif k == 2:
        lam, mu, pc = 2, 1, "lambda=2"                        # smallest admissible population
    elif k == 3:
        lam = r.range(3, 16); mu = r.range(1, lam - 1); pc = "small"
    else:
        lam = r.choice([40, 64, 100, 200]) if n <= 3 else r.choice([30, 50, 80]); pc = "large-vs-n"   # mu_eff >> n^2: c_mu cap active
        mu = r.choice([lam // 2, lam // 4, lam - 1, 1])
    if kind == "cem" and lam:
        lam = max(lam, 4); mu = max(2, min(mu, lam - 1))      # variance of a single parent is 0 for ever
    return kind, "opt %s %s" % (kind, nums([lam, mu, r.below(3), sigma])), pc


def optline(kind, lam=0, mu=0, recomb=2, sigma=0.0, **opts):
    """`opt` line with the configuration options of harness/c11.cpp (None values are left out = the class' default)"""
    o = " ".join("%s=%s" % (k, v) for k, v in opts.items() if v is not None)
    return ("opt %s %s %s" % (kind, nums([lam, mu, recomb, sigma]), o)).strip()


def popset(r, kind, which):
    """(lambda, mu, set=) for the four ways to use setLambda / setMu"""
    if which == "default":
        return 0, 0, None
    if which == "both":
        lam = r.range(4, 14); return lam, r.range(1, lam - 1), None
    if which == "lambda":        # mu = suggestMu(lambda) (cma: lambda/4 for EQUAL) | lambda/4 (cmsa): lambda >= 4 keeps mu >= 1
        return r.range(4, 16), 0, "lambda"
    # default lambda is >= 5 (cma) / 4n (cmsa), also for the dimension of the pre-use problem
    return 0, r.range(1, 3), "mu"


def axis_objective(r, boxes):
    ops, n, kind, box = gen_objective(r, allow_box=boxes, dims=[1, 2, 2, 3, 3, 4, 5])
    x0, xc = gen_x0(r, n, box)
    while xc in ("huge",):
        x0, xc = gen_x0(r, n, box)
    if r.chance(1, 8):
        ops.append("scale " + fb(HUGE_SCALE))
    return ops, n, box, x0


def gen_axis_cases(r, maxsteps):
    """the cross product of the configuration axes of every strategy's public interface (construction with the global or a
    private generator x every init overload x which population setters are used x recombination type x options that act after
    init ...); objective, start, seed, sizes and number of steps are drawn at random for each cell.  Every cell is a `run`
    case, i.e. it gets all oracles (9 runs)."""
    out = []
    def add(objops, oline, x0, steps, cell):
        out.append((objops + [oline, "run %d %d %s %s" % (r.range(1, 10 ** 6), steps, fb(INF), nums(x0))], cell))
    RNG = (None, "private")
    SHORT = (None, "propose", "points")
    # --- CMA: 2 x (3 x 4 + 3) x 3 x 2 = 180 cells
    for rng in RNG:
        for init, extra in [(i, ps) for i in SHORT for ps in ("default", "both", "lambda", "mu")] + [("full", c) for c in (None, "diag", "dense")]:
            for recomb in (0, 1, 2):
                for lb in (None, "set"):
                    ops, n, box, x0 = axis_objective(r, True)
                    if init == "full":
                        lam, mu, st = popset(r, "cma", r.choice(["default", "both"])); cov = extra
                    else:
                        lam, mu, st = popset(r, "cma", extra); cov = None
                    lbv = None if lb is None else fb(r.choice([2.0 ** -10, 1.0, 1e-10, 0.0, -1.0, 2.0 ** -4]))
                    add(ops, optline("cma", lam, mu, recomb, r.choice([0, 0, 0.5, 2.0]), rng=rng, init=init, set=st, cov0=cov, lb=lbv),
                        x0, r.range(3, maxsteps), "cma:rng=%s,init=%s,pop=%s,lb=%s" % (rng, init, extra, lb))
    # --- CMSA: 2 x (3 x 4 + 3) x 2 = 60 cells
    for rng in RNG:
        for init, extra in [(i, ps) for i in SHORT for ps in ("default", "both", "lambda", "mu")] + [("full", c) for c in (None, "diag", "dense")]:
            for sg in (0, 1):
                ops, n, box, x0 = axis_objective(r, True)
                if init == "full":
                    lam, mu, st = popset(r, "cmsa", r.choice(["default", "both"])); cov = extra
                else:
                    lam, mu, st = popset(r, "cmsa", extra); cov = None
                add(ops, optline("cmsa", lam, mu, 2, r.choice([0.5, 2.0, 2.0 ** -6]) if sg else 0, rng=rng, init=init, set=st, cov0=cov),
                    x0, r.range(3, maxsteps), "cmsa:rng=%s,init=%s,pop=%s" % (rng, init, extra))
    # --- ElitistCMA: 2 x 3 x 3 x 2 x 2 = 72 cells; with a feasibility box acceptance is on the penalized fitness (the harness
    #     then checks monotonicity of the accepted penalized fitness instead of the reported value, and skips the rescalings)
    for rng in RNG:
        for init in SHORT:
            for active in (None, 0, 1):
                for sg in (0, 1):
                    for boxed in (False, True):
                        ops, n, box, x0 = axis_objective(r, False)
                        pen = None
                        if boxed:
                            lo = [-(r.choice([1, 2, 4]) / r.choice([1, 2])) for _ in range(n)]
                            hi = [(r.choice([1, 2, 4]) / r.choice([1, 2])) for _ in range(n)]
                            ops.append("softbox %s %s" % (nums(lo), nums(hi)))
                            x0 = [lo[i] + (hi[i] - lo[i]) * r.range(0, 8) / 8 for i in range(n)]
                            pen = r.choice([None, fb(1.0), fb(1e-3), fb(1e6)])
                        add(ops, optline("ecma", 0, 0, 0, r.choice([0.5, 2.0, 2.0 ** -6]) if sg else 0, rng=rng, init=init, active=active, penalty=pen),
                            x0, r.range(12, 4 * maxsteps), "ecma:rng=%s,init=%s,active=%s,box=%s" % (rng, init, active, boxed))
    # --- VD-CMA: 2 x 4 x 3 x 2 = 48 cells
    for rng in RNG:
        for init in SHORT + ("full",):
            for sig in (None, "pre", "post"):
                for pl in (None, "set"):
                    ops, n, box, x0 = axis_objective(r, True)
                    lam, mu = (0, 0)
                    if init == "full" and r.chance(1, 2):
                        lam = r.range(4, 14); mu = r.range(1, lam - 1)
                    add(ops, optline("vdcma", lam, mu, 2, 0 if sig is None else r.choice([0.5, 2.0, 2.0 ** -6]), rng=rng, init=init,
                                     sig="post" if sig == "post" else None, plambda=None if pl is None else r.range(max(mu + 1, 6), 20)),
                        x0, r.range(3, maxsteps), "vdcma:rng=%s,init=%s,sigma=%s,plambda=%s" % (rng, init, sig, pl))
    # --- cross-entropy method (no generator argument: always the global one): 4 x 3 x 3 x 2 = 72 cells
    for init in SHORT + ("full",):
        for var in (None, "scalar", "vec"):
            for noise in (None, "const", "lin"):
                for post in (None, "set"):
                    ops, n, box, x0 = axis_objective(r, True)
                    lam, mu = (0, 0)
                    if init == "full" and r.chance(2, 3):
                        lam = r.range(6, 30); mu = r.range(2, lam - 1)
                    nz = None
                    if noise == "const": nz = "const:" + fb(r.choice([0.25, 2.0 ** -10, -1.0, 0.0]))
                    if noise == "lin": nz = "lin:%s:%s" % (fb(r.choice([1.0, 0.5, 0.0])), fb(r.choice([-0.25, -2.0 ** -4, 2.0 ** -6])))
                    pp = r.range(8, 40) if post else None
                    add(ops, optline("cem", lam, mu, 0, r.choice([1.0, 4.0, 0.25]) if var else 0, init=init, var=var if var == "vec" or var == "scalar" else None,
                                     noise=nz, ppop=pp, psel=r.range(2, min(pp - 1, 8)) if post else None),
                        x0, r.range(3, maxsteps), "cem:init=%s,var=%s,noise=%s,post=%s" % (init, var, noise, post))
    # --- setters called in the middle of a run (all runs of a case call them before the same step)
    for rng in RNG:
        for kind, mids in (("ecma", ("active:0", "active:1", "sigma")), ("cma", ("lb",)), ("vdcma", ("sigma", "pop")), ("cem", ("var", "pop"))):
            if kind == "cem" and rng: continue
            for m in mids:
                for active in ((0, 1) if kind == "ecma" else (None,)):
                    ops, n, box, x0 = axis_objective(r, kind != "ecma")
                    steps = r.range(8, 3 * maxsteps)
                    k = r.range(1, steps)
                    if m == "sigma": m2 = "sigma:" + fb(r.choice([0.5, 2.0, 2.0 ** -8, 8.0]))
                    elif m == "lb": m2 = "lb:" + fb(r.choice([2.0 ** -10, 1.0, 0.0, 2.0 ** -4]))
                    elif m == "var": m2 = "var:" + fb(r.choice([1.0, 2.0 ** -8, 64.0]))
                    elif m == "pop": m2 = "pop:%d:%d" % ((lambda l: (l, r.range(2, l - 1)))(r.range(8, 30)))
                    else: m2 = m
                    add(ops, optline(kind, 0, 0, r.below(3) if kind == "cma" else 2, 0, rng=rng, active=active, mid="%d:%s" % (k, m2)),
                        x0, steps, "%s:rng=%s,mid=%s" % (kind, rng, m))
    # --- simplex downhill: the three ways to start
    for init in SHORT:
        for _ in range(2):
            ops, n, box, x0 = axis_objective(r, False)
            add(ops, ("opt simplex init=%s" % init) if init else "opt simplex", x0, r.range(3, 3 * maxsteps), "simplex:init=%s" % init)
    return out


def gen_run_case(r, maxsteps):
    ops, n, kind, box = gen_objective(r)
    if r.chance(1, 10):
        ops.append("scale " + fb(HUGE_SCALE))
    okind, oline, pc = gen_opt(r, n, box is not None)
    ops.append(oline)
    x0, xc = gen_x0(r, n, box)
    ops.append("run %d %d %s %s" % (r.range(1, 10 ** 6), r.range(1, maxsteps), fb(INF), nums(x0)))
    return ops, {"pop": pc, "x0": xc}


def gen_reuse_case(r):
    """re-initialisation of a used CMA object in high dimension (small c_sigma): stale per-run state (generation counter,
    evolution paths, covariance) changes hSig within the first ~10 generations of the second run"""
    n = r.choice([30, 40, 40, 60])
    x0 = [r.choice([3.0, 3.0, -2.0, 0.5]) for _ in range(n)]
    return ["obj %s %d" % (r.choice(["sphere", "sphere", "rosen"]), n), "opt cma",
            "run %d %d %s %s" % (r.range(1, 10 ** 6), r.range(30, 40), fb(INF), nums(x0))]


def gen_directed_case(r):
    """far from the optimum with a small step size: selection is strongly directed, the evolution path of the step size
    grows within the first generations and the stall indicator hSig (which depends on the generation counter) switches —
    the situation in which stale state of a re-initialised object changes the run"""
    if r.chance(2, 3):
        # high dimension: small c_sigma, so the generation-counter normalisation of the path matters for ~10 generations
        n = r.choice([20, 40, 40])
        x0 = [r.choice([3.0, 3.0, -2.0, 0.5]) for _ in range(n)]
        return ["obj %s %d" % (r.choice(["sphere", "rosen"]), n), "opt " + r.choice(["cma", "cma", "cma", "vdcma", "cmsa", "ecma"]),
                "run %d %d %s %s" % (r.range(1, 10 ** 6), r.range(25, 40), fb(INF), nums(x0))]
    n = r.choice([2, 3, 5, 8])
    kind = r.choice(["cma", "cma", "vdcma", "cmsa"])
    x0 = [r.choice([-1, 1]) * r.range(8, 16) * 2.0 ** r.choice([6, 10]) for _ in range(n)]
    lam = r.choice([0, 0, 8, 12])
    ops = ["obj sphere %d" % n, "opt %s %s" % (kind, nums([lam, lam // 2, 2, r.choice([2.0 ** -4, 2.0 ** -8, 1.0])])),
           "run %d %d %s %s" % (r.range(1, 10 ** 6), r.range(8, 30), fb(INF), nums(x0))]
    return ops


def gen_conv_case(r, steps):
    kind = r.choice(["cma", "cma", "cmsa", "ecma", "vdcma", "cem", "simplex"])
    n = r.choice([1, 2, 3, 4, 5]) if kind != "vdcma" else r.choice([2, 3, 4, 5, 6, 8])
    if kind == "cem":
        n = 1                   # 10 parents of 100: the maximum-likelihood variance collapses before the mean arrives in higher dimension
                                # (n=5, seed 862289: stalls at 3.6e-3 after 600 steps; n=2, seed 680299, start (3, 2.5): stalls at 1.1e-2; a plain
                                # re-implementation of the method stalls above 1e-6 in about 1 of 400 runs for n=2 and in 0 of 400 for n=1)
                                # -- premature convergence inherent to the method without noise
    budget = {"cma": steps, "cmsa": steps, "vdcma": 2 * steps, "ecma": 12 * steps, "cem": steps, "simplex": 3 * steps}[kind]
    # CEM converges linearly to the precision of its variance estimate; the default variance 100 needs more steps
    target = {"cem": 1e-6}.get(kind, 1e-10)
    x0 = [r.range(-16, 16) / 4 for _ in range(n)]
    # convergence under the non-default configurations too: private generator, every short init overload, plain (1+1)-CMA-ES
    # without the active update, the three recombination types with the default population sizes
    rng = r.choice([None, "private"]) if kind not in ("cem", "simplex") else None
    init = r.choice([None, None, "propose", "points"])
    oline = "opt " + kind
    if kind == "ecma":
        oline = optline("ecma", 0, 0, 0, 0, rng=rng, init=init, active=r.choice([None, 0, 1]))
    elif kind == "cma":
        oline = optline("cma", 0, 0, r.below(3), 0, rng=rng, init=init)
    elif kind in ("cmsa", "vdcma"):
        oline = optline(kind, 0, 0, 2, 0, rng=rng, init=init)
    elif init:
        oline += " init=" + init
    return ["obj sphere %d" % n, oline, "run %d %d %s %s" % (r.range(1, 10 ** 6), budget, fb(target), nums(x0))]


def gen_trace_case(r, maxsteps):
    ops, n, kind, box = gen_objective(r, dims=None)
    k = r.below(4)
    if k <= 1:
        lam, mu = 0, 0
    elif k == 2:
        lam = r.range(2, 12); mu = r.range(1, lam - 1)
    else:
        lam = r.choice([24, 40, 64]); mu = r.choice([lam // 2, lam // 4])
    ops.append("opt cma " + nums([lam, mu, r.below(3), r.choice([0, 0.5, 1.0])]))
    x0, xc = gen_x0(r, n, box)
    while xc == "huge":      # |mean| ~ 1e6 with sigma ~ 0.1: the cancellation in x - mean amplifies kernel-level rounding differences of C beyond the 1e-9 tolerance
        x0, xc = gen_x0(r, n, box)
    ops.append("cmatrace %d %d %s" % (r.range(1, 10 ** 6), r.range(1, maxsteps), nums(x0)))
    return ops


def gen_axis_traces(r, steps):
    """one-step refinement by the Lean models over the configuration axes that change what the update computes or consumes:
    activeUpdate on/off (Ecma model), setLowerBound and an initial covariance (CMA model), initial covariance (CMSA model),
    noise type / variance vector / population sizes changed after init (CEM model), each with both kinds of generator and
    every init overload"""
    out = []
    inits = [None, "propose", "points"]
    for active in (None, 0, 1):
        for rng in (None, "private"):
            ops, n, kind, box = gen_objective(r, allow_box=False)
            ops.append(optline("ecma", 0, 0, 0, r.choice(SIGMAS), active=active, rng=rng, init=r.choice(inits)))
            ops.append("ecmatrace %d %d %s" % (r.range(1, 10 ** 6), r.range(8, 3 * steps), nums(gen_x0(r, n, None)[0])))
            out.append(ops)
    for active in (0, 1):      # with a feasibility box the offspring's penalized and unpenalized fitness differ (both are inputs of the model)
        ops, n, kind, box = gen_objective(r, allow_box=False)
        lo = [-(r.choice([1, 2, 4]) / r.choice([1, 2])) for _ in range(n)]
        hi = [(r.choice([1, 2, 4]) / r.choice([1, 2])) for _ in range(n)]
        ops.append("softbox %s %s" % (nums(lo), nums(hi)))
        ops.append(optline("ecma", 0, 0, 0, r.choice([0, 1.0, 2.0]), active=active, rng=r.choice([None, "private"]), penalty=r.choice([None, fb(1.0), fb(1e3)])))
        ops.append("ecmatrace %d %d %s" % (r.range(1, 10 ** 6), r.range(8, 3 * steps), nums([lo[i] + (hi[i] - lo[i]) * r.range(0, 8) / 8 for i in range(n)])))
        out.append(ops)
    for lb in (None, 2.0 ** -10, 1.0, 0.0):
        for init, cov in ((None, None), ("propose", None), ("full", None), ("full", "diag"), ("full", "dense")):
            ops, n, kind, box = gen_objective(r)
            lam, mu = (0, 0) if r.chance(1, 2) else (lambda l: (l, r.range(1, l - 1)))(r.range(3, 12))
            ops.append(optline("cma", lam, mu, r.below(3), r.choice([0, 0.5, 1.0]), init=init, cov0=cov, lb=None if lb is None else fb(lb),
                               rng=r.choice([None, "private"])))
            x0, xc = gen_x0(r, n, box)
            while xc == "huge":
                x0, xc = gen_x0(r, n, box)
            ops.append("cmatrace %d %d %s" % (r.range(1, 10 ** 6), r.range(2, steps), nums(x0)))
            out.append(ops)
    for rng in (None, "private"):
        for init, cov in ((None, None), ("points", None), ("full", None), ("full", "diag"), ("full", "dense"), ("full", "scaled")):
            ops, n, kind, box = gen_objective(r)
            lam, mu, st = popset(r, "cmsa", r.choice(["default", "both"] if init == "full" else ["default", "both", "lambda", "mu"]))
            ops.append(optline("cmsa", lam, mu, 2, r.choice([0, 0.5, 2.0]), init=init, cov0=cov, rng=rng, set=st))
            ops.append("cmsatrace %d %d %s" % (r.range(1, 10 ** 6), r.range(2, steps), nums(gen_x0(r, n, box)[0])))
            out.append(ops)
    for noise in (None, "const", "lin"):
        for var in (None, "scalar", "vec"):
            for post in (None, "set"):
                ops, n, kind, box = gen_objective(r, allow_box=False)
                init = r.choice(inits + ["full"])
                lam, mu = (0, 0)
                if init == "full" and r.chance(2, 3):
                    lam = r.range(6, 30); mu = r.range(2, lam - 1)
                nz = None
                if noise == "const": nz = "const:" + fb(r.choice([0.25, 2.0 ** -10, -1.0]))
                if noise == "lin": nz = "lin:%s:%s" % (fb(r.choice([1.0, 0.5, 0.0])), fb(r.choice([-0.25, -2.0 ** -4, 2.0 ** -6])))
                pp = r.range(8, 40) if post else None
                ops.append(optline("cem", lam, mu, 0, r.choice([1.0, 4.0, 0.25]) if var else 0, init=init, var=var, noise=nz, ppop=pp,
                                   psel=r.range(2, min(pp - 1, 8)) if post else None))
                ops.append("cemtrace %d %d %s" % (r.range(1, 10 ** 6), r.range(2, steps), nums(gen_x0(r, n, None)[0])))
                out.append(ops)
    for rng in (None, "private"):
        for init in inits + ["full"]:
            for sig in (None, "pre", "post"):
                ops, n, kind, box = gen_objective(r, dims=[2, 2, 3, 4, 5, 6, 8])
                lam, mu = (0, 0)
                if init == "full" and r.chance(1, 2):
                    lam = r.range(4, 24); mu = r.range(1, lam - 1)
                ops.append(optline("vdcma", lam, mu, 2, 0 if sig is None else r.choice([0.5, 2.0, 2.0 ** -6]), rng=rng, init=init,
                                   sig="post" if sig == "post" else None, plambda=r.choice([None, None, r.range(max(mu + 1, 6), 24)])))
                ops.append("vdcmatrace %d %d %s" % (r.range(1, 10 ** 6), r.range(2, steps), nums(gen_x0(r, n, box)[0])))
                out.append(ops)
    for init in inits:
        ops, n, kind, box = gen_objective(r, allow_box=False)
        ops.append(("opt simplex init=%s" % init) if init else "opt simplex")
        ops.append("simplexrun %d %s" % (r.range(1, 3 * steps), nums(gen_x0(r, n, None)[0])))
        out.append(ops)
    return out


def gen_model_traces(r, quick):
    """one-step refinement traces for ElitistCMA, CMSA, CEM and whole deterministic runs of SimplexDownhill"""
    out = []
    k, steps = (10, 30) if quick else (100, 80)
    for _ in range(k):     # ElitistCMA: no box (acceptance is on the penalized fitness); plateau makes unsuccessful/failed steps frequent
        ops, n, kind, box = gen_objective(r, allow_box=False)
        ops.append("opt ecma " + nums([0, 0, 0, r.choice(SIGMAS)]))
        ops.append("ecmatrace %d %d %s" % (r.range(1, 10 ** 6), r.range(5, steps), nums(gen_x0(r, n, None)[0])))
        out.append(ops)
    for _ in range(k):     # ElitistCMA WITH a feasibility box: the driver re-evaluates every offspring with the model of PenalizingEvaluator
        # (projection, f at the closest feasible point, penalty with the configured factor) and compares with the real fitness pair;
        # small boxes and starts on the boundary / in a corner make infeasible offspring the rule
        ops, n, kind, box = gen_objective(r, allow_box=False)
        w = r.choice([0.25, 0.5, 1.0, 2.0])
        lo = [-w * r.choice([1, 1, 2]) for _ in range(n)]; hi = [w * r.choice([1, 1, 2]) for _ in range(n)]
        ops.append("softbox %s %s" % (nums(lo), nums(hi)))
        pen = r.choice([None, fb(1.0), fb(1e-3), fb(1e6), fb(0.0)])
        ops.append(optline("ecma", 0, 0, 0, r.choice([0, 0.5, 2.0]), active=r.choice([None, 0, 1]), rng=r.choice([None, "private"]), penalty=pen))
        x0 = [r.choice([lo[i], hi[i], 0.0, lo[i] + (hi[i] - lo[i]) * r.range(0, 8) / 8]) for i in range(n)]
        ops.append("ecmatrace %d %d %s" % (r.range(1, 10 ** 6), r.range(5, steps), nums(x0)))
        out.append(ops)
    for _ in range(k):
        ops, n, kind, box = gen_objective(r)
        _, oline, _ = gen_opt(r, n, box is not None, kinds=["cmsa"])
        ops.append(oline)
        ops.append("cmsatrace %d %d %s" % (r.range(1, 10 ** 6), r.range(2, steps // 2), nums(gen_x0(r, n, box)[0])))
        out.append(ops)
    for _ in range(k):
        ops, n, kind, box = gen_objective(r, allow_box=False)
        _, oline, _ = gen_opt(r, n, False, kinds=["cem"])
        ops.append(oline)
        ops.append("cemtrace %d %d %s" % (r.range(1, 10 ** 6), r.range(2, steps // 3), nums(gen_x0(r, n, None)[0])))
        out.append(ops)
    for _ in range(k):
        ops, n, kind, box = gen_objective(r)
        _, oline, _ = gen_opt(r, n, False, kinds=["vdcma"])
        ops.append(oline)
        ops.append("vdcmatrace %d %d %s" % (r.range(1, 10 ** 6), r.range(2, steps // 2), nums(gen_x0(r, n, box)[0])))
        out.append(ops)
    for _ in range(2 * k):
        ops, n, kind, box = gen_objective(r, allow_box=False)
        ops.append("opt simplex")
        ops.append("simplexrun %d %s" % (r.range(1, 2 * steps), nums(gen_x0(r, n, None)[0])))
        out.append(ops)
    return out


def gen_coeff_case(r):
    kind = r.choice(["cma", "cma", "cma", "cmsa", "vdcma", "vdcma", "ecma", "lmcma"])
    n = r.choice(list(range(1, 21)) + [30, 50, 100, 200])
    if r.chance(1, 2) or kind == "ecma":
        return ["coeffs %s %d 0 0 %d" % (kind, n, r.below(3))]
    lam = r.choice([2, 3, r.range(2, 40), r.range(2, 40), r.range(41, 400)])
    return ["coeffs %s %d %d %d %d" % (kind, n, lam, r.choice([1, lam - 1, r.range(1, lam - 1)]), r.below(3))]


def gen_coeff_axis_cases(r):
    """the strategy constants must be the regenerated formulas under every construction mode and init overload (a long
    overload that forgets the recombination type, a setter path that computes mu differently, ...)"""
    out = []
    for kind in ("cma", "cmsa", "vdcma", "ecma"):
        for rng in (None, "private"):
            for init in (None, "propose", "points", "full"):
                for st in ("default", "both", "lambda"):
                    if kind == "ecma" and (init == "full" or st != "default"): continue
                    if kind == "vdcma" and st == "lambda": continue
                    if kind == "vdcma" and st == "both" and init != "full": continue     # VD-CMA has no population setters: sizes only through the long overload
                    if init == "full" and st == "lambda": continue
                    n = r.choice(list(range(1, 13)) + [20, 50])
                    rec = r.below(3)
                    lam, mu = 0, 0
                    if st == "both":
                        lam = r.choice([2, 3, r.range(2, 40), r.range(41, 200)]); mu = r.choice([1, lam - 1, r.range(1, lam - 1)])
                    elif st == "lambda":
                        lam = r.range(4, 60)
                        mu = lam // 4 if (kind == "cmsa" or rec == 0) else lam // 2      # CMSA::init / CMA::suggestMu
                    o = " ".join("%s=%s" % (k, v) for k, v in (("rng", rng), ("init", init), ("set", "lambda" if st == "lambda" else None)) if v)
                    out.append([("coeffs %s %d %d %d %d %s" % (kind, n, lam, mu, rec, o)).strip()])
    return out


def case_info(ops):
    info = {"opt": "?", "obj": "?", "n": 0, "box": False, "kind": "coeffs", "steps": 0, "lambda": 0, "options": {}, "scale": 1.0}
    for o in ops:
        t = o.split()
        if t[0] == "obj": info["obj"], info["n"] = t[1], int(t[2])
        elif t[0] in ("box", "softbox"): info["box"] = True
        elif t[0] == "scale": info["scale"] = struct.unpack("<d", struct.pack("<Q", int(t[1][1:], 16)))[0]
        elif t[0] == "opt":
            info["opt"] = t[1]
            info["options"] = dict(x.split("=", 1) for x in t[2:] if "=" in x)
            t = [x for x in t if "=" not in x]
            if len(t) > 2: info["lambda"] = int(struct.unpack("<d", struct.pack("<Q", int(t[2][1:], 16)))[0])
        elif t[0] == "run": info["kind"], info["steps"] = "run", int(t[2])
        elif t[0] in ("cmatrace", "ecmatrace", "cmsatrace", "cemtrace", "vdcmatrace"):
            info["kind"], info["steps"] = "trace", int(t[2])
        elif t[0] == "simplexrun": info["kind"], info["steps"], info["opt"] = "trace", int(t[1]), "simplex"
        elif t[0] == "coeffs":
            info["opt"], info["n"], info["lambda"] = t[1], int(t[2]), int(t[3])
            info["options"] = dict(x.split("=", 1) for x in t[6:] if "=" in x)
    return info


class Res:
    def __init__(self):
        self.ok, self.crash, self.oracle, self.diff_at, self.why = True, False, [], None, ""
        self.impl, self.model, self.stderr = [], [], ""
        self.bad_lines = set()      # indices of the op lines that failed (oracle tag or model mismatch)


def run_case(ctx, hcmd, dcmd, ops, timeout=600, stats=None):
    r = Res()
    e = dict(os.environ); e.setdefault("ASAN_OPTIONS", "detect_leaks=0"); e.setdefault("UBSAN_OPTIONS", "print_stacktrace=1")
    try:
        ph = subprocess.run(hcmd, input="\n".join(ops) + "\n", stdout=subprocess.PIPE, stderr=subprocess.PIPE,
                            text=True, errors="replace", timeout=timeout, env=e)
        r.impl, r.stderr, rc = ph.stdout.splitlines(), ph.stderr[-3000:], ph.returncode
    except subprocess.TimeoutExpired:
        r.impl, r.stderr, rc = [], "TIMEOUT", -99
    if rc != 0:
        r.crash, r.ok = True, False
    dops, expect = [], []
    lastobj = "sphere 0"
    for i, o in enumerate(ops):
        if o.startswith("obj "): lastobj = o[4:]
        line = r.impl[i] if i < len(r.impl) else ""
        if "!oracle" in line:
            r.bad_lines.add(i)
            r.oracle.append(line.split(" !oracle")[0][:200] + " ... " + line[line.index("!oracle"):][:300]); r.ok = False
        payload = line.split(" !oracle")[0]
        m_pd = re.search(r" pd-undecided=(\d+)", payload)
        if m_pd and stats is not None: stats["cma_steps_pd_undecided"] = stats.get("cma_steps_pd_undecided", 0) + int(m_pd.group(1))
        if o.startswith("coeffs"):
            dops.append(" ".join(x for x in o.split() if "=" not in x)); expect.append(("equal", payload))
        elif o.startswith("cmatrace") and payload.startswith("trace"):
            dops.append("xtrace " + payload); expect.append(("verdict", "cma"))
        elif o.split()[0] in ("ecmatrace", "cmsatrace", "cemtrace", "vdcmatrace") and payload.startswith("trace"):
            dops.append("x" + o.split()[0][:-5] + " " + payload); expect.append(("verdict", o.split()[0][:-5]))
        elif o.startswith("simplexrun") and payload.startswith("simplex"):
            t = o.split()
            dops.append("xsimplex %s ## %s ## %s ## %s" % (lastobj, t[1], ",".join(t[2:]), payload)); expect.append(("verdict", "simplex"))
        else:
            dops.append(""); expect.append(("skip", None))
    pd = subprocess.run(dcmd, input="\n".join(dops) + "\n", stdout=subprocess.PIPE, stderr=subprocess.PIPE,
                        text=True, errors="replace", timeout=timeout)
    r.model = pd.stdout.splitlines()
    for i, (ex, want) in enumerate(expect):
        got = r.model[i] if i < len(r.model) else "<missing>"
        if ex == "equal":
            if stats is not None: stats["coeff_lines"] = stats.get("coeff_lines", 0) + 1
            if got != want:
                if r.diff_at is None: r.diff_at, r.why = i, "coefficients-differ"
                r.ok = False; r.bad_lines.add(i)
        elif ex == "verdict":
            m = re.match(r"ok gens=(\d+) bits=(\d+) tol=(\d+) ties=(\d+)", got)
            if m and stats is not None:
                stats[want + "_steps_bits"] = stats.get(want + "_steps_bits", 0) + int(m.group(2))
                stats[want + "_steps_tol"] = stats.get(want + "_steps_tol", 0) + int(m.group(3))
                stats["steps_skipped_unstable_ties"] = stats.get("steps_skipped_unstable_ties", 0) + int(m.group(4))
            if not m:
                if r.diff_at is None: r.diff_at, r.why = i, "update-differs:" + got.replace(" ", "-")[:60]
                r.ok = False; r.bad_lines.add(i)
    return r


def classify(ops, res):
    info = case_info(ops)
    tags = sorted({t for l in res.oracle for t in re.findall(r"!oracle (\S+)", l)})
    if res.crash:
        m = re.search(r"ERROR: AddressSanitizer: (\S+)|runtime error: ([^\n]*)", res.stderr)
        tag = (m.group(1) or m.group(2)) if m else "crash"
        return f"crash:{info['opt']}:{tag[:40]}", f"harness aborted ({tag}) on ops {ops}"
    if info["opt"] == "vdcma" and info["kind"] == "coeffs" and info["n"] <= 5 and tags == ["coefficients-inadmissible"]:
        return ("F14:vdcma-learning-rates-not-positive:n<=5", f"VD-CMA learning rates c1 and cMu are negative (n<5) or zero (n=5): {res.impl[-1][:200]}; ops {ops}")
    if info["opt"] == "vdcma" and info["n"] <= 5 and tags and set(tags) <= {"step-size-not-positive", "non-finite", "covariance-not-positive-definite", "mean-or-path-non-finite", "not-converged"}:
        return ("F12:vdcma-nan-after-stagnation", f"VD-CMA reports NaN point / value / step size after stagnating (negative learning rates, F14); ops {ops}")
    if info["opt"] == "cma" and info["box"] and info["kind"] == "run" and tags and set(tags) <= {"covariance-not-positive-definite", "exception"} \
            and (not res.oracle or "exception" not in tags or "eigendecomposition" in res.oracle[0]):
        return ("F15:cma-softbox-covariance-degenerates", f"CMA with a feasibility box (optimum on the boundary): covariance loses positive definiteness / eigensolver fails; ops {ops}")
    if info["opt"] == "simplex" and info["kind"] == "run" and tags:
        # F16: init starts from the magic best value 1e100.  Unscaled objective: only the run on 2^340 f is affected (empty reported
        # point in that run, different reported points); objective scaled beyond 1e100: the reported pair is stale in every run
        txt = " ".join(res.oracle)
        if info["scale"] < 1e90:
            f16 = set(tags) <= {"reported-point-has-wrong-dimension", "not-rank-invariant-at-huge-values"} and "not-rank-invariant-at-huge-values" in tags \
                and len(re.findall(r"reported-point-has-wrong-dimension", txt)) == len(re.findall(r"reported-point-has-wrong-dimension run=rescaled4", txt))
        else:
            f16 = set(tags) <= {"reported-point-has-wrong-dimension", "value-not-f-of-closest-feasible-point", "reused-object-different-run",
                                "reinitialised-object-different-run", "not-rank-invariant"} and \
                ("reported-point-has-wrong-dimension" in tags or "value-not-f-of-closest-feasible-point" in tags)
        if f16:
            return ("F16:simplex-init-magic-best-value", f"SimplexDownhill::init keeps m_best at (stale point, 1e100) when every vertex value is >= 1e100 ({res.oracle[0][-200:]}); ops {ops}")
    if info["opt"] == "cma" and info["kind"] == "run" and not info["box"] and info["lambda"] >= 30 and info["lambda"] >= 10 * max(info["n"], 1) and info["steps"] >= 60 \
            and tags and set(tags) <= {"step-size-not-positive", "exception"} and ("exception" not in tags or any("eigendecomposition" in l for l in res.oracle)) \
            and not any(k in info["options"] for k in ("lb", "mid", "cov0")):
        return ("F17:cma-covariance-collapses-after-exact-convergence", f"CMA (population >= 10 n) keeps running after exact convergence: C collapses, the stability clamp divides by 0 (sigma = inf), eigensolver throws ({res.oracle[0][-160:]}); ops {ops}")
    if info["opt"] == "cma" and "covariance-not-symmetric" in tags:
        return ("F13:cma-covariance-asymmetry", f"CMA covariance matrix is not symmetric beyond rounding ({res.oracle[0][-150:]}); ops {ops}")
    if tags:
        return f"oracle:{'+'.join(tags)}:{info['opt']}:{info['obj']}{'+box' if info['box'] else ''}", f"property oracle failed ({tags}: {res.oracle[0][-160:]}) on ops {ops}"
    return f"mismatch:{res.why}:{info['opt']}", f"model and implementation disagree ({res.why}) at line {res.diff_at} of ops {ops}"


def correspond(ctx, name, cases, hcmd, dcmd, max_report=8):
    t = time.time()
    stats = {}
    all_ops = [l for c in cases for l in c]
    big = run_case(ctx, hcmd, dcmd, all_ops, timeout=1800, stats=stats)
    ctx.count("traces_validated_against_impl", len(cases))
    ctx.count("ops_compared", len(all_ops))
    for k, v in stats.items():
        ctx.count(f"{name}:{k}", v)
    if big.ok:
        ctx.log(f"{name}: {len(cases)} cases / {len(all_ops)} ops agree ({time.time()-t:.1f}s) {stats}")
        return 0
    # every case starts with its own `obj` / `opt` lines and every run seeds its generators, so the cases of the batch are
    # independent: a complete batch attributes each failing line to its case and only those cases are run again on their
    # own; an incomplete batch (crash, timeout) or a failure that does not reproduce alone falls back to running every case
    failing = []
    if not big.crash and len(big.impl) == len(all_ops) and len(big.model) >= len(all_ops) and big.bad_lines:
        owner, k = [], 0
        for ci, c in enumerate(cases):
            owner += [ci] * len(c)
        cand = sorted({owner[i] for i in big.bad_lines if i < len(owner)})
        with ThreadPoolExecutor(max_workers=4) as ex:
            results = list(ex.map(lambda ci: run_case(ctx, hcmd, dcmd, cases[ci]), cand))
        failing = [(cases[ci], r) for ci, r in zip(cand, results) if not r.ok]
        if len(failing) != len(cand):
            ctx.log(f"{name}: {len(cand) - len(failing)} case(s) fail in the batch but not alone; running every case on its own")
            failing = []
    if not failing:
        with ThreadPoolExecutor(max_workers=4) as ex:
            results = list(ex.map(lambda c: run_case(ctx, hcmd, dcmd, c), cases))
        failing = [(c, r) for c, r in zip(cases, results) if not r.ok]
    if not failing:
        failing = [(all_ops, big)]
    ctx.log(f"{name}: {len(failing)} of {len(cases)} cases FAIL")
    seen = set()
    for c, r in failing[:12]:
        ctx.log(f"{name}: failing case {classify(c, r)[0]}: {[o[:160] for o in c[-3:]]}")
    for c, r in failing:
        key, what = classify(c, r)
        if key in seen:
            continue
        seen.add(key)
        small, rs = c, r
        # shrink the number of steps of a failing run (not for convergence failures)
        if "not-converged" not in key and c[-1].startswith(("run", "cmatrace")):
            t0 = c[-1].split()
            steps = int(t0[2])
            while steps > 1:
                cand = c[:-1] + [" ".join(t0[:2] + [str(steps // 2)] + t0[3:])]
                rr = run_case(ctx, hcmd, dcmd, cand, timeout=120)
                if (not rr.ok) and classify(cand, rr)[0] == key:
                    small, rs, steps = cand, rr, steps // 2
                else:
                    break
        found = bool(rs.oracle) or rs.crash
        b = ctx.broken("correspondence", f"{name}:{key}", what)
        b["resolved"] = True
        replay = {"harness_cmd": hcmd, "driver_cmd": dcmd, "ops": small, "impl_output": [l[:600] for l in rs.impl[-6:]],
                  "model_output": [l[:600] for l in rs.model[-6:]], "first_diff_line": rs.diff_at, "why": rs.why,
                  "oracle": rs.oracle[:5], "crash": rs.crash, "stderr_tail": rs.stderr[-1500:]}
        ctx.violation(key, replay, found_input=found, what=classify(small, rs)[1])
        if len([k for k in seen if not re.match(r"F\d+:", k)]) >= max_report:     # known findings do not use up the report budget
            break
    return len(failing)


def load_corpus():
    d = os.path.join(core.VERIF, "corpus", "C11")
    out = []
    if os.path.isdir(d):
        for fn in sorted(os.listdir(d)):
            ops = [l.strip() for l in open(os.path.join(d, fn)) if l.strip() and not l.startswith("#")]
            if ops: out.append(ops)
    return out


def translate(ctx):
    return ctx.translate("cma_params.py")


def build(ctx):
    return ctx.harness("c11", ["c11.cpp"], repo_sources=REPO_SOURCES)


def run(ctx):
    ctx.trusted += ["correspondence harness harness/c11.cpp + generator checks/c11.py",
                    "translator translate/cma_params.py (C++ arithmetic with the usual promotions -> Lean; result compared bit for bit at Float on every run)",
                    "hand-written models Model/CMA.lean, Model/ES.lean; eigendecomposition and random variates are inputs of the models",
                    "ASan/UBSan runtime for the real code's memory safety (not a theorem)"]
    ctx.assumptions += ["exp is a positive function, sqrt|last eigenvalue| > 0 (sigma_pos)", "phi is order preserving (rank_invariance)",
                        "log strictly increasing on the positive rationals (weights), sqrt positive on positives (Cholesky update, CMSA c_sigma), pow non-negative (ElitistCMA unlearning rate)",
                        "covariance theorem over the reals (Mathlib), not over floating point"]
    translate(ctx)
    ctx.prove(["SharkVerif.Props.C11", "SharkVerif.Lemmas.CMACov"])
    if not ctx.quick:
        ctx.leanchecker(["SharkVerif.Props.C11", "SharkVerif.Lemmas.CMACov"])
    exe = build(ctx)
    drv = ctx.driver("drv_c11")
    if not exe or not drv:
        return
    corpus = load_corpus()
    ctx.cov["corpus_cases"] = len(corpus)
    r = ctx.rng.fork("c11")
    ncoef, nrun, maxsteps, ntrace, tsteps, nconv, csteps = (160, 110, 40, 30, 12, 10, 400) if ctx.quick else (2000, 900, 150, 300, 40, 80, 600)
    cases = list(corpus)
    cases += [gen_coeff_case(r) for _ in range(ncoef)]
    for rep in range(1 if ctx.quick else 5):
        cases += gen_coeff_axis_cases(r)
    for _ in range(nrun):
        ops, cls = gen_run_case(r, maxsteps)
        cases.append(ops)
        ctx.hist("population_class", cls["pop"]); ctx.hist("x0_class", cls["x0"])
    for _ in range(18 if ctx.quick else 150):
        cases.append(gen_directed_case(r)); ctx.hist("population_class", "directed-or-high-dim"); ctx.hist("x0_class", "far+small-sigma | n=20,40")
    for _ in range(12 if ctx.quick else 60):
        cases.append(gen_reuse_case(r)); ctx.hist("population_class", "default"); ctx.hist("x0_class", "reuse n>=30")
    for rep in range(1 if ctx.quick else 4):
        for ops, cell in gen_axis_cases(r, 12 if ctx.quick else 40):
            cases.append(ops); ctx.hist("configuration_cell", cell)
            ctx.hist("population_class", "axis-sweep"); ctx.hist("x0_class", "axis-sweep")
        cases += gen_axis_traces(r, tsteps if ctx.quick else 30)
    cases += [gen_trace_case(r, tsteps) for _ in range(ntrace)]
    cases += gen_model_traces(r, ctx.quick)
    cases += [gen_conv_case(r, csteps) for _ in range(nconv)]
    for c in cases:
        i = case_info(c)
        ctx.hist("case_kind", i["kind"]); ctx.hist("optimizer", i["opt"] + ":" + i["kind"])
        ctx.hist("dimension", i["n"])
        for k, v in i["options"].items():
            ctx.hist("configuration_axis", "%s:%s=%s" % (i["opt"], k, v if k in ("rng", "init", "set", "cov0", "active", "sig", "var") else
                                                         ("const" if v.startswith("const") else "lin" if v.startswith("lin") else v.split(":")[1] if k == "mid" else "set")))
        if i["lambda"]:
            ctx.hist("lambda_over_n", "default" if not i["lambda"] else min(i["lambda"] // max(i["n"], 1), 64) // 4 * 4)
        if i["kind"] != "coeffs":
            ctx.hist("objective", i["obj"] + ("+box" if i["box"] else "") + ("*2^340" if i["scale"] > 1 else ""))
            ctx.hist("steps", min(i["steps"] // 20 * 20, 400))
            for o in c:
                ot = [x for x in o.split() if "=" not in x]
                if o.startswith("opt ") and len(ot) >= 6:
                    ctx.hist("initial_sigma", struct.unpack("<d", struct.pack("<Q", int(ot[5][1:], 16)))[0])
                    ctx.hist("recombination", int(struct.unpack("<d", struct.pack("<Q", int(ot[4][1:], 16)))[0]))
    ctx.cov["evaluations"] = len(cases)
    ctx.cov["runs_per_run_case"] = ("9 (fresh, fresh, re-initialised used object, object used on another problem before, 3 exact rescalings + scaling by 2^340; same seed; "
                                    "with rng=private the process-global generator is in a different state in every run)")
    ctx.cov["distinct_nontrivial"] = len({"\n".join(c) for c in cases if case_info(c)["kind"] == "coeffs" or case_info(c)["steps"] >= 5})
    ctx.sample({"ops": cases[len(cases) // 2][:4]})
    correspond(ctx, "K-C11", cases, [exe], [drv])


def replay(ctx, rep):
    exe = build(ctx); drv = ctx.driver("drv_c11")
    res = run_case(ctx, [exe], [drv], rep["ops"])
    print("\n".join(f"impl : {a[:300]}\nmodel: {b[:300]}" for a, b in zip(res.impl, res.model)))
    print("stderr:", res.stderr[-2000:])
    print("OK" if res.ok else "FAILS")
    return 0 if res.ok else 1
