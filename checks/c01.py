"""C01 — remora expressions evaluate to their element-wise meaning.

T1: translate/remora_rules.py regenerates lean/SharkVerif/Gen/RemoraRules.lean (one soundness lemma
    per rewrite rule of detail/expression_optimizers.hpp) on every run.
K-C01: a generated PROGRAM of typed remora statements is rendered as C++ TUs (compiled per run
    against the repo headers, with and without REMORA_USE_CBLAS, ASan+UBSan) and as op lines for
    the Lean driver drv_c01 (denotational model, exact rational arithmetic); outputs are compared
    exactly.  The harness carries an independent naive-loop oracle.
"""
import json, os, re, subprocess, time
from concurrent.futures import ThreadPoolExecutor
from vlib import core
from checks import c01gen, c01neg, c01dir, c01kern

TRUST = ("Lean 4.33 kernel; axioms at most propext/Classical.choice/Quot.sound (audited per run by #audit_module); ")
MANIFEST = dict(
  text=("Lean theorems about an executable deep embedding VExp/MExp of remora's expression classes whose denotation "
        "(size, index -> R) is the documented element-wise definition, over an arbitrary commutative ring with opaque "
        "functors: (i) two lemmas per rewrite rule of detail/expression_optimizers.hpp (denotation preserved; well-formedness "
        "preserved; 86 of 93 create bodies, the other 7 are shown uninstantiable and confirmed so by the compiler), "
        "REGENERATED from the C++ on every run by translate/remora_rules.py and closed by fixed tactics, an executable "
        "optimiser generated from 69 of the rules with generated soundness proof, and optimize_sound / genOpt_run_sound "
        "lifting per-rule soundness to composite rewrites of any depth; (ii) "
        "assign_alias_correct: the aliasing forms =,+=,-=,*=,/= yield f(old target, rhs on the old memory) for every "
        "right-hand side, also when it reads the target; assign_noalias_correct / assign_noalias_elementwise_correct for "
        "the in-place forms under disjointness resp. same-index reads; (iii) orientation_irrelevant for all shapes and "
        "proxy_index_* for nested dense proxies; (iv) kernels: foldFrom_max_spec / foldFrom_min_spec / "
        "rowFold_max_is_row_maximum / rowFold_min_is_row_minimum (the first-element-seeded row fold IS the maximum / minimum "
        "of the line for data of any sign, over any linear order), foldRowsBlocked_correct (the blocked column-major fold "
        "kernel equals the denotation for every block size and shape), sumTiled_correct (tiling the inner dimension of a "
        "product into ceil(K/T) tiles starting at b*T of min(T,K-b*T) columns gives the defining sum, for every T>0 and K), "
        "strided_disjoint_of_extent (two strided proxies are disjoint when the LAST cell base+(size-1)*stride of one lies "
        "before the other), each with a witness that the neighbouring wrong variant (zero seed, tile start b*current, extent "
        "base+size) differs; (v) BLOCKED KERNELS with every blocking constant a parameter (Model/RemoraKernels.lean: packA, packB, "
        "ugemm, mgemm, denseGemm = pack_A_dense, pack_B_dense, ugemm, mgemm, dense_gemm of kernels/default; assignTransBlocked = "
        "the transposing matrix_assign / matrix_assign_functor): denseGemm_correct (for all operand shapes M x K, K x N and ALL "
        "positive MC, NC, KC, MR, NR the packed three-level block gemm leaves C(i,j) + [[alpha*prod(a,b)]](i,j) in every target "
        "element and writes nothing outside the M x N target; end to end: packing layout, zero padding of partial stripes, micro "
        "tiles through the temporary block, macro tiles, KC tiling), mgemm_spec, packA_at / packB_at (closed form of the packed "
        "layout), denseGemm_correct_lib (the constants of gemm_block_size<double|float|long double>), "
        "denseGemm_transposed_dispatch (column-major target = transposed call), packedSize_le (the packed stripes fit the "
        "MC*KC / NC*KC buffers when MR | MC, NR | NC, with a witness that they do not otherwise), gemm_tile_address (the pointer "
        "arithmetic of the C++ addresses the tile the model updates), assignTransBlocked_correct (for every block size BS > 0 and "
        "every shape each target element becomes f(m(i,j), e(i,j)) exactly once, nothing else is written) and its _lib instance "
        "(8 / 16). The constants are REGENERATED from the C++ on every run by translate/remora_kernels.py into "
        "Gen/RemoraKernelConsts.lean together with generated theorems gemm*_ok (all positive, mr | mc, nr | nc), and the same "
        "translator pins the loop skeleton of every modelled function by hash (a changed loop is a broken tie). "
        "The model is tied to the real code by an exact correspondence: "
        "(k) the kernels called DIRECTLY (harness/c01k.cpp): bindings::pack_A_dense / pack_B_dense (packed buffers compared cell by "
        "cell, overrun sentinel) and bindings::mgemm for five (MR,NR) pairs on tiles around MR / NR inside a larger matrix, "
        "kernels::gemm for double, float and long double (three constant sets) on shapes just below / at / above every constant "
        "in its own dimension and for all 8 orientation mixes, the transposing assignment kernels for = += -= *= around 8 / 16, "
        "the column-major fold_rows around 16, and expressions mixing float / double / int value types (element-wise, gemv, gemm, "
        "outer product, compound assignment into an int target, reductions; denotation = the rational element-wise definition, "
        "data keep every intermediate exact in every participating type); "
        "(a) a DIRECTED program, run in both tiers: aliasing assignment between every ordered pair of dense proxy kinds of one "
        "storage (row/column/diagonal/linearisation and sub-ranges of them in several nested spellings; container/transpose/"
        "sub-matrix/rows/columns), target behind, before and on the source, plain and all compound forms, bare proxies and "
        "expressions of them, row- and column-major, square/wide/tall, plus block-wise right-hand sides reading the target; "
        "all six row-wise reductions over rows and over columns of row- and column-major containers, proxies and element-wise "
        "expressions, scalar reductions of vectors/strided proxies/matrices (incl. matrix norm_1/norm_inf, frobenius_prod) on "
        "all-negative/all-positive/mixed/one-signed-line/constant/zero data; gemm/gemv/trmm/trmv/mixed-orientation assignment "
        "with container, proxy and expression operands on shapes just below, at, just above and far from every blocking "
        "constant of kernels/default and kernels/cblas that the expression layer reaches (gemm MR=4 NR=6 MC=128 KC=512 "
        "NC=1020, BLAS fallback tile 512, fold_rows 16, transposing assign 8/16, trmv/trmm 128) and 0/1-sized; "
        "family R: for EVERY translated rule of the rewrite table (86 of 86; list taken from the translator) at least one "
        "statement that makes exactly this specialisation fire (decided by the class-level interpreter checks/c01cls.py) with "
        "NON-symmetric arguments - all operand extents distinct, row window != column window and a second window of equal "
        "extents but different starts, start offsets > 0, folded scalar factors -2 / -3 / -3/2 on both sides, division as "
        "binary functor, distinct operands on both sides of binary nodes, both repeater orientations and concat directions, "
        "prod(v,M) beside prod(M,v), functor compositions whose order and members are observable (elem_inv(sqr x), "
        "sqr(-2 abs x), abs(min(as_rows A))), assigned with = += -= and their noalias forms and every third one also reduced with sum() - so that an argument mix-up inside any single rule has a concrete failing "
        "input on every run (per-rule counts and the list of never-fired rules are in the evidence; the thorough tier adds "
        "a second set with windows from the seed); if the Lean side does not build the same programs are run against the "
        "harness oracle alone, and a broken rule lemma is resolved by a failing input whose statement fires that rule; "
        "(b) generated programs of typed statements (all assignment forms, explicit aliasing incl. two proxies of one "
        "variable, proxies up to nesting depth 5 as targets and operands - sub-range of a row of the transpose of a sub-matrix, "
        "sub-range of a sub-range of a row of rows of a transpose, sub-range of the diagonal of a sub-matrix of a transpose, "
        "transpose of a sub-matrix of the transpose of rows / columns -, dense and compressed operands, products incl. "
        "triangular, reductions, value classes of one sign, shapes incl. 0 and 1); both "
        "compiled per run against the repo headers with and without REMORA_USE_CBLAS under "
        "ASan/UBSan, compared value-for-value with the model run on rationals, plus an independent naive-loop oracle "
        "(defining formulas on plain std::vector copies) that turns a disagreement into a concrete failing input."),
  note=TRUST + "floating-point rounding is not modelled (data are kept exactly representable, comparison is exact); "
       "which kernel the tag dispatch selects (default/cblas, blockwise vs element-wise evaluation), the template meta-program that "
       "selects which rule fires, sparse containers and sparse kernels, gemv / trmv / trmm / syrk / tpmv / conv2d kernels and "
       "the BLAS library itself are exercised by the correspondence only; the kernel theorems of (iv)/(v) are about executable "
       "models whose loops mirror the C++ (tile updates are pointwise block additions, buffers are index functions; the SIMD "
       "vector type and alignment are not modelled), tied by the pinned skeletons, the regenerated constants and the direct-call "
       "correspondence; 7 of the 93 rewrite-rule bodies cannot be instantiated by any C++ program (confirmed by the compiler on "
       "every run) and 17 of the 86 sound rules are not part of the generated executable optimiser (their lemmas are proved, the "
       "optimiser skips them); max/min of an EMPTY operand returns numeric_limits lowest()/max() and is outside the denotation; "
       "mixed value types are tied on exactly representable data only (int division and float rounding are not modelled); "
       "the per-rule witnesses of family R are fixed programs (one or two argument sets per rule, more in the thorough tier), "
       "the rule range(diagonal_matrix) is exercised on diagonal windows only (its REMORA_RANGE_CHECK precondition); "
       "whether a statement makes a rule fire is decided by the class-level interpreter of the parsed table, not by the C++ compiler; "
       "shapes beyond the listed boundary values are sampled, not exhausted; the "
       "assignment theorems are about the element loop on an abstract lawful memory, the hand-written model is tied by "
       "the correspondence, the rule table by translation.",
  technique="Lean 4 proof over a deep embedding and over executable blocked-kernel models + per-run translation of the rewrite-rule table into lemmas and of the kernels' blocking constants (loop skeletons pinned) + differential correspondence with generated C++ programs and with directly called kernels (ASan/UBSan, both BLAS configurations)",
  design="§6 C01")

FINISH = dict(level="proof",
              rule="generated programs of typed remora statements (expression trees of bounded depth over dense "
                   "row/column-major matrices and vectors, proxies, all assignment forms, explicit aliasing) from one "
                   "SplitMix64 stream, preceded by the directed program (structure fixed in the quick tier, data from the seed; "
                   "counted separately as directed_evaluations); a statement is non-trivial if its right-hand side has depth >= 1; "
                   "distinct = distinct op text")

LAKE_TARGETS = ["SharkVerif.Props.C01", "SharkVerif.Gen.RemoraRules", "SharkVerif.Gen.RemoraOpt",
                "SharkVerif.Gen.RemoraKernelConsts", "SharkVerif.Lemmas.RemoraKernels", "drv_c01"]
JOBS = int(os.environ.get("C01_JOBS", "4"))
# one thread in the harness: OpenMP/OpenBLAS worker threads spin-wait, which makes the many short harness
# runs of a shrink very slow on a loaded machine (and a single thread keeps the kernels' summation order fixed)
os.environ.setdefault("OMP_NUM_THREADS", "1")
os.environ.setdefault("OPENBLAS_NUM_THREADS", "1")
GEN_DIR = os.path.join(core.CACHE, "gen", "C01")


def classify(ops, res):
    stm = [o for o in ops if o.startswith(("stmt", "red"))]
    last = stm[-1] if stm else ""
    form = last.split()[2] if len(last.split()) > 2 else "?"
    heads = sorted(set(re.findall(r"\((\w+)", last)))
    sig = form + ":" + "+".join(heads)
    if res.crash:
        m = re.search(r"ERROR: AddressSanitizer: (\S+)|runtime error: ([^\n]*)|SUMMARY: \w+Sanitizer: (\S+)", res.stderr)
        tag = (m.group(1) or m.group(2) or m.group(3)) if m else "crash"
        tag = re.sub(r"[^A-Za-z0-9_-]+", "-", tag)
        return f"crash:{tag[:48]}:{sig}", f"harness aborted ({tag}) on {stm[-3:]}"
    if res.oracle:
        m = re.search(r"!oracle (\S+?):", res.oracle[0] + ":")
        return f"oracle:{m.group(1)}:{sig}", f"independent oracle disagrees with remora ({res.oracle[0][-200:]}) on {stm[-3:]}"
    return f"mismatch:{sig}", f"model and implementation disagree at line {res.diff_at} on {stm[-3:]}"


def load_corpus():
    """corpus files: op lines; statements are numbered `stmt @ ...` and renumbered here"""
    d = os.path.join(core.VERIF, "corpus", "C01")
    out = []
    if os.path.isdir(d):
        for fn in sorted(os.listdir(d)):
            if not fn.endswith(".txt"):
                continue
            ops = [l.strip() for l in open(os.path.join(d, fn)) if l.strip() and not l.startswith("#")]
            if ops:
                out.append((fn, ops))
    return out


# ---------------------------------------------------------------------------------------------
# compile the generated TUs (at most JOBS compilers at a time), dependency-hash cached
# ---------------------------------------------------------------------------------------------
def compile_program(ctx, name, tus, flags, rejected=None):
    """tus: list of (filename, source text).  Returns exe path or None."""
    if core.REPO != "/repo":
        # objects and executables of a scratch tree (VERIF_REPO) live beside, not over, those of /repo:
        # the warm cache of /repo survives, and two trees can be checked at the same time
        name = f"{name}-{core.sha(os.path.abspath(core.REPO))[:8]}"
    if not ctx.quick:
        name += "-thorough"        # the two tiers may run side by side
    inc = ctx.shark_h()
    allflags = ctx.BASE_FLAGS + ctx.SAN_FLAGS + list(flags) + \
        ["-I" + inc, "-I" + os.path.join(core.REPO, "include"), "-I" + os.path.join(core.VERIF, "harness")]
    os.makedirs(GEN_DIR, exist_ok=True)
    os.makedirs(os.path.join(core.CACHE, "obj"), exist_ok=True)
    os.makedirs(os.path.join(core.CACHE, "bin"), exist_ok=True)
    srcs = [os.path.join(core.VERIF, "harness", "c01.cpp")]
    for fn, text in tus:
        p = os.path.join(GEN_DIR, fn)
        if not os.path.exists(p) or open(p).read() != text:
            with open(p, "w") as f:
                f.write(text)
        srcs.append(p)

    def one(s):
        tag = core.sha(name + "|" + s + "|" + " ".join(flags))[:14]
        obj = os.path.join(core.CACHE, "obj", f"c01-{tag}.o")
        dep, key = obj + ".d", obj + ".key"
        want = ctx._depkey(s, dep, allflags)
        if want and os.path.exists(obj) and os.path.exists(key) and open(key).read() == want:
            return obj, False, ""
        t = time.time()
        rc, out = core.sh(["g++", *allflags, "-MD", "-MF", dep, "-c", s, "-o", obj], timeout=3000)
        if rc != 0:
            # keep the essentials: error lines and the generated statements they come from
            keep, srcl = [], open(s).read().splitlines()
            for l in out.splitlines():
                if "error" in l:
                    keep.append(l[:500])
                mm = re.search(re.escape(os.path.basename(s)) + r":(\d+):\d+:", l)
                if mm and int(mm.group(1)) <= len(srcl):
                    st = "  statement: " + srcl[int(mm.group(1)) - 1][:400]
                    if st not in keep:
                        keep.append(st)
            return None, True, f"{s}:\n" + "\n".join(keep[:12])
        with open(key, "w") as f:
            f.write(ctx._depkey(s, dep, allflags))
        ctx.count("compile_s", round(time.time() - t, 1))
        return obj, True, ""

    with ThreadPoolExecutor(max_workers=JOBS) as ex:
        res = list(ex.map(one, srcs))
    bad = [r[2] for r in res if r[0] is None]
    if bad:
        ids = sorted({int(m.group(2)) for b in bad for m in re.finditer(r"statement: static \w+ (run|red|exp|rexp)_(\d+)\(", b)})
        if ids and rejected is not None:
            for b in bad:
                errs = [l for l in b.splitlines() if "error" in l]
                rejected.append(dict(ids=ids, error=(errs[0] if errs else b)[-300:]))
            return ids
        ctx.log("generated TU failed to compile:\n" + bad[0])
        ctx.broken("harness-build", name, bad[0][-3000:])
        return None
    objs = [r[0] for r in res]
    exe = os.path.join(core.CACHE, "bin", name)
    keyf = exe + ".key"
    lk = core.sha("|".join(objs + [core.file_sha(o) for o in objs]))
    if not (os.path.exists(exe) and os.path.exists(keyf) and open(keyf).read() == lk):
        rc, out = core.sh(["g++", *allflags, *objs, "-o", exe, "-lopenblas"])
        if rc != 0:
            ctx.log(out[-4000:])
            ctx.broken("harness-build", name, out[-3000:])
            return None
        with open(keyf, "w") as f:
            f.write(lk)
    ctx.cov.setdefault("harness_rebuilt", {})[name] = sum(1 for r in res if r[1])
    return exe


def load_calc():
    tj = os.path.join(GEN_DIR, "rules.json")
    if os.path.exists(tj):
        from checks import c01cls
        return c01cls.ClassCalc(json.load(open(tj)))
    return None


def corpus_program(ctx, calc):
    """corpus cases (minimised past failures, hand-written edge cases): (dense cases, sparse-container cases)"""
    cg = c01gen.CorpusGen(calc)
    dense, sparse, k = [], [], 0
    for fn, lines in load_corpus():
        try:
            case, k = cg.load(lines, k)
            (sparse if any(l.startswith(("svec", "smat")) for l in lines) else dense).append(case)
            ctx.count("corpus_cases")
        except Exception as ex:
            ctx.broken("corpus", fn, f"corpus case cannot be rendered: {ex}")
    return dense, sparse


def gen_program(ctx, calc, ncases, nstmts, maxdepth, use_sparse):
    """returns [(init ops, [(k, op, src, info)])]"""
    r = ctx.rng.fork("c01-program")
    g = c01gen.Gen(r, ctx, maxdepth=maxdepth, calc=calc)
    g.use_sparse = use_sparse
    cases, k = [], 100000        # statement numbers of the generated program (corpus uses 0..)
    for _ in range(ncases):
        init = g.new_case()
        stmts = []
        for _ in range(nstmts):
            st = g.reduction(k) if r.chance(1, 6) else g.statement(k)
            if st is None:
                continue
            stmts.append((k,) + st)
            k += 1
        cases.append((init, stmts))
    if calc is not None:
        ctx.cov["rewrite_rules_fired_in_generated_program"] = dict(sorted(calc.fired.items()))
        ctx.cov["rewrite_rules_fired_distinct"] = len(calc.fired)
    ctx.cov["combinations_rejected_as_not_in_library"] = g.unsupported
    return cases


def render(cases, per_tu, dropped=(), shared=False):
    """cases: [(init ops, [(k, op, src, info)])] -> (op-line cases, TUs, infos); a case is cut at
    its first dropped statement.  shared: a statement number may occur in several cases (directed
    program: shape-independent statements run on many stores); its source is rendered once and a
    dropped statement is skipped instead of cutting the case"""
    out, srcs, infos, seen = [], [], [], set()
    for init, stmts in cases:
        ops = list(init)
        for (k, op, src, info) in stmts:
            if k in dropped:
                if shared:
                    continue
                break
            ops.append(op); infos.append(info)
            if not (shared and k in seen):
                srcs.append(src)
            seen.add(k)
        out.append(ops)
    tus = []
    for i in range(0, len(srcs), per_tu):
        body = c01gen.PRELUDE + "".join(srcs[i:i + per_tu]) + c01gen.POSTLUDE
        tus.append((f"gen_{core.sha(body)[:16]}.cpp", body))
    return out, tus, infos


def record_distribution(ctx, cases, infos):
    for inf in infos:
        ctx.hist("form", inf["form"])
        ctx.hist("rhs_depth", inf["depth"])
        ctx.hist("target", inf["target_kind"] + ":" + ("+".join(inf["target_ops"]) or "container"))
        ctx.hist("target_proxy_nesting", len(inf["target_ops"]))
        if inf["aliased"]:
            ctx.count("statements_with_target_on_rhs")
        for o in set(inf["ops"]):
            ctx.hist("operator", o)
        sh = inf["shape"]
        if sh is not None:
            for d in (sh if isinstance(sh, tuple) else (sh,)):
                ctx.hist("target_dim", d)
    ctx.cov["evaluations"] = len(infos)
    texts = {o for c in cases for o in c if o.startswith(("stmt", "red"))}
    ctx.cov["distinct_nontrivial"] = len({t.split(" ", 2)[2] for t, inf in zip(
        [o for c in cases for o in c if o.startswith(("stmt", "red"))], infos) if inf["depth"] >= 1})
    ctx.cov["cases"] = len(cases)


CONFIGS = [("default", []), ("cblas", ["-DREMORA_USE_CBLAS"])]


def translate(ctx):
    ok = True
    if os.path.exists(os.path.join(core.VERIF, "translate", "remora_rules.py")):
        ok = ctx.translate("remora_rules.py")
    # blocking constants of the dense kernels + pinned loop skeletons (Gen/RemoraKernelConsts.lean)
    return ctx.translate("remora_kernels.py") and ok


def build(ctx):
    """setup: pre-compile the fixed part of the harness and the corpus program (the generated
    program depends on the seed and is compiled by the run itself, object files are cached)"""
    translate(ctx)
    calc = load_calc()
    dense_c, sparse_c = corpus_program(ctx, calc)
    _, tus, _ = render(dense_c + sparse_c, 1000)
    exe = None
    for cname, flags in CONFIGS:
        exe = compile_program(ctx, f"c01-corpus-{cname}", tus, flags)
    return exe


def run(ctx):
    ctx.trusted += ["correspondence harness harness/c01.cpp + c01_harness.hpp + generator checks/c01gen.py",
                    "kernel harness harness/c01k.cpp + checks/c01kern.py; translator translate/remora_kernels.py (constants, skeleton hashes)",
                    "translator translate/remora_rules.py (renders the rewrite table as Lean lemmas)",
                    "g++ / ASan / UBSan runtime for the real code's behaviour (not a theorem)"]
    ctx.assumptions += ["operands respect the documented size preconditions (REMORA_SIZE_CHECK / REMORA_RANGE_CHECK)",
                        "exact arithmetic: data are small integers / dyadic rationals bounded so that every double operation is exact"]
    translate(ctx)
    try:
        tab = json.load(open(os.path.join(GEN_DIR, "rules.json")))
        ctx.cov["rewrite_rules_total"] = tab["total"]
        ctx.cov["rewrite_rules_translated_to_lemmas"] = tab["translated"]
        ctx.cov["rewrite_rules_uninstantiable"] = [f"{r['opt']}<{r['pattern']}>: {r['reason']}"[:200]
                                                   for r in tab["rules"] if r["status"] == "uninstantiable"]
        ctx.cov["rewrite_rules_with_implicit_conversions"] = [r["name"] for r in tab["rules"] if r.get("conversions")]
        # the C++ compiler must agree that the rules classified as uninstantiable cannot be instantiated
        c01neg.confirm(ctx, core.REPO, ctx.shark_h(), tab, os.path.join(GEN_DIR, "neg"), JOBS)
    except OSError:
        pass
    mods = ["SharkVerif.Props.C01"]
    if os.path.exists(os.path.join(core.LEAN, "SharkVerif", "Gen", "RemoraRules.lean")):
        mods.append("SharkVerif.Gen.RemoraRules")
    if os.path.exists(os.path.join(core.LEAN, "SharkVerif", "Gen", "RemoraOpt.lean")):
        mods.append("SharkVerif.Gen.RemoraOpt")
    mods += ["SharkVerif.Gen.RemoraKernelConsts", "SharkVerif.Lemmas.RemoraKernels"]
    ok = ctx.prove(mods)
    ctx.cov["rewrite_rule_lemmas_proved"] = sum(1 for n in ctx.obligations if ".rule_" in n and not n.endswith("_wf")) if ok else 0
    ctx.cov["rewrite_rule_wf_lemmas_proved"] = sum(1 for n in ctx.obligations if ".rule_" in n and n.endswith("_wf")) if ok else 0
    # every generated theorem must have been seen by the audit (one AUDIT line each)
    if ok:
        audited = {n.split(".")[-1] for n in ctx.obligations}
        for gen in ("RemoraRules.lean", "RemoraOpt.lean", "RemoraKernelConsts.lean"):
            gp = os.path.join(core.LEAN, "SharkVerif", "Gen", gen)
            if os.path.exists(gp):
                missing = [t for t in re.findall(r"^theorem (\S+)", open(gp).read(), re.M) if t not in audited]
                if missing:
                    ctx.broken("audit", "unaudited:" + gen, f"generated theorems without an audit line: {missing[:5]}")
    try:
        ctx.cov["rules_in_generated_optimiser"] = int(re.search(r"genOptRuleCount : Nat := (\d+)", open(os.path.join(
            core.LEAN, "SharkVerif", "Gen", "RemoraOpt.lean")).read()).group(1))
    except Exception:
        pass
    if not ctx.quick:
        ctx.leanchecker(mods)
    drv = ctx.driver("drv_c01")
    if os.environ.get("C01_NO_DRIVER"):       # development aid: behave as if the model driver did not build
        ctx.broken("build", "drv_c01", "C01_NO_DRIVER set")
        drv = None
    if not drv:
        # the Lean side does not build: the generated C++ programs are still compiled and run against the
        # naive-loop oracle of the harness alone, so that a concrete failing input is still searched for
        ctx.log("model driver unavailable: running the programs against the harness oracle alone")
    try:
        run_programs(ctx, drv)
    finally:
        link_broken_rule_lemmas(ctx)


def run_programs(ctx, drv):
    ncases, nstmts, maxdepth, per_tu = (30, 8, 3, 24) if ctx.quick else (100, 10, 4, 30)
    if os.environ.get("C01_ONLY_CORPUS"):      # development aid: corpus cases only
        ncases = 0
    calc = load_calc()
    # ---- 0. the blocked kernels called directly against the kernel models (constants from the translator)
    if drv:
        c01kern.run(ctx, drv)
    # ---- 1. corpus first: its own small program
    dense_c, sparse_c = corpus_program(ctx, calc)
    sparse_ok = True
    if dense_c or sparse_c:
        cases_d, tus, _ = render(dense_c + sparse_c, 1000)
        nd = len(dense_c)
        for cname, flags in CONFIGS:
            exe = compile_program(ctx, f"c01-corpus-{cname}", tus, flags)
            if not exe or isinstance(exe, list):
                continue
            if not drv:
                core.oracle_only(ctx, f"K-C01-corpus[{cname}]", cases_d, [exe], classify, max_report=12)
                continue
            if nd:
                core.correspond(ctx, f"K-C01-corpus[{cname}]", cases_d[:nd], [exe], [drv], classify, max_report=12, keep_prefix=100000)
            if cases_d[nd:]:
                bad = core.correspond(ctx, f"K-C01-corpus-sparse[{cname}]", cases_d[nd:], [exe], [drv], classify,
                                      max_report=12, keep_prefix=100000)
                sparse_ok = sparse_ok and bad == 0
    ctx.cov["sparse_operands_in_generated_program"] = sparse_ok
    if not sparse_ok:
        ctx.log("sparse container corpus fails on this tree: generated programs use dense operands only")
    if ncases == 0:
        ctx.cov["evaluations"] = ctx.cov.get("ops_compared", 0)
        ctx.cov["distinct_nontrivial"] = ctx.cov.get("corpus_cases", 0)
        return
    # ---- 2. directed program (aliasing proxy pairs, folds on sign classes, blocking constants)
    directed, skipped = c01dir.directed_program(ctx, calc, ctx.quick)
    ctx.cov["directed_combinations_rejected_as_not_in_library"] = skipped
    run_program(ctx, "dir", directed, 30 if ctx.quick else 40, drv, shared=True)
    if os.environ.get("C01_ONLY_DIRECTED"):   # development aid
        ctx.cov["evaluations"] = ctx.cov.get("directed_evaluations", 0)
        ctx.cov["distinct_nontrivial"] = ctx.cov.get("dir_statements_generated", 0)
        return
    # ---- 3. generated program
    program = gen_program(ctx, calc, ncases, nstmts, maxdepth, sparse_ok)
    run_program(ctx, "gen", program, per_tu, drv, shared=False)


def rule_report(ctx, infos):
    """per rule of the table: number of statements of the directed program (after dropping what the compiler
    rejected) that are a witness for it / that make it fire at all (class-level interpreter checks/c01cls.py)"""
    try:
        tab = json.load(open(os.path.join(GEN_DIR, "rules.json")))
    except OSError:
        return
    names = [r["name"] for r in tab["rules"] if r["status"] == "translated"]
    wit, fired = {}, {}
    for inf in infos:
        if inf.get("family") != "rule":
            continue
        if inf.get("witness"):
            wit[inf["witness"]] = wit.get(inf["witness"], 0) + 1
        for r in inf.get("rules", []):
            fired[r] = fired.get(r, 0) + 1
    ctx.cov["rewrite_rule_witness_statements"] = {n: wit.get(n, 0) for n in names}
    ctx.cov["rewrite_rules_fired_in_directed_program"] = {n: fired.get(n, 0) for n in names}
    never = [n for n in names if not fired.get(n)]
    ctx.cov["rewrite_rules_never_fired_in_directed_program"] = never
    ctx.cov["rewrite_rules_with_directed_witness"] = sum(1 for n in names if wit.get(n))
    ctx.log(f"directed program: {len(names) - len(never)} of {len(names)} rewrite rules fire in a dedicated statement"
            + (f"; NEVER fired: {never}" if never else ""))


def rules_of_statement(calc_table, ops):
    """names of the rewrite rules the LAST statement / reduction of the recorded op lines makes fire"""
    from checks import c01cls
    calc = c01cls.ClassCalc(calc_table)
    decl = [o for o in ops if o.strip() and not o.startswith(("stmt", "red"))]
    stm = [o for o in ops if o.startswith(("stmt", "red"))]
    if not stm:
        return set()
    try:
        c01gen.CorpusGen(calc).load(decl + [stm[-1]], 0)
    except Exception:
        pass
    return set(calc.fired)


def link_broken_rule_lemmas(ctx):
    """a regenerated rule lemma that no longer proves is RESOLVED by a concrete failing input whose statement makes
    that very rule fire: the input is the witness of the unsound rule (the break is then not reported a second time
    as `no-failing-input-found`)"""
    pending = [b for b in ctx.breaks if not b["resolved"] and b["kind"] == "theorem" and ":rule_" in b["name"]]
    if not pending:
        return
    try:
        tab = json.load(open(os.path.join(GEN_DIR, "rules.json")))
    except OSError:
        return
    fired_by_violation = []
    for path, found in ctx.violations:
        if not found:
            continue
        try:
            rep = json.load(open(path))
        except (OSError, ValueError):
            continue
        fired_by_violation.append((path, rules_of_statement(tab, rep.get("ops", []))))
    for b in pending:
        rule = b["name"].split(":", 1)[1]
        rule = rule[:-3] if rule.endswith("_wf") else rule
        hits = [p for p, fr in fired_by_violation if rule in fr]
        if hits:
            b["resolved"] = True
            ctx.cov.setdefault("broken_rule_lemmas_with_concrete_witness", {})[rule] = hits[:3]
            ctx.log(f"broken lemma {b['name']}: concrete failing input in {hits[0]}")


def run_program(ctx, tag, program, per_tu, drv, shared):
    """compile a program in both configurations and compare it with the model, case by case"""
    total = len({k for _, st in program for (k, _, _, _) in st})
    base = "c01" if tag == "gen" else "c01-" + tag
    name = "K-C01" if tag == "gen" else "K-C01-" + tag
    # statements the C++ compiler rejects (combinations the library cannot instantiate and the rule
    # table does not tell us about, e.g. mixed-orientation kernels) are dropped and counted
    dropped, rejected = set(), []
    for _ in range(6):
        cases, tus, infos = render(program, per_tu, dropped, shared)
        res = compile_program(ctx, f"{base}-default", tus, [], rejected)
        if not isinstance(res, list):
            break
        dropped |= set(res)
    pre = "" if tag == "gen" else tag + "_"
    ctx.cov[pre + "statements_generated"] = total
    ctx.cov[pre + "statements_rejected_by_compiler"] = len(dropped)
    ctx.cov[pre + "compiler_rejections"] = rejected[:8]
    if len(dropped) * 5 > total:
        ctx.broken("harness-build", f"{base}-default", f"{len(dropped)} of {total} generated statements do not compile: {rejected[:2]}")
        return
    if tag == "gen":
        record_distribution(ctx, cases, infos)
        ctx.sample({"case": cases[len(cases) // 2][-4:]})
    else:
        for inf in infos:
            ctx.hist("directed_family", inf.get("family", "?"))
            ctx.hist("directed_form", inf["form"])
        ctx.cov["directed_evaluations"] = len(infos)
        ctx.cov["directed_cases"] = len(cases)
        rule_report(ctx, infos)
    for cname, flags in CONFIGS:
        exe = compile_program(ctx, f"{base}-{cname}", tus, flags)
        if not exe or isinstance(exe, list):
            continue
        if not drv:
            core.oracle_only(ctx, f"{name}[{cname}]", cases, [exe], classify, max_report=12)
            continue
        if shared:
            # every case declares its own variables: keep its whole declaration prefix when shrinking
            by_prefix = {}
            for c in cases:
                by_prefix.setdefault(sum(1 for o in c if not o.startswith(("stmt", "red"))), []).append(c)
            for kp, cs in sorted(by_prefix.items()):
                core.correspond(ctx, f"{name}[{cname}]/{kp}", cs, [exe], [drv], classify, max_report=12, keep_prefix=kp)
        else:
            core.correspond(ctx, f"{name}[{cname}]", cases, [exe], [drv], classify, max_report=12,
                            keep_prefix=sum(1 for o in cases[-1] if not o.startswith(("stmt", "red"))))


def replay(ctx, rep):
    """re-render the recorded op lines (statements are compiled per run), run model and implementation"""
    if "ops" not in rep:
        print("this replay records a broken obligation / build, not an input:")
        print(json.dumps(rep.get("broken", rep), indent=1)[:3000])
        return 1
    translate(ctx)
    calc = load_calc()
    case, _ = c01gen.CorpusGen(calc).load([o for o in rep["ops"] if o.strip()], 0)
    cases, tus, _ = render([case], 1000)
    cblas = "cblas" in os.path.basename((rep.get("harness_cmd") or ["c01-default"])[0])
    exe = compile_program(ctx, "c01-replay", tus, ["-DREMORA_USE_CBLAS"] if cblas else [])
    drv = ctx.driver("drv_c01")
    if not exe or isinstance(exe, list) or not drv:
        print("replay: could not build", exe)
        return 1
    res = core.run_case(ctx, [exe], [drv], cases[0])
    for o, a, b in zip(cases[0], res.impl, res.model + [""] * len(res.impl)):
        print(f"op   : {o}\nimpl : {a}\nmodel: {b}")
    if res.stderr.strip():
        print("stderr:", res.stderr[-2500:])
    print("OK" if res.ok else "FAILS")
    return 0 if res.ok else 1
