"""C12 — cross-validation folds partition the data.

* T0: translate/batch_arith.py regenerates Gen/BatchArith.lean (optimalBatchSizes, batchPartitioning);
  Props/C12.lean is re-proved against it.
* K-C12: every fold-construction function of CVDatasetTools.h is run on real LabeledData objects and on the
  native driver of Model/CV.lean; the random draws of the real code are observed and fed to the model, which
  checks them against its specification relation before applying them (tools/obsfeed.py).
"""
import os, sys
from vlib import core
from checks import dsgen

TRUST = ("Lean 4.33 kernel; axioms at most propext/Classical.choice/Quot.sound (audited per run); "
         "optimalBatchSizes/batchPartitioning machine-translated from the C++ on every run (translate/batch_arith.py trusted, cross-checked "
         "by the correspondence); fold construction is a hand-written model (Model/CV.lean: the element-dealing loops are modelled by their "
         "net effect 'fold p receives its elements in processing order, cut by the computed batch sizes') tied to the C++ by the differential "
         "correspondence only; ")
MANIFEST = dict(
  text=("Theorems (Props/C12.lean, re-proved on every run against the regenerated batch arithmetic) for all partition-size vectors, maximum batch "
        "sizes, fold counts, index vectors and RNG draws: the machine-translated batchPartitioning returns the prefix sums of the per-partition batch "
        "counts as fold starts and the concatenated per-partition batch sizes (each block summing to its partition size) -- unconditionally when every "
        "partition is non-empty, and for empty folds/classes under the explicit hypothesis that the source returns no batch for zero elements (false on "
        "the unrepaired source: finding F1); CVFolds built from such starts have validation batch sets that are consecutive ranges, pairwise disjoint "
        "and covering all batches; the validation parts concatenated are exactly the reorganised dataset; training indices are exactly the complement, "
        "and validation + training elements are a permutation of the dataset; equal-size fold sizes floor(n/k)(+1) sum to n, differ by at most one and "
        "equal what round-robin dealing delivers; for every admissible (class-sorted) dealing order of createCVSameSizeBalanced any two folds receive counts of "
        "any class that differ by at most one; for the common tail "
        "of createCVIndexed / createCVFullyIndexed / createCVIID / createCVSameSizeBalanced (model `regroup`): the reorganised dataset is well-formed, "
        "keeps its shapes (repaired code, finding F11), is the picked elements grouped by requested fold (a permutation: each exactly once with its "
        "label), and folds.validation(p) holds exactly the elements assigned to fold p; createCVIndexed yields a permutation of the original pairs; "
        "createCVSameSize, for every permutation the shuffle may draw, yields a well-formed permutation of the original pairs in exactly the computed "
        "batch layout with disjoint covering folds. The model is tied to the six fold-construction functions by an exact correspondence in which the "
        "RNG draws of the real code are observed and checked against the model's relation, on unsigned / RealVector / CompressedRealVector / user-struct inputs under "
        "ASan/UBSan (thorough tier exhaustive over (n, k, batch size) for n <= 30), plus an independent in-harness oracle for disjointness, cover, "
        "complement, pairing, fold-size and class balance, requested fold, recreation indices and shape."),
  note=TRUST + "checked by correspondence + oracle only (no theorem): that the dealing order the real createCVSameSizeBalanced draws is class-sorted (validSeq is "
       "checked on every observed order) and that the element-dealing loops equal their net effect `regroup`; the RNG "
       "itself is not modelled. Open findings F1, F11 (findings_proposed/C12.md; F12 and F9 were repaired upstream meanwhile) make the check print VIOLATION on the unrepaired tree.",
  technique="Lean 4 proofs over the regenerated batch arithmetic, the fold index sets and the regrouping + differential correspondence with observed RNG draws (ASan/UBSan)",
  design="§6 C12")

FINISH = dict(level="proof",
              rule="self-contained fold-construction calls (function, fold count, max batch size, initial batching, labels, index vectors, seed) from one "
                   "SplitMix64 stream, thorough tier additionally all (n, k, batch size) with n <= 30 for samesize/balanced/indexed; non-trivial = "
                   "at least 2 folds and n not divisible by k or by the batch size; distinct = distinct op text")

LAKE_TARGETS = ["SharkVerif.Props.C12", "drv_c12"]
TYPES = [("uint", []), ("real", ["3"]), ("sparse", ["7"]), ("blob", [])]
RNG_OPS = "iid,samesize,balanced,batch"


def translate(ctx):
    return ctx.translate("batch_arith.py")


def build(ctx):
    return ctx.harness("c12", ["c12.cpp"], repo_sources=["src/Core/Random.cpp"])


def labels_for(r, n, k):
    style = r.below(6)
    if style == 0: pool = [0]
    elif style == 1: pool = [0, 1]
    elif style == 2: pool = list(range(r.range(2, 5)))
    elif style == 3: pool = [0, 0, 0, 0, 0, 1, 2]          # classes smaller than the fold count
    elif style == 4: pool = [0, 2]                         # absent class
    else: pool = [1, 3, 4]
    return [r.choice(pool) for _ in range(n)]


def gen_op(ctx, r):
    n = r.choice([1, 2, 3, 4, 5, 6, 7, 9, 10, 12, 16, 17, 24, 25, r.range(1, 60), r.range(1, 60)])
    k = r.choice([1, 2, 3, min(n, 5), n, r.range(1, n), r.range(1, n)])
    k = max(1, min(k, n))
    bs = r.choice([1, 2, 3, 4, n, n + 1, r.range(1, n + 2)])
    m0 = r.choice([0, 1, 2, 3, n, r.range(1, n + 1)])
    labels = labels_for(r, n, k)
    fn = r.choice(["indexed", "indexed", "fully", "iid", "samesize", "samesize", "balanced", "balanced", "batch"])
    seed = r.below(1000000)
    L = " ".join(map(str, labels))
    ctx.hist("function", fn); ctx.hist("n", min(n // 10 * 10, 60)); ctx.hist("folds", min(k, 10))
    ctx.hist("n_mod_k", "divides" if n % k == 0 else "remainder"); ctx.hist("batch_size_rel", "1" if bs == 1 else ("<n" if bs < n else ">=n"))
    if fn == "indexed":
        style = r.below(4)
        if style == 0: idx = [i % k for i in range(n)]
        elif style == 1: idx = [r.below(k) for _ in range(n)]
        elif style == 2: idx = sorted(r.below(k) for _ in range(n))
        else:
            idx = [r.below(k) for _ in range(n)]
            if k >= 2:
                gap = r.below(k)                                  # a fold that receives no element
                idx = [x if x != gap else (x + 1) % k for x in idx]
                ctx.count("indexed_with_empty_fold")
        return f"indexed {k} {bs} {m0} {n} {L} " + " ".join(map(str, idx))
    if fn == "fully":
        order = list(range(n))
        for i in range(n - 1, 0, -1):
            j = r.below(i + 1); order[i], order[j] = order[j], order[i]
        part = [r.below(k) for _ in range(n)]
        return f"fully {k} {bs} {m0} {n} {L} " + " ".join(map(str, order)) + " " + " ".join(map(str, part))
    if fn == "batch":
        return f"batch {k} 0 {m0} {n} {seed} {L}"
    return f"{fn} {k} {bs} {m0} {n} {seed} {L}"


def nontrivial(op):
    t = op.split()
    k, bs, n = int(t[1]), int(t[2]), int(t[4])
    return k >= 2 and (n % k != 0 or (bs and n % bs != 0))


def run(ctx):
    ctx.trusted += ["translator translate/batch_arith.py (clang-14 JSON AST -> Lean)",
                    "correspondence harness harness/c12.cpp + generator checks/c12.py + tools/obsfeed.py (feeds observed RNG draws to the model)",
                    "hand-written model Model/CV.lean, Model/Dataset.lean",
                    "ASan/UBSan runtime for the real code's memory safety (not a theorem)"]
    ctx.assumptions += ["1 <= folds, 1 <= maximum batch size, fold indices < folds, order vectors index existing elements",
                        "std::shuffle / random::discrete are treated as arbitrary: the theorems hold for every permutation / draw"]
    translate(ctx)
    ctx.prove(["SharkVerif.Props.C12"])
    if not ctx.quick:
        ctx.leanchecker(["SharkVerif.Props.C12"])
    exe = build(ctx)
    drv = ctx.driver("drv_c12")
    if not exe or not drv:
        return
    r = ctx.rng.fork("c12")
    cases = dsgen.load_corpus("C12")
    ctx.cov["corpus_cases"] = len(cases)
    nrand = 3000 if ctx.quick else 12000
    nrand = int(os.environ.get('VERIF_NCASES', nrand))            # self-tests: fewer random calls
    cases += [[gen_op(ctx, r)] for _ in range(nrand)]
    if not ctx.quick:
        # all (n, k, batch size) triples with n <= 24
        for n in range(1, 31):
            for k in range(1, n + 1):
                for bs in sorted({1, 2, 3, 5, n // 2 + 1, n, n + 1}):
                    L = " ".join(str((i * 7 + i // 3) % 3) for i in range(n))
                    cases.append([f"samesize {k} {bs} 0 {n} {n * 31 + k} {L}"])
                    cases.append([f"balanced {k} {bs} 3 {n} {n * 17 + k} {L}"])
                    cases.append([f"indexed {k} {bs} 2 {n} {L} " + " ".join(str(i % k) for i in range(n))])
        ctx.cov["exhaustive_triples_n_le_30"] = True
    ctx.cov["evaluations"] = len(cases) * len(TYPES)
    ctx.cov["distinct_nontrivial"] = len({c[0] for c in cases if nontrivial(c[0])})
    ctx.sample({"ops": [c[0] for c in cases[len(cases) // 2: len(cases) // 2 + 4]]})
    feed = os.path.join(core.VERIF, "tools", "obsfeed.py")
    def one(t):
        ty, shape = t
        hcmd = [exe, ty]
        dcmd = [sys.executable, feed, RNG_OPS, exe, ty, "--", drv, *shape]
        return core.correspond(ctx, f"K-C12[{ty}]", cases, hcmd, dcmd, classify, keep_prefix=0, env=dsgen.ASAN_ENV, timeout=900 if ctx.quick else 3600)
    dsgen.run_types(one, dsgen.types(TYPES, 'VERIF_C12_TYPES'))


def classify(ops, res):
    key, what = dsgen.classify(ops, res)
    fn = ops[0].split()[0] if ops else "?"
    if key.startswith("oracle:") and "shape-lost" in key:
        return f"F11:shape-lost:{fn}", f"{fn}: the reorganised dataset / its folds lost the input shape; ops {ops}"
    return key, what


def replay(ctx, rep):
    exe = build(ctx); drv = ctx.driver("drv_c12")
    cmd = list(rep.get("harness_cmd", [exe, "uint"])); cmd[0] = exe
    ty = cmd[1] if len(cmd) > 1 else "uint"
    shape = dict(TYPES).get(ty, [])
    feed = os.path.join(core.VERIF, "tools", "obsfeed.py")
    dcmd = [sys.executable, feed, RNG_OPS, exe, ty, "--", drv, *shape]
    res = core.run_case(ctx, cmd, dcmd, rep["ops"])
    for i in range(max(len(res.impl), len(res.model))):
        a = res.impl[i] if i < len(res.impl) else "<no output>"
        b = res.model[i] if i < len(res.model) else "<no output>"
        print(f"op   : {rep['ops'][i] if i < len(rep['ops']) else ''}\nimpl : {a}\nmodel: {b}")
    print("stderr:", res.stderr[-2000:])
    print("OK" if res.ok else "FAILS")
    return 0 if res.ok else 1
