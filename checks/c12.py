"""C12 — cross-validation folds partition the data.

* T0: translate/batch_arith.py regenerates Gen/BatchArith.lean (optimalBatchSizes, batchPartitioning);
  Props/C12.lean and Props/C12Ops.lean are re-proved against it.
* K-C12: histories — one of the fold-construction functions of CVDatasetTools.h on real LabeledData objects, then CVFolds
  operations, further constructions and nested constructions — are run on the real code and on the native driver of
  Model/CV.lean (which executes the statement-level loop models); the random draws of the real code are observed and fed
  to the model, which checks them against its specification relation before applying them (tools/obsfeed.py).
"""
import os, sys
from vlib import core
from checks import dsgen

TRUST = ("Lean 4.33 kernel; axioms at most propext/Classical.choice/Quot.sound (audited per run); "
         "optimalBatchSizes/batchPartitioning machine-translated from the C++ on every run (translate/batch_arith.py trusted, cross-checked "
         "by the correspondence); fold construction is a hand-written model (Model/CV.lean) that follows the C++ statement by statement "
         "(validation-size counting, batchPartitioning, the element-dealing loop with batchElements / validationSetStart / batchSizes[batchNumber], "
         "CVFolds(set, foldStart), detail::complement = copy + std::sort + std::set_difference, the fold loop of createCVBatch) and is tied to the "
         "C++ by the differential correspondence; ")
MANIFEST = dict(
  text=("Theorems (Props/C12.lean, Props/C12Ops.lean, Lemmas/{CVAny,DealLoop,CVEnd,CVMembers}.lean; re-proved on every run against the regenerated "
        "batch arithmetic) for ALL element counts, fold counts, maximum batch sizes (0 = unlimited included), label distributions, index vectors and "
        "permutations/draws standing for the RNG, with no side hypothesis left on the batch arithmetic: (1) the generated optimalBatchSizes / "
        "batchPartitioning are total (0 elements -> no batch; batch size 0 -> one batch) with closed form: fold starts = prefix sums, per fold "
        "ceil(p/m) non-empty batches <= m that differ by at most one and sum to p (fold_batch_layout, batchPartitioning_with_empty); (2) the "
        "element-dealing loop of createCVIndexed / createCVFullyIndexed / detail::createCVSameSizeBalanced, modelled with its three vectors, never "
        "leaves a vector and equals its specification `regroup` for every input (DealLoop.dealLoop_eq, regroupLoop_eq_regroup, dealInto_eq_regroup, "
        "balancedMembers_eq_regroup: also the batch layout taken from floor(n/k)(+1) beforehand); (3) detail::complement as computed (sort + "
        "set_difference) = the complement for every index set, unsorted or with repetitions (complement_as_computed, trainingFoldIndices_spec); "
        "the fold loop of createCVBatch = cutting the shuffled batch numbers into floor(nb/k)(+1) (batchFoldsLoop_eq); (4) for ANY CVFolds object "
        "(fold starts, explicit index sets in any order, createCVBatch, copies, repeated access) validation(i) = the listed batches in listed order, "
        "training(i) = exactly the other batches in dataset order, both well-formed with the element shapes kept, together a permutation of the "
        "dataset (any_folds_validation_training); (5) END TO END from the input dataset to the element lists of validation(p) / training(p): "
        "createCVIndexed / createCVIID (whatever is drawn) / createCVFullyIndexed: validation(p) = exactly the elements requested for fold p in "
        "processing order with their labels -- folds that receive no element included --, validation(p) ++ training(p) a permutation of the original "
        "pairs, shapes of the input kept (createCVIndexed_end_to_end, createCVIID_end_to_end, createCVFullyIndexed_end_to_end, regroup_end_to_end); "
        "createCVSameSize for every permutation: validation(p) = the p-th piece of the shuffled sequence cut into floor(n/k)(+1), fold sizes differ by "
        "at most one, validation ++ training a permutation (createCVSameSize_validation_exact, _end_to_end); createCVSameSizeBalanced for every "
        "class-wise shuffle: per class and pair of folds the member counts in validation(p), validation(q) differ by at most one (classes smaller "
        "than the fold count and absent classes included), fold sizes floor(n/k)(+1) (createCVSameSizeBalanced_end_to_end), validation(p) = the "
        "elements at first[j] with second[j] = p, i.e. the recreation indices describe the folds (createCVSameSizeBalanced_folds), for the "
        "membership-vector overload (regression labels) every class is dealt in one window of dealing positions, so its members are spread over "
        "any two folds with counts differing by at most one (balancedMembers_class_balance), and every outcome of the "
        "class-wise shuffles is a class-sorted permutation (balanced_dealing_order_class_sorted: a consequence of the loop structure, not an "
        "assumption); createCVBatch for every shuffle: dataset untouched, validation(i) = the dealt batches, training(i) = the others "
        "(createCVBatch_end_to_end), folds own floor(nb/k)(+1) batches (createCVBatch_fold_batch_counts); createCVSameSize keeps the shapes "
        "(createCVSameSize_shape_kept); nested cross-validation: folds of a training part partition that part and, with the outer validation part, "
        "the outer dataset (nested_createCVIndexed); (6) the constructions and accessors are defined (no undefined behaviour) for every admissible "
        "input incl. folds == 1, folds == n, n < batch size, empty folds, more folds than batches (regroup_total, createCVIndexed_total, "
        "createCVFullyIndexed_total, createCVSameSize_total, createCVSameSizeBalanced_total, createCVSameSizeBalancedMembers_total, createCVBatch_total). The model is tied to the real code by an exact correspondence on histories: one of the six "
        "construction functions, then CVFolds operations (show again / previous object unchanged / copy / CVFolds from fold starts / from explicit "
        "unsorted, overlapping or emptied index sets / the same on WeightedLabeledData / a second construction on the reorganised dataset / "
        "construction on training(i) or validation(i) = nested CV), RNG draws observed and checked against the model's relation, on unsigned / "
        "RealVector / CompressedRealVector / user-struct inputs x class labels / RealVector regression labels (balanced: detail:: overload with a "
        "membership vector; maximum batch size 256 goes through the default arguments, a few calls have 300-800 elements so that folds exceed the "
        "default batch size) under ASan/UBSan (thorough tier exhaustive over (n, k, batch size incl. 0) for n <= 30), plus an independent in-harness "
        "oracle: training indices = complement, validation/training elements = the batches of the dataset they name, disjointness, cover, pairing, "
        "fold sizes, class balance, per-fold batch count / batch sizes (ceil, <= max, differ by <= 1), requested fold, recreation indices, shapes, "
        "repeated access, weights stay with their elements. INCOMING BATCH LAYOUT: a quarter of the histories first bring the dataset variable "
        "into an arbitrary batch layout (ops data / repart / splitat / splice with keep-head, keep-tail, append variants: random compositions, "
        "single batch, all-singleton batches, splitAtElement / splice / append results, layouts with exactly the target number of batches but "
        "other sizes or the target sizes rotated, layouts left by earlier CV constructions and re-cut; some with 300-1100 elements and the "
        "default batch size) and then call a construction function on it; all clause oracles above apply to every construction (first call, "
        "`again`, `nest`), plus an independent second-code-path oracle inside the harness (exact, no tolerance): for createCVIndexed / "
        "FullyIndexed / IID / SameSize / SameSizeBalanced the same call with the same seed on a copy of the elements in the fresh "
        "createLabeledDataFromRange layout must give the same reorganised dataset and validation index sets. A third harness binary built WITHOUT NDEBUG runs the corpus and a sample of the "
        "histories with the assertions of the real code (SIZE_CHECK / SHARK_ASSERT / RANGE_CHECK) active."),
  note=TRUST + "modelling shortcut: subBatch's gather is modelled as picking the elements before the dealing loop runs; for well-formed datasets, "
       "existing positions and fold numbers below k this is proved equal to dealing the positions and gathering every completed batch "
       "(deal_positions_then_gather, pick_chunks), outside that domain both are undefined and only the correspondence ties them; "
       "tied by correspondence only (no theorem): "
       "SharedContainer::repartition / reorderElements inside createCVSameSize are the C03 models (their loops are proved in C03); sharing of batches between a CVFolds object and the dataset it was built from is not modelled "
       "(the harness makes subsets independent before repartitioning them, as the documentation demands); the RNG itself is not modelled (every "
       "theorem holds for all permutations / draws; observed draws are checked against the admissibility relation). createCVSameSizeBalanced: class "
       "balance on the elements of the validation parts is proved for class labels; for the membership-vector overload it is stated on dealing positions. "
       "Open findings F-C12-1 (CVFolds<WeightedLabeledData>::training does not compile) and F-C12-2 (debug builds abort on an empty last fold; "
       "createCVIID hits it by chance) are reported as KNOWN-FINDING (findings_proposed/C12.md, patches C12-F-C12-1.patch, C12-F-C12-2.patch).",
  technique="Lean 4 proofs (loop invariants, refinement of a statement-level model to its specification) over the regenerated batch arithmetic + differential correspondence on histories with observed RNG draws (ASan/UBSan)",
  design="§6 C12, §14 C12")

FINISH = dict(level="proof",
              rule="histories = one fold-construction call (function, fold count, max batch size incl. 0, initial batching, labels, index vectors, seed) "
                   "followed by 0-4 CVFolds operations / further constructions / nested constructions / re-layouts of the dataset variable, or (1 in 4) a "
                   "layout history = dataset + 1-3 layout ops (repartition / splitAtElement / splice / append) + construction + 0-2 follow-ups, all from one SplitMix64 stream; thorough tier "
                   "additionally all (n, k, batch size) with n <= 30 for samesize/balanced/indexed; non-trivial = a construction with at least 2 folds "
                   "and n not divisible by k or by the batch size; distinct = distinct op text")

PROPS = ["SharkVerif.Props.C12", "SharkVerif.Props.C12Ops"]
LAKE_TARGETS = PROPS + ["drv_c12"]
# (name, harness input type, label type, driver arguments)
TYPES = [("uint", "uint", "cls", []), ("real", "real", "cls", ["3"]), ("sparse", "sparse", "cls", ["7"]), ("blob", "blob", "cls", []),
         ("real-reg", "real", "reg", ["3"]), ("sparse-reg", "sparse", "reg", ["7"])]
TYPES_THOROUGH = [("uint-reg", "uint", "reg", []), ("blob-reg", "blob", "reg", [])]
RNG_OPS = "iid,samesize,balanced,batch,again,nest"
FN_NUM = {"indexed": 0, "fully": 1, "iid": 2, "samesize": 3, "balanced": 4, "batch": 5}


def translate(ctx):
    return ctx.translate("batch_arith.py")


def build(ctx):
    """two binaries (class labels / regression labels), compiled side by side"""
    from concurrent.futures import ThreadPoolExecutor
    with ThreadPoolExecutor(max_workers=2) as ex:
        a = ex.submit(ctx.harness, "c12", ["c12.cpp"], repo_sources=["src/Core/Random.cpp"])
        b = ex.submit(ctx.harness, "c12reg", ["c12.cpp"], flags=["-DC12_REG"], repo_sources=["src/Core/Random.cpp"])
        a, b = a.result(), b.result()
        # debug build (assertions active); built after the other two so that at most two compilers run at a time
        c = ctx.harness("c12dbg", ["c12.cpp"], flags=["-UNDEBUG"], repo_sources=["src/Core/Random.cpp"])
    return {"cls": a, "reg": b, "dbg": c} if a and b and c else None


def labels_for(ctx, r, n, k):
    style = r.below(7)
    ctx.hist("label_style", ["one-class", "binary", "multi", "classes-smaller-than-folds", "absent-class", "absent-classes-0-2", "sorted"][style])
    if style == 0: pool = [0]
    elif style == 1: pool = [0, 1]
    elif style == 2: pool = list(range(r.range(2, 5)))
    elif style == 3: pool = [0, 0, 0, 0, 0, 1, 2]          # classes smaller than the fold count
    elif style == 4: pool = [0, 2]                         # absent class
    elif style == 5: pool = [1, 3, 4]
    else: return sorted(r.below(3) for _ in range(n))
    return [r.choice(pool) for _ in range(n)]


def ceil_batches(size, bs):
    return 0 if size == 0 else (1 if bs == 0 else (size + bs - 1) // bs)


def gen_ctor(ctx, r):
    """-> (op line, number of batches of folds.dataset() if the generator can know it else a guess, n)"""
    n = r.choice([1, 2, 3, 4, 5, 6, 7, 9, 10, 12, 16, 17, 24, 25, r.range(1, 60), r.range(1, 60)])
    k = r.choice([1, 2, 3, min(n, 5), n, r.range(1, n), r.range(1, n)])
    k = max(1, min(k, n))
    bs = r.choice([0, 1, 1, 2, 3, 4, n, n + 1, r.range(1, n + 2), r.range(1, n + 2), 256])   # 256: the harness uses the default argument
    m0 = r.choice([0, 1, 2, 3, n, r.range(1, n + 1)])
    if r.below(60) == 0:                                    # folds larger than the default batch size of 256
        n = r.range(300, 800); k = r.choice([1, 2, 2, 3]); bs = r.choice([256, 256, 100, 0]); m0 = r.choice([0, 64, n])
        ctx.count("large_n_folds_beyond_default_batch_size")
    labels = labels_for(ctx, r, n, k)
    fn = r.choice(["indexed", "indexed", "fully", "iid", "samesize", "samesize", "balanced", "balanced", "batch"])
    seed = r.below(1000000)
    L = " ".join(map(str, labels))
    ctx.hist("function", fn); ctx.hist("n", min(n // 10 * 10, 60)); ctx.hist("folds", min(k, 10))
    ctx.hist("folds_class", "1" if k == 1 else ("n" if k == n else "between"))
    ctx.hist("n_mod_k", "divides" if n % k == 0 else "remainder")
    ctx.hist("batch_size_rel", "0=unlimited" if bs == 0 else "256=default-argument" if bs == 256 else "1" if bs == 1 else ("<fold" if bs < max(1, n // k) else "<n" if bs < n else ">=n"))
    ctx.hist("initial_batching", "default" if m0 == 0 else "1" if m0 == 1 else "<n" if m0 < n else ">=n")
    if bs and n // k > bs and (n // k) % ((n // k + bs - 1) // bs): ctx.count("fold_of_several_unequal_batches")
    same = [n // k + (1 if i < n % k else 0) for i in range(k)]
    if fn == "indexed":
        style = r.below(5)
        if style == 0: idx = [i % k for i in range(n)]
        elif style == 1: idx = [r.below(k) for _ in range(n)]
        elif style == 2: idx = sorted(r.below(k) for _ in range(n))
        elif style == 3: idx = [k - 1] * n                      # everything in the last fold, all others empty
        else:
            idx = [r.below(k) for _ in range(n)]
            if k >= 2:
                gap = r.below(k)                                  # a fold that receives no element
                idx = [x if x != gap else (x + 1) % k for x in idx]
        if len(set(idx)) < k: ctx.count("indexed_with_empty_fold")
        nb = sum(ceil_batches(idx.count(p), bs) for p in range(k))
        return f"indexed {k} {bs} {m0} {n} {L} " + " ".join(map(str, idx)), nb, n
    if fn == "fully":
        order = list(range(n))
        for i in range(n - 1, 0, -1):
            j = r.below(i + 1); order[i], order[j] = order[j], order[i]
        part = [r.below(k) for _ in range(n)]
        if len(set(part)) < k: ctx.count("indexed_with_empty_fold")
        nb = sum(ceil_batches(part.count(p), bs) for p in range(k))
        return f"fully {k} {bs} {m0} {n} {L} " + " ".join(map(str, order)) + " " + " ".join(map(str, part)), nb, n
    if fn == "batch":
        nb = ceil_batches(n, 256 if m0 == 0 else m0)
        ctx.hist("createCVBatch_batches_vs_folds", "fewer" if nb < k else "equal" if nb == k else "more")
        return f"batch {k} 0 {m0} {n} {seed} {L}", nb, n
    nb = sum(ceil_batches(x, bs) for x in same) if fn != "iid" else max(1, r.range(1, k + 1))
    return f"{fn} {k} {bs} {m0} {n} {seed} {L}", nb, n


def gen_follow(ctx, r, nb, n, kcur):
    """one follow-up line on the state; nb = (guessed) number of batches of the current folds' dataset, kcur = its fold count
    -> (line, nb, kcur)"""
    kind = r.choice(["show", "prev", "copy", "starts", "starts", "sets", "sets", "wsets", "wstarts", "again", "again", "nest", "nest", "nest", "relayout", "relayout"])
    ctx.hist("follow_up", kind)
    if kind in ("show", "prev", "copy"):
        return kind, nb, kcur
    if kind == "relayout":
        # change the batch layout of the dataset variable (left by the previous construction); the next `again` / history step meets it
        sub = r.below(4)
        if sub == 0: return "repart " + " ".join(map(str, composition(r, n, r.range(1, min(n, 10))))), nb, kcur
        if sub == 1: return "repart " + " ".join(map(str, composition(r, n, max(1, min(n, nb))))), nb, kcur
        if sub == 2 and n >= 2: return f"splitat {r.range(1, n - 1)} {r.choice([2, 3])}", nb, kcur
        return f"splice {r.range(1, max(1, nb - 1))} {r.choice([2, 3])}", nb, kcur
    if kind in ("starts", "wstarts"):
        m = r.range(1, min(nb, 4) + 1)
        st = sorted(r.below(nb + 1) for _ in range(m))
        if r.below(4): st[0] = 0
        ctx.hist("starts_first", "0" if st[0] == 0 else ">0")
        if len(set(st)) < len(st): ctx.count("starts_with_fold_without_batch")
        return kind + " " + " ".join(map(str, st)), nb, (m if kind == "starts" else kcur)
    if kind in ("sets", "wsets"):
        m = r.range(1, 4)
        style = r.below(5)
        idx = list(range(nb))
        for i in range(nb - 1, 0, -1):
            j = r.below(i + 1); idx[i], idx[j] = idx[j], idx[i]           # unsorted on purpose
        sets = [[] for _ in range(m)]
        for b in idx: sets[r.below(m)].append(b)
        if style == 0 and nb: sets[r.below(m)].append(r.below(nb))          # overlap / repetition: not a partition
        if style == 1 and nb: sets[r.below(m)] = []                         # a fold without batch (and maybe batches in no fold)
        if style == 2: sets = [sorted(s, reverse=True) for s in sets]       # descending
        ctx.hist("index_sets", ["overlap", "emptied", "descending", "shuffled", "shuffled"][style])
        if any(s != sorted(s) for s in sets): ctx.count("unsorted_index_set")
        return kind + f" {m} " + " ".join(f"{len(s)} " + " ".join(map(str, s)) for s in sets).replace("  ", " ").strip(), nb, (m if kind == "sets" else kcur)
    fn = r.choice(["indexed", "fully", "iid", "samesize", "balanced", "batch"])
    k = r.choice([1, 2, 2, 3, 4, r.range(1, max(2, n // 2 + 1))])
    bs = r.choice([0, 1, 2, 3, r.range(1, n + 2)])
    tail = f"{FN_NUM[fn]} {k} {bs} {r.below(1000000)} {r.range(1, 8)} {r.below(8)}"
    ctx.hist("second_construction", fn)
    if kind == "again":
        return "again " + tail, max(1, r.range(1, k + 2)), k
    w = 0 if r.below(3) else 1
    ctx.hist("nested_on", "training" if w == 0 else "validation")
    return f"nest {w} {r.below(max(1, kcur))} " + tail, max(1, r.range(1, k + 2)), k


def optimal_batch_sizes(n, m):
    """detail::optimalBatchSizes (generator-side copy, used only to aim the layouts; a wrong guess only makes an op `undefined`)"""
    if n == 0: return []
    if m == 0: m = n
    b = n // m + (1 if n % m else 0)
    o, rem = n // b, n % b
    return [o + 1 if j < rem else o for j in range(b)]


def samesize_layout(n, k, bs):
    out = []
    for i in range(k):
        out += optimal_batch_sizes(n // k + (1 if i < n % k else 0), bs)
    return out


def composition(r, n, m):
    """n as an ordered sum of m positive parts (1 <= m <= n), random"""
    cuts = set()
    while len(cuts) < m - 1:
        cuts.add(r.range(1, n - 1))
    cuts = sorted(cuts)
    return [b - a for a, b in zip([0] + cuts, cuts + [n])]


def gen_layout_case(ctx, r):
    """a dataset whose batch layout is NOT the fresh createLabeledDataFromRange layout -- left by repartition / splitAtElement / splice /
    append histories, single batch, all-singleton batches, exactly the target number of batches with other sizes -- then a fold construction on it"""
    big = r.below(40) == 0
    if big:
        n = r.range(300, 1100); m0 = r.choice([0, 0, 100, 250]); ctx.count("layout_large_n")
    else:
        n = r.choice([2, 3, 4, 5, 6, 7, 9, 10, 12, 16, 17, 22, 24, 25, r.range(2, 60), r.range(2, 60)])
        m0 = r.choice([0, 1, 2, 3, 4, n, r.range(1, n + 1)])
    labels = labels_for(ctx, r, n, 2)
    lines = ["new", f"data {m0} {n} " + " ".join(map(str, labels))]
    part = optimal_batch_sizes(n, m0 or 256)
    fn = r.choice(["samesize", "samesize", "samesize", "balanced", "balanced", "indexed", "fully", "iid", "batch"])
    k = r.choice([1, 2, 2, 3, 3, 4, 5, r.range(1, n), r.range(1, n)]) if not big else r.choice([2, 3, 3, 4, 5])
    bs = r.choice([256, 256, 100, 0, 64]) if big else r.choice([0, 1, 2, 2, 3, 4, 5, n, r.range(1, n + 2), 256])
    for _ in range(r.range(1, 3)):
        n = sum(part)
        kk = max(1, min(k, n))
        kind = r.choice(["target-count", "target-count", "target-count", "random", "random", "single", "singletons", "splitat", "splitat", "splitat", "splice", "splice"])
        if big and kind == "singletons": kind = "splitat"
        if kind == "target-count":
            # exactly as many batches as createCVSameSize / Balanced / Indexed will ask for, but other sizes
            tgt = samesize_layout(n, kk, bs)
            new = composition(r, n, len(tgt))
            if r.below(2): new = sorted(new, reverse=bool(r.below(2)))
            if r.below(3) == 0 and len(tgt) > 1: new = tgt[1:] + tgt[:1]          # the target sizes, rotated
            ctx.hist("layout_target_count", "same-sizes" if new == tgt else "same-count-other-sizes")
            part = new; lines.append("repart " + " ".join(map(str, part)))
        elif kind == "random":
            part = composition(r, n, r.range(1, min(n, 12))); lines.append("repart " + " ".join(map(str, part)))
        elif kind == "single":
            part = [n]; lines.append(f"repart {n}")
        elif kind == "singletons":
            part = [1] * n; lines.append("repart " + " ".join(["1"] * n))
        elif kind == "splitat":
            if n < 2: continue
            e = r.range(1, n - 1); w = r.choice([0, 1, 2, 2, 2, 3, 3])
            hd, tl, acc = [], [], 0
            for sz in part:
                if acc + sz <= e: hd.append(sz)
                elif acc >= e: tl.append(sz)
                else: hd.append(e - acc); tl.append(acc + sz - e)
                acc += sz
            part = [hd, tl, hd + tl, tl + hd][w]; lines.append(f"splitat {e} {w}")
        else:
            if len(part) < 2: continue
            b = r.range(1, len(part) - 1); w = r.choice([0, 1, 2, 3, 3, 3])
            hd, tl = part[:b], part[b:]
            part = [hd, tl, hd + tl, tl + hd][w]; lines.append(f"splice {b} {w}")
        ctx.hist("layout_op", kind)
    n = sum(part)
    k = max(1, min(k, n))
    fresh = optimal_batch_sizes(n, 256)
    tgt = samesize_layout(n, k, bs)
    ctx.hist("incoming_layout", "fresh-default" if part == fresh else "target-layout" if part == tgt else
             "target-count-other-sizes" if len(part) == len(tgt) else "single-batch" if len(part) == 1 else
             "all-singletons" if max(part) == 1 else "uneven" if max(part) > min(part) + 1 else "even-other")
    ctx.hist("layout_function", fn)
    if len(part) == len(tgt) and part != tgt and fn in ("samesize", "balanced"): ctx.count("layout_same_count_other_sizes_into_equal_size_folds")
    lines.append(f"again {FN_NUM[fn]} {k} {bs} {r.below(1000000)} {r.range(1, 8)} {r.below(8)}")
    nb = len(tgt)
    kcur = k
    for _ in range(r.below(3)):
        l, nb, kcur = gen_follow(ctx, r, nb, n, kcur)
        lines.append(l)
    return lines


def gen_case(ctx, r):
    if r.below(4) == 0:
        return gen_layout_case(ctx, r)
    op, nb, n = gen_ctor(ctx, r)
    if r.below(3) == 0:
        return [op]
    lines = ["new", op]
    kcur = int(op.split()[1])
    steps = r.range(1, 5)
    ctx.hist("history_length", steps)
    for _ in range(steps):
        l, nb, kcur = gen_follow(ctx, r, nb, n, kcur)
        lines.append(l)
    return lines


def measure_outcomes(ctx, cases, dcmd):
    """what the generated lines led to (model side, element type uint): status per op kind, folds without element, depth"""
    import subprocess
    ops = [l for c in cases for l in c]
    try:
        out = subprocess.run(dcmd, input="\n".join(ops) + "\n", stdout=subprocess.PIPE, text=True, timeout=600).stdout.splitlines()
    except Exception as e:                                            # evidence only
        ctx.cov["op_outcome_error"] = str(e)[:200]
        return
    for o, l in zip(ops, out):
        k = o.split()[0]
        ctx.hist("op_outcome", f"{k}:{l.split()[0] if l else 'none'}")
        if l.startswith("ok") and " F" in l:
            nf = l.count(" val={")
            empty = l.count("val={ish=[] lsh=[] part=[] lpart=[] el=[]}") + l.count("part=[] lpart=[] el=[]} train=")
            ctx.hist("folds_of_result", min(nf, 10))
            if empty: ctx.count("results_with_a_fold_without_element")
            if "part=[] lpart=[] el=[]}}" in l: ctx.count("results_with_an_empty_training_part")


def nontrivial(op):
    t = op.split()
    if t[0] not in FN_NUM: return False
    k, bs, n = int(t[1]), int(t[2]), int(t[4])
    return k >= 2 and (n % k != 0 or (bs and n % bs != 0))


def run(ctx):
    ctx.trusted += ["translator translate/batch_arith.py (clang-14 JSON AST -> Lean)",
                    "correspondence harness harness/c12.cpp + generator checks/c12.py + tools/obsfeed.py (feeds observed RNG draws to the model)",
                    "hand-written model Model/CV.lean, Model/Dataset.lean",
                    "ASan/UBSan runtime for the real code's memory safety (not a theorem)"]
    ctx.assumptions += ["1 <= folds, fold indices < folds, order vectors index existing elements; maximum batch size 0 = unlimited",
                        "std::shuffle / random::discrete are treated as arbitrary: the theorems hold for every permutation / draw",
                        "subsets are made independent before they are repartitioned (documented precondition: SharedContainer::repartition throws otherwise)"]
    translate(ctx)
    ctx.prove(PROPS)
    if not ctx.quick:
        ctx.leanchecker(PROPS)
    exes = build(ctx)
    drv = ctx.driver("drv_c12")
    if not exes or not drv:
        return
    r = ctx.rng.fork("c12")
    corpus = dsgen.load_corpus("C12")
    ctx.cov["corpus_cases"] = len(corpus)
    probes = [c for c in corpus if c[0] == "wprobe"]                 # compile-time probes of open findings: run on their own
    dbg_cases = [c for c in corpus if c[0] == "debug"]               # for the binary built without NDEBUG
    cases = [c for c in corpus if c[0] not in ("wprobe", "debug")]
    nrand = 2500 if ctx.quick else 10000
    nrand = int(os.environ.get('VERIF_NCASES', nrand))            # self-tests: fewer random calls
    cases += [gen_case(ctx, r) for _ in range(nrand)]
    if not ctx.quick:
        # all (n, k, batch size) triples with n <= 30
        for n in range(1, 31):
            for k in range(1, n + 1):
                for bs in sorted({0, 1, 2, 3, 5, n // 2 + 1, n, n + 1}):
                    L = " ".join(str((i * 7 + i // 3) % 3) for i in range(n))
                    cases.append([f"samesize {k} {bs} 0 {n} {n * 31 + k} {L}"])
                    cases.append([f"balanced {k} {bs} 3 {n} {n * 17 + k} {L}"])
                    cases.append([f"indexed {k} {bs} 2 {n} {L} " + " ".join(str(i % k) for i in range(n))])
        ctx.cov["exhaustive_triples_n_le_30"] = True
    ctx.cov["evaluations"] = sum(len(c) for c in cases) * len(TYPES)
    ctx.cov["distinct_nontrivial"] = len({l for c in cases for l in c if nontrivial(l)})
    ctx.cov["histories_with_follow_up_ops"] = sum(1 for c in cases if len(c) > 1)
    ctx.sample({"ops": [c for c in cases[len(cases) // 2: len(cases) // 2 + 3]]})
    feed = os.path.join(core.VERIF, "tools", "obsfeed.py")
    def one(t):
        name, ty, lt, shape = t
        hcmd = [exes[lt], ty, lt]
        dcmd = [sys.executable, feed, RNG_OPS, exes[lt], ty, lt, "--", drv, lt, *shape]
        return core.correspond(ctx, f"K-C12[{name}]", cases, hcmd, dcmd, classify, keep_prefix=1, env=dsgen.ASAN_ENV, timeout=900 if ctx.quick else 3600)
    dsgen.run_types(one, dsgen.types(TYPES + ([] if ctx.quick else TYPES_THOROUGH), 'VERIF_C12_TYPES'))
    if os.environ.get('VERIF_C12_TYPES'):
        return
    measure_outcomes(ctx, cases[:3000], [sys.executable, feed, RNG_OPS, exes["cls"], "uint", "cls", "--", drv, "cls"])
    # open findings that are visible at compile time only
    core.correspond(ctx, "K-C12[probes]", probes, [exes["cls"], "uint", "cls"],
                    [sys.executable, feed, RNG_OPS, exes["cls"], "uint", "cls", "--", drv, "cls"], classify, keep_prefix=0,
                    env=dsgen.ASAN_ENV, timeout=300)
    # debug build: the assertions (SIZE_CHECK, SHARK_ASSERT, RANGE_CHECK) of the real code must hold on admissible inputs
    rd = ctx.rng.fork("c12-debug")
    class _NoCov:                                                     # the debug cases do not enter the input distribution
        def hist(self, *a, **k): pass
        def count(self, *a, **k): pass
    ndbg = 120 if ctx.quick else 600
    for _ in range(ndbg):
        c = gen_case(_NoCov(), rd)
        dbg_cases.append(["debug"] + [l for l in c if l != "new"][: 1 if rd.below(2) else 4])
    ctx.cov["debug_build_cases"] = len(dbg_cases)
    core.correspond(ctx, "K-C12[debug-build]", dbg_cases, [exes["dbg"], "uint", "cls"],
                    [sys.executable, feed, RNG_OPS, exes["dbg"], "uint", "cls", "--", drv, "cls"], classify, keep_prefix=1,
                    env=dsgen.ASAN_ENV, timeout=900)


def classify(ops, res):
    key, what = dsgen.classify(ops, res)
    fn = next((o.split()[0] for o in ops if o.split()[0] in FN_NUM), ops[0].split()[0] if ops else "?")
    if key.startswith("oracle:") and "weighted-folds-training-does-not-compile" in key:
        return ("F-C12-1:cvfolds-weighted-training-does-not-compile",
                "CVFolds<WeightedLabeledData<I,L>>::training / validation cannot be instantiated: BaseWeightedDataset::indexedSubset returns the base class")
    if res.crash and "numberOfPartitions == *std::max_element" in res.stderr:
        return (f"F-C12-2:debug-size-check-rejects-empty-last-fold:{fn}",
                f"debug build: {fn} aborts on SIZE_CHECK(numberOfPartitions == max(indices)+1) although every fold index is below numberOfPartitions "
                f"(the last fold receives no element); ops {ops}")
    if key.startswith("oracle:") and "shape-lost" in key:
        return f"F11:shape-lost:{fn}", f"{fn}: the reorganised dataset / its folds lost the input shape; ops {ops}"
    return key, what


def replay(ctx, rep):
    exes = build(ctx); drv = ctx.driver("drv_c12")
    cmd = list(rep.get("harness_cmd", [exes["cls"], "uint", "cls"]))
    ty = cmd[1] if len(cmd) > 1 else "uint"
    lt = cmd[2] if len(cmd) > 2 else "cls"
    cmd = [exes[lt], ty, lt]
    shape = {"real": ["3"], "sparse": ["7"]}.get(ty, [])
    feed = os.path.join(core.VERIF, "tools", "obsfeed.py")
    dcmd = [sys.executable, feed, RNG_OPS, exes[lt], ty, lt, "--", drv, lt, *shape]
    res = core.run_case(ctx, cmd, dcmd, rep["ops"])
    for i in range(max(len(res.impl), len(res.model))):
        a = res.impl[i] if i < len(res.impl) else "<no output>"
        b = res.model[i] if i < len(res.model) else "<no output>"
        print(f"op   : {rep['ops'][i] if i < len(rep['ops']) else ''}\nimpl : {a}\nmodel: {b}")
    print("stderr:", res.stderr[-2000:])
    print("OK" if res.ok else "FAILS")
    return 0 if res.ok else 1
