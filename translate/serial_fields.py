#!/usr/bin/env python3
"""T3 — serial_fields.py: regenerate lean/SharkVerif/Gen/Serial.lean from every
`read`/`write` pair and every `serialize(Archive&)` template under include/ and src/.

For each class with a hand-written pair it extracts
  * the ordered list of archived expressions in `read` and in `write`
    (`archive >> x`, `archive << x`, `ar & x`, chained; base-class calls
    `Base::read(archive)`; enclosing `for`/`if` headers are kept as a context prefix;
    `const_cast<..>(x)` wrappers are removed),
  * the data members of the class (declarations at class-body depth named with
    Shark's member prefixes m_ / mp_ / mep_ / mpe_),
  * signature anomalies (a `read` that takes an OutArchive, a pair with only one half).
and emits one `ClassInfo` + two obligations per class:
  rw_<Class>  : readFields = writeFields                       (by decide)
  cov_<Class> : every member is archived or allow-listed       (by decide)
The allow-list with one reason per entry is translate/serial_transient.json.
A class whose obligations are false still gets them emitted — the failed `decide`
is the report (DESIGN §4 T3).

Usage: serial_fields.py --repo /repo [--out lean/SharkVerif/Gen/Serial.lean]
"""
import argparse, json, os, re, sys

HERE = os.path.dirname(os.path.abspath(__file__))
VERIF = os.path.dirname(HERE)


def strip_comments(src):
    """blank out comments and string/char literals, keeping offsets and newlines"""
    out = []
    i, n = 0, len(src)
    while i < n:
        c = src[i]
        if src.startswith("//", i):
            j = src.find("\n", i)
            j = n if j < 0 else j
            out.append(" " * (j - i)); i = j
        elif src.startswith("/*", i):
            j = src.find("*/", i + 2)
            j = n if j < 0 else j + 2
            out.append("".join("\n" if ch == "\n" else " " for ch in src[i:j])); i = j
        elif c == '"' or c == "'":
            j = i + 1
            while j < n and src[j] != c:
                j += 2 if src[j] == "\\" else 1
            out.append(c + " " * (j - i - 1) + (c if j < n else "")); i = j + 1
        else:
            out.append(c); i += 1
    return "".join(out)


def match_brace(s, i, open_="{", close="}"):
    """s[i] == open_; index of the matching close"""
    d = 0
    for j in range(i, len(s)):
        if s[j] == open_: d += 1
        elif s[j] == close:
            d -= 1
            if d == 0: return j
    return -1


CLASS_RE = re.compile(r"\b(class|struct)\s+(?:SHARK_EXPORT_SYMBOL\s+)?(\w+)\s*(?:<[^{;]*>)?\s*(?:final\s*)?(:[^{;]*)?\{")
FUNC_RE = re.compile(r"\b(?:virtual\s+|inline\s+)*void\s+((?:\w+(?:<[^>]*>)?::)*)(read|write|serialize|load|save)\s*\(([^)]*)\)\s*(const)?\s*(?:override\s*)?(\{|;)")


def class_spans(s):
    """[(name, body_start, body_end, bases)] for every class/struct definition"""
    res = []
    for m in CLASS_RE.finditer(s):
        # skip `enum class`, template parameter `class T`
        pre = s[max(0, m.start() - 12):m.start()]
        if re.search(r"enum\s*$", pre) or re.search(r"[<,]\s*$", pre):
            continue
        o = m.end() - 1
        c = match_brace(s, o)
        if c < 0: continue
        res.append((m.group(2), o, c, (m.group(3) or "")))
    return res


def innermost_class(spans, pos):
    best = None
    for name, o, c, bases in spans:
        if o < pos < c and (best is None or o > best[1]):
            best = (name, o, c, bases)
    return best


def depth1_text(s, o, c):
    """class body with nested {...} and (...) blanked"""
    out, d, p = [], 0, 0
    for ch in s[o + 1:c]:
        if ch == "{": d += 1; out.append(" "); continue
        if ch == "}": d -= 1; out.append(";" if d == 0 else " "); continue
        if ch == "(": p += 1; out.append("("); continue
        if ch == ")": p -= 1; out.append(")"); continue
        out.append(ch if d == 0 and p == 0 else " ")
    return "".join(out)


MEMBER_RE = re.compile(r"\b((?:m|mp|mep|mpe)_\w+)\s*(?:\[[^\]]*\]\s*)?(?:=[^;]*)?;")


def members_of(s, o, c):
    txt = depth1_text(s, o, c)
    names = []
    for stmt in txt.split(";"):
        st = stmt.strip()
        if not st or re.match(r"(static|typedef|using|friend|template|enum|public|private|protected)\b", st.split(":")[-1].strip() or st):
            # access specifiers are glued to the next declaration: handle below
            pass
        st2 = re.sub(r"^\s*(public|private|protected)\s*:", "", st).strip()
        while re.match(r"(public|private|protected)\s*:", st2):
            st2 = re.sub(r"^(public|private|protected)\s*:", "", st2).strip()
        if not st2 or re.match(r"(static|typedef|using|friend|template|enum|return)\b", st2):
            continue
        if "(" in st2.split("=")[0]:
            continue        # function declaration
        m = MEMBER_RE.search(st2 + ";")
        if m:
            # several declarators: `double m_a, m_b;`
            for nm in re.findall(r"\b((?:m|mp|mep|mpe)_\w+)\b", st2.split("=")[0]):
                if nm not in names: names.append(nm)
    return names


def depth1_stmts(s, o, c):
    """depth-1 declarations of a class body as (text) list"""
    return [re.sub(r"\s+", " ", t).strip() for t in depth1_text(s, o, c).split(";")]


def member_types(s, o, c):
    """{member: declared type text (whitespace removed)} and {typedef name: type} of a class body"""
    types, tdefs = {}, {}
    for st in depth1_stmts(s, o, c):
        st = re.sub(r"^((public|private|protected)\s*:\s*)+", "", st).strip()
        m = re.match(r"typedef\s+(.+?)\s+(\w+)$", st)
        if m:
            tdefs[m.group(2)] = re.sub(r"\s+", "", re.sub(r"\btypename\b", "", m.group(1)))
            continue
        m = re.match(r"(?:mutable\s+)?(.+?)\s*\b((?:m|mp|mep|mpe)_\w+)\s*(?:=.*)?$", st)
        if m and "(" not in m.group(1) and not re.match(r"(static|using|friend|return)\b", st):
            types[m.group(2)] = re.sub(r"\s+", "", m.group(1))
    return types, tdefs


SIG_TAIL = re.compile(r"\)\s*(?:const\s*)?(?:noexcept\s*)?(?:override\s*)?(?:final\s*)?$")


def methods_in_class(s, o, c):
    """{method name: [body text]} for functions defined inside the class body (depth 1)"""
    res = {}
    d, last = 0, o + 1
    i = o + 1
    while i < c:
        ch = s[i]
        if ch == "{":
            if d == 0:
                chunk = s[last:i]
                ctrl = re.sub(r"\btemplate\s*<[^{};]*?>\s*(?=\w)", "", chunk)
                m = re.search(r"(operator\s*\(\s*\)|operator\s*[^\s\w(]+|~?\w+)\s*\(", ctrl)
                e = match_brace(s, i)
                if e < 0: break
                if m and ")" in chunk and not re.match(r"\s*(class|struct|enum|union|namespace)\b", ctrl.strip()):
                    name = re.sub(r"\s+", "", m.group(1))
                    res.setdefault(name, []).append(s[i + 1:e])
                i = e + 1; last = i
                continue
            d += 1
        elif ch == "}":
            d -= 1
        elif ch == ";" and d == 0:
            last = i + 1
        i += 1
    return res


OUT_OF_CLASS_RE = re.compile(r"\b(\w+)(?:<[^<>{};]*>)?::(operator\s*\(\s*\)|~?\w+)\s*\(")


def methods_out_of_class(s):
    """[(class, method, body)] for `Ret Class::method(...) {...}` definitions"""
    res = []
    for m in OUT_OF_CLASS_RE.finditer(s):
        o = m.end() - 1
        c = match_brace(s, o, "(", ")")
        if c < 0: continue
        j = c + 1
        mm = re.compile(r"\s*(?:const\s*)?(?:noexcept\s*)?(?:override\s*)?(?::[^{};]*)?\{").match(s, j)
        if not mm: continue
        b = mm.end() - 1
        e = match_brace(s, b)
        if e < 0: continue
        # must be a definition at statement start (previous non-space token is a type word, `}` or `;`)
        res.append((m.group(1), re.sub(r"\s+", "", m.group(2)), s[b + 1:e]))
    return res


def norm_expr(e):
    e = re.sub(r"\s+", "", e)
    prev = None
    while prev != e:
        prev = e
        e = re.sub(r"const_cast<[^()]*>\((.*)\)$", r"\1", e)
        e = re.sub(r"^\((.*)\)$", lambda m: m.group(1) if balanced(m.group(1)) else m.group(0), e)
    e = re.sub(r"boost::serialization::base_object<(.*)>\(\*this\)", r"base<\1>", e)
    e = re.sub(r"^boost::serialization::(?:make_)?nvp\(\"[^\"]*\",(.*)\)$", r"\1", e)
    e = re.sub(r"^BOOST_SERIALIZATION_NVP\((.*)\)$", r"\1", e)
    return e


def balanced(t):
    d = 0
    for ch in t:
        if ch == "(": d += 1
        elif ch == ")":
            d -= 1
            if d < 0: return False
    return d == 0


def norm_header(h):
    h = re.sub(r"\s+", " ", h.strip())
    h = re.sub(r"\bconst\b|&|\bauto\b|\bstd::size_t\b|\bsize_t\b|\bunsigned\b|\bint\b|\btypename\b", "", h)
    h = re.sub(r"\b\w+(::\w+)*::(const_)?iterator\b", "", h)
    h = re.sub(r"\bc(begin|end)\b", r"\1", h)
    return re.sub(r"\s+", "", h)


def archive_items(body, arname):
    """ordered list of archived expressions of one function body (comments already stripped)"""
    items = []
    ctx = []          # stack of (header, close_index or None for single statement)
    i, n = 0, len(body)
    pend_single = []  # headers of brace-less control statements applying to the next statement
    stack = []        # entries: ('ctl', header) or ('blk', None)
    stmt_start = 0

    def ctxstr():
        hs = [h for k, h in stack if k == "ctl"] + pend_single
        return ("|".join(hs) + "|") if hs else ""

    while i < n:
        if body[i].isspace():
            i += 1; continue
        m = re.compile(r"\b(for|while|if)\s*\(").match(body, i)
        if m:
            o = m.end() - 1
            c = match_brace(body, o, "(", ")")
            if c < 0: break
            header = m.group(1) + "(" + norm_header(body[o + 1:c]) + ")"
            j = c + 1
            while j < n and body[j].isspace(): j += 1
            if j < n and body[j] == "{":
                stack.append(("ctl", header)); i = j + 1
            else:
                pend_single.append(header); i = j
            continue
        m = re.compile(r"\belse\b").match(body, i)
        if m:
            j = m.end()
            while j < n and body[j].isspace(): j += 1
            if j < n and body[j] == "{":
                stack.append(("ctl", "else")); i = j + 1
            else:
                pend_single.append("else"); i = j
            continue
        ch = body[i]
        if ch == "{":
            stack.append(("blk", None)); i += 1; continue
        if ch == "}":
            if stack: stack.pop()
            i += 1; continue
        # a statement: up to the next ';' at paren depth 0
        j, d = i, 0
        while j < n:
            if body[j] in "([": d += 1
            elif body[j] in ")]": d -= 1
            elif body[j] == ";" and d == 0: break
            elif body[j] in "{}" and d == 0: break
            j += 1
        stmt = body[i:j].strip()
        if stmt:
            items += [ctxstr() + it for it in stmt_items(stmt, arname)]
            pend_single = []
        i = j + 1 if j < n and body[j] == ";" else j
        if j >= n: break
    return items


def stmt_items(stmt, arname):
    res = []
    # `#define S(var) archive & BOOST_SERIALIZATION_NVP(var)` idiom
    m = re.match(r"^S\(\s*([\w\.\->]+)\s*\)$", stmt)
    if m:
        return [norm_expr(m.group(1))]
    stmt = re.sub(r"^#define\s+S\(var\)[^\n]*\n", "", stmt).strip()
    m = re.match(r"^S\(\s*([\w\.\->]+)\s*\)$", stmt)
    if m:
        return [norm_expr(m.group(1))]
    # base-class / member calls: X::read(archive), X::write(archive), x.read(archive)
    # read/write that forward to the class's own serialize template: `serialize(archive, 0)`,
    # `const_cast<X&>(*this).serialize(archive, 0)` — the items of that template are inlined by the caller
    if re.match(r"^(?:const_cast<[^()]*>\(\*this\)\.|this->)?serialize\s*\(\s*" + re.escape(arname) + r"\b", stmt):
        return ["self:serialize"]
    m = re.match(r"^((?:[\w<>, ]+::)+)(read|write|load|save|serialize)\s*\(\s*" + re.escape(arname) + r"\b", stmt)
    if m:
        return ["base:" + re.sub(r"\s+", "", m.group(1)).rstrip(":")]
    m = re.match(r"^([\w\.\->\*\(\)\[\]]+?)(?:\.|->)(read|write)\s*\(\s*" + re.escape(arname) + r"\s*\)", stmt)
    if m:
        return [norm_expr(m.group(1))]
    m = re.match(r"^" + re.escape(arname) + r"\s*(>>|<<|&)(?!&)", stmt)
    if not m:
        return res
    # split the chain at depth-0 operators
    rest = stmt[len(arname):] if stmt.startswith(arname) else stmt[m.start():]
    rest = rest.lstrip()
    parts, cur, d, k = [], "", 0, 0
    while k < len(rest):
        two = rest[k:k + 2]
        if rest[k] in "([<" and not (two in ("<<",)):
            if rest[k] == "<":
                # template bracket only if it closes before an operator; keep it simple: treat
                # `<` as bracket when preceded by an identifier char and not part of `<<`
                if k > 0 and (rest[k - 1].isalnum() or rest[k - 1] == "_") and rest[k + 1:k + 2] != "<":
                    d += 1; cur += rest[k]; k += 1; continue
            else:
                d += 1; cur += rest[k]; k += 1; continue
        if rest[k] in ")]":
            d -= 1; cur += rest[k]; k += 1; continue
        if rest[k] == ">" and d > 0 and two != ">>":
            d -= 1; cur += rest[k]; k += 1; continue
        if d == 0 and two in (">>", "<<"):
            parts.append(cur); cur = ""; k += 2; continue
        if d == 0 and rest[k] == "&" and two != "&&" and cur.strip() == "" and not parts:
            parts.append(cur); cur = ""; k += 1; continue
        if d == 0 and rest[k] == "&" and two != "&&" and parts:
            parts.append(cur); cur = ""; k += 1; continue
        cur += rest[k]; k += 1
    parts.append(cur)
    for p in parts[1:]:
        p = p.strip()
        if p:
            res.append(norm_expr(p))
    return res


def scan_file(path, rel):
    raw = open(path, errors="replace").read()
    s = strip_comments(raw)
    spans = class_spans(s)
    found = []
    for m in FUNC_RE.finditer(s):
        qual, kind, params, const, tail = m.group(1), m.group(2), m.group(3), m.group(4), m.group(5)
        if "rchive" not in params:
            continue
        pm = re.search(r"(\w+)\s*(?:,|$)", params.strip())
        arname = None
        mm = re.match(r"\s*([\w:]+(?:<[^>]*>)?)\s*&\s*(\w+)", params)
        artype = mm.group(1) if mm else params.split("&")[0].strip()
        arname = mm.group(2) if mm else "archive"
        line = s.count("\n", 0, m.start()) + 1
        cls = None
        if qual:
            cls = re.sub(r"<[^>]*>", "", qual).rstrip(":").split("::")[-1]
        else:
            ic = innermost_class(spans, m.start())
            if ic: cls = ic[0]
        if cls is None:
            continue
        body = None
        if tail == "{":
            o = m.end() - 1
            c = match_brace(s, o)
            body = s[o + 1:c]
        found.append(dict(cls=cls, kind=kind, artype=artype, arname=arname, const=bool(const),
                          body=body, file=rel, line=line, inclass=not qual, pos=m.start()))
    classes = {}
    for name, o, c, bases in spans:
        ty, td = member_types(s, o, c)
        classes.setdefault(name, []).append(dict(file=rel, members=members_of(s, o, c), bases=bases.strip(), span=(o, c),
                                                 types=ty, typedefs=td, methods=methods_in_class(s, o, c)))
    ooc = methods_out_of_class(s) if rel.endswith((".cpp", ".inl", ".tpp")) or "::" in s else []
    for cls_, meth, body in ooc:
        classes.setdefault(cls_, [])
        OUT_OF_CLASS.setdefault(cls_, {}).setdefault(meth, []).append(body)
    return found, classes


OUT_OF_CLASS = {}


def lean_str(x):
    return '"' + x.replace("\\", "\\\\").replace('"', '\\"') + '"'


def lean_list(xs):
    return "[" + ", ".join(lean_str(x) for x in xs) + "]"


def ident(name):
    return re.sub(r"\W", "_", name)


# ---- token codecs of the container classes (Gen/SerialCodec.lean) ---------------------------------
# class -> (codec parameters, {declared type (typedefs of the class resolved, whitespace removed) or archived
# expression: Lean codec}).  The ORDER and the SET of archived fields come from the source on every run; this
# table only says which codec a C++ type denotes (template parameters are bound to codec parameters).
CODEC_CLASSES = [
    ("MatrixStorage", [], {"std::vector<I>": "(stdVector 0 nat)", "std::vector<T>": "(stdVector 0 val)", "I": "nat"}),
    ("compressed_matrix_impl", [], {"StorageManager": "MatrixStorage_codec", "StorageManager::size_type": "nat"}),
    ("compressed_matrix", [], {"detail::compressed_matrix_impl<detail::MatrixStorage<T,I>>": "compressed_matrix_impl_codec"}),
    ("VectorStorage", [], {"m_storage.nnz": "nat", "m_storage.capacity": "nat",
                           "std::vector<I>": "(stdVector 0 nat)", "std::vector<T>": "(stdVector 0 val)"}),
    ("Shape", [], {"std::vector<std::size_t>": "(stdVector 0 nat)", "std::size_t": "nat"}),
    ("SharedContainer", ["cb"], {"std::vector<boost::shared_ptr<BatchType>>": "(stdVector 1 cb)"}),
    ("Data", ["cb"], {"detail::SharedContainer<Type>": "(SharedContainer_codec cb)", "Shape": "Shape_codec"}),
    ("LabeledData", ["cb", "cl"], {"UnlabeledData<InputT>": "(Data_codec cb)", "Data<LabelT>": "(Data_codec cl)"}),
    ("BaseWeightedDataset", ["cd", "cw"], {"DataContainerT": "cd", "Data<WeightType>": "(Data_codec cw)"}),
]
# serialize bodies with control flow (`if loading`, `resize`, early exits): modelled by hand in
# Model/Archive.lean (vecLoad, matLoad, remoraVec, remoraMat); the generated file pins the body text the
# model was written against — any edit of these bodies breaks `pinned_*` until the model is reviewed
PINNED = {
    "vector": "boost::serialization::collection_size_type count(size()); ar & count; if(!Archive::is_saving::value){ resize(count); } "
              "if (!empty()) ar & boost::serialization::make_array(m_storage.data(),size()); (void) file_version;",
    "matrix": "boost::serialization::collection_size_type s1(m_size1); boost::serialization::collection_size_type s2(m_size2); "
              "ar& boost::serialization::make_nvp(\" \",s1) & boost::serialization::make_nvp(\" \",s2); "
              "if (Archive::is_loading::value) { m_size1 = s1; m_size2 = s2; } ar& boost::serialization::make_nvp(\" \",m_data);",
    "compressed_matrix_impl": "ar & m_manager; ar & m_minor_size; if(Archive::is_loading::value) m_storage = m_manager.reserve(0);",
}


def gen_codecs(infos, classes, bodies):
    out = ["/-\nGENERATED by translate/serial_fields.py — do not edit. Token codecs of the container classes, built from the\n"
           "archived-field lists of the source (order and set of fields) and the declared member types; every `Codec`\n"
           "carries its round-trip law, so that this file type-checks IS the theorem `dec (enc a ++ rest) = some (a, rest)`\n"
           "for every generated encoder. `pinned_*`: body text of the serialize functions that are modelled by hand.\n-/",
           "import SharkVerif.Model.Archive", "namespace SharkVerif.Gen.SerialCodec", "open SharkVerif.Archive SharkVerif.Archive.Codec\n"]
    by = {i["cls"]: i for i in infos}
    problems = []
    for cls, params, table in CODEC_CLASSES:
        i = by.get(cls)
        if i is None:
            problems.append(f"{cls}: no read/write/serialize found"); continue
        types, tdefs = {}, {}
        for ci in classes.get(cls, []):
            types.update(ci.get("types", {})); tdefs.update(ci.get("typedefs", {}))

        def codec_of(expr):
            if expr in table: return table[expr], expr
            t = types.get(expr)
            if t is None: return None, "?"
            t = tdefs.get(t, t)
            return table.get(t), t
        for direction in (("read", "write") if i["kind"] == "pair" else ("write",)):
            cs, doc = [], []
            for f in i[direction]:
                c_, t_ = codec_of(f)
                doc.append(f"{f} : {t_}")
                if c_ is None:
                    problems.append(f"{cls}.{direction}: archived expression `{f}` of type `{t_}` has no codec in CODEC_CLASSES")
                    c_ = "UNKNOWN"
                cs.append(c_)
            term = cs[-1] if cs else "UNKNOWN"
            for c_ in reversed(cs[:-1]):
                term = f"(pair {c_} {term})"
            binders = " ".join(["{V : Type}"] + [f"{{T{k} : Type}}" for k in range(len(params))] +
                               [f"({p_} : Codec V T{k})" for k, p_ in enumerate(params)])
            suffix = "" if i["kind"] != "pair" else ("_r" if direction == "read" else "")
            out.append(f"/-- `{cls}::{direction if i['kind']=='pair' else 'serialize'}` ({i['file']}:{i['line']}): " + "; ".join(doc) + " -/")
            out.append(f"def {cls}_codec{suffix} {binders} :=\n  ({term} : Codec V _)\n")
        if i["kind"] == "pair":
            args = " ".join(params)
            bind = " ".join(["{V : Type}"] + [f"{{T{k} : Type}}" for k in range(len(params))] +
                            [f"({p_} : Codec V T{k})" for k, p_ in enumerate(params)])
            out.append(f"/-- `read` decodes with the codec `write` encodes with -/")
            out.append(f"theorem {cls}_rw {bind} : ({cls}_codec_r {args}).dec = ({cls}_codec {args}).dec := rfl\n")
    for cls, want in PINNED.items():
        got = bodies.get(cls)
        out.append(f"/-- body of `{cls}::serialize` in the tree (strings blanked, whitespace normalised) -/")
        out.append(f"def body_{cls} : String := {lean_str(got if got is not None else '<not found>')}")
        out.append(f"/-- the body the hand-written model of `{cls}::serialize` (Model/Archive.lean) was written against -/")
        out.append(f"def modelled_{cls} : String := {lean_str(want)}")
        out.append(f"theorem pinned_{cls} : body_{cls} = modelled_{cls} := rfl\n")
    out.append("end SharkVerif.Gen.SerialCodec")
    return "\n".join(out) + "\n", problems


def main():
    ap = argparse.ArgumentParser()
    ap.add_argument("--repo", default="/repo")
    ap.add_argument("--out", default=os.path.join(VERIF, "lean", "SharkVerif", "Gen", "Serial.lean"))
    ap.add_argument("--dump", action="store_true")
    a = ap.parse_args()
    funcs, classes = [], {}
    for top in ("include", "src"):
        for root, _, files in os.walk(os.path.join(a.repo, top)):
            for fn in sorted(files):
                if not fn.endswith((".h", ".hpp", ".inl", ".cpp", ".tpp", ".tut")):
                    continue
                p = os.path.join(root, fn)
                rel = os.path.relpath(p, a.repo)
                f, c = scan_file(p, rel)
                funcs += f
                for k, v in c.items():
                    classes.setdefault(k, []).extend(v)
    # group by (class, defining header of the class when known)
    by_cls = {}
    for f in funcs:
        by_cls.setdefault(f["cls"], []).append(f)
    transient = json.load(open(os.path.join(HERE, "serial_transient.json")))
    tr_members = transient.get("members", {})
    has_pair = set(by_cls)

    def base_names(bases):
        t = re.sub(r"<[^<>]*>", "", bases)
        t = re.sub(r"<[^<>]*>", "", t)
        t = re.sub(r"<[^<>]*>", "", t)
        out_ = []
        for part in t.lstrip(":").split(","):
            w = re.sub(r"\b(public|private|protected|virtual)\b", "", part).strip()
            if w:
                out_.append(w.split("::")[-1])
        return out_

    def inherited(cls, depth=0, seen=None):
        """members of base classes that have no read/write pair of their own"""
        seen = seen or set()
        res = []
        if depth > 4 or cls in seen: return res
        seen.add(cls)
        for ci in classes.get(cls, []):
            for b in base_names(ci["bases"]):
                if b in has_pair or b not in classes: continue
                for cb in classes[b]:
                    for m_ in cb["members"]:
                        if m_ not in res: res.append(m_)
                for m_ in inherited(b, depth + 1, seen):
                    if m_ not in res: res.append(m_)
        return res

    infos = []
    n_pairs = n_serialize = 0
    for cls in sorted(by_cls):
        if cls in transient.get("skip_classes", []):
            continue
        fs = by_cls[cls]
        reads = [f for f in fs if f["kind"] in ("read", "load") and f["body"] is not None]
        writes = [f for f in fs if f["kind"] in ("write", "save") and f["body"] is not None]
        sers = [f for f in fs if f["kind"] == "serialize" and f["body"] is not None]
        cinfo = classes.get(cls, [])
        members = []
        for ci in cinfo:
            for m_ in ci["members"]:
                if m_ not in members: members.append(m_)
        for m_ in inherited(cls):
            if m_ not in members: members.append(m_)
        anomalies = []
        if sers and not reads and not writes:
            n_serialize += len(sers)
            # a single function serves both directions: read = write by construction
            items = archive_items(sers[0]["body"], sers[0]["arname"])
            infos.append(dict(cls=cls, file=sers[0]["file"], line=sers[0]["line"], read=items, write=items,
                              members=members, kind="serialize", anomalies=[]))
            continue
        if not reads and not writes:
            continue
        # a `read` must take an input archive, a `write` an output archive
        good_reads = []
        for f in reads:
            if re.search(r"Out|oarchive", f["artype"]):
                anomalies.append(f"{f['file']}:{f['line']}: `{f['kind']}` takes `{f['artype']}` (an output archive); it does not override ISerializable::read(InArchive&)")
            else:
                good_reads.append(f)
        good_writes = []
        for f in writes:
            if re.search(r"\bIn|iarchive", f["artype"]):
                anomalies.append(f"{f['file']}:{f['line']}: `{f['kind']}` takes `{f['artype']}` (an input archive)")
            else:
                good_writes.append(f)
        n_pairs += max(len(good_reads), len(good_writes))
        # several template specialisations of one class name: pair them in source order
        good_reads.sort(key=lambda f: (f["file"], f["line"])); good_writes.sort(key=lambda f: (f["file"], f["line"]))
        k = max(len(good_reads), len(good_writes))
        for idx in range(k):
            r = good_reads[idx] if idx < len(good_reads) else None
            w = good_writes[idx] if idx < len(good_writes) else None
            ritems = archive_items(r["body"], r["arname"]) if r else []
            witems = archive_items(w["body"], w["arname"]) if w else []
            if sers:
                own = archive_items(sers[0]["body"], sers[0]["arname"])
                ritems = [y for x in ritems for y in (own if x == "self:serialize" else [x])]
                witems = [y for x in witems for y in (own if x == "self:serialize" else [x])]
            if r:
                for mm_ in re.finditer(r"\bfor\s*\(\s*(?:const\s+)?(?:auto|[\w:<>]+)\s+(\w+)\s*:", r["body"]):
                    var = mm_.group(1)
                    if re.search(re.escape(r["arname"]) + r"\s*>>\s*" + var + r"\s*[\.;]", r["body"]):
                        an_copy = f"{r['file']}:{r['line']}: `read` archives into `{var}`, a by-value copy of the range-for element — the member is not restored"
                        anomalies.append(an_copy)
            # in base calls the direction word differs by construction
            an = list(anomalies) if idx == 0 else []
            if r is None: an.append("class has `write` but no `read(InArchive&)`: ISerializable::read (empty) is used")
            if w is None: an.append("class has `read` but no `write(OutArchive&)`")
            name = cls if k == 1 else f"{cls}#{idx + 1}"
            src = (r or w)
            mem = members
            if k > 1:
                # members of the class definition enclosing this function
                mem = []
                for ci in cinfo:
                    if ci["file"] == src["file"] and ci["span"][0] < src["pos"] < ci["span"][1]:
                        mem = ci["members"]
            infos.append(dict(cls=name, file=src["file"], line=src["line"], read=ritems, write=witems,
                              members=mem, kind="pair", anomalies=an))
    # classes deriving from ISerializable-bearing bases with members but no pair at all are out of
    # reach of a regex; the reviewed list in serial_transient.json names the ones that matter
    for cls, why in transient.get("must_have_pair", {}).items():
        if not any(i["cls"].split("#")[0] == cls for i in infos):
            mem = []
            for ci in classes.get(cls, []):
                for m_ in ci["members"]:
                    if m_ not in mem: mem.append(m_)
            for m_ in inherited(cls):
                if m_ not in mem: mem.append(m_)
            f_ = classes.get(cls, [{}])[0].get("file", "?")
            infos.append(dict(cls=cls, file=f_, line=0, read=[], write=[], members=mem, kind="missing",
                              anomalies=[f"no read/write pair at all ({why})"]))

    # ---- behaviour dependency lists -------------------------------------------------------
    BEHAVIOUR = ("eval", "operator()", "parameterVector", "numberOfParameters", "step", "inputShape", "outputShape")

    def all_methods(cls):
        ms = {}
        for ci in classes.get(cls, []):
            for k_, v_ in ci.get("methods", {}).items():
                ms.setdefault(k_, []).extend(v_)
        for k_, v_ in OUT_OF_CLASS.get(cls, {}).items():
            ms.setdefault(k_, []).extend(v_)
        return ms

    def closure(cls, roots):
        """texts of the bodies of `roots` and of the methods of the same class they call (transitively)"""
        ms = all_methods(cls)
        seen, todo, texts = set(), [r_ for r_ in roots if r_ in ms], []
        while todo:
            r_ = todo.pop()
            if r_ in seen: continue
            seen.add(r_)
            for b_ in ms[r_]:
                texts.append(b_)
                for name_ in ms:
                    if name_ in seen or name_ in ("read", "write", "serialize", "load", "save", cls): continue
                    if re.search(r"(?<![\w:.>])" + re.escape(name_) + r"\s*\(", b_) or \
                       re.search(r"\bthis\s*->\s*" + re.escape(name_) + r"\s*\(", b_):
                        todo.append(name_)
        return texts, sorted(seen)

    def family_of(i):
        f_, c_ = i["file"], i["cls"].split("#")[0]
        if c_ in ("KernelExpansion",): return "kernel-expansion"
        if c_ in ("Normalizer",): return "normaliser"
        if "Models/Kernels" in f_: return "kernel"
        if "/Data/" in f_ or c_ in ("Shape",): return "dataset"
        if "LinAlg" in f_: return "container"
        if "DirectSearch/Operators" in f_ or "DirectSearch/CMA/" in f_ or c_ in ("Individual",): return "operator"
        if "Algorithms/GradientDescent" in f_ or "Algorithms/DirectSearch" in f_:
            return "optimizer" if c_ != "LineSearch" else "optimizer-part"
        if "/Models/" in f_ or "Unsupervised/RBM" in f_: return "model"
        if "Trainers" in f_: return "trainer"
        return "other"

    for i in infos:
        cls0 = i["cls"].split("#")[0]
        texts, roots = closure(cls0, BEHAVIOUR)
        deps = [m_ for m_ in i["members"] if any(re.search(r"\b" + re.escape(m_) + r"\b", t_) for t_ in texts)]
        rtexts, _ = closure(cls0, ("read", "load", "serialize"))
        archived = lambda m_: any(re.search(r"(?<![\w])" + re.escape(m_) + r"(?![\w])", f_) for f_ in i["write"])
        recon = [m_ for m_ in i["members"] if not archived(m_) and
                 any(re.search(r"\b" + re.escape(m_) + r"\b", t_) for t_ in rtexts)]
        i["deps"], i["recon"], i["family"], i["behaviour_fns"] = deps, recon, family_of(i), roots
    if a.dump:
        for i in infos:
            print(json.dumps(i, indent=1))
        return 0
    hdr = ("/-\nGENERATED by translate/serial_fields.py from the read/write pairs and serialize templates of\n"
           "the repo tree — do not edit.  {what}\n-/")
    data = [hdr.format(what="One `ClassInfo` per class (definitions only; imported by the native driver).")]
    data.append("import SharkVerif.Model.Archive")
    data.append("namespace SharkVerif.Gen.Serial\nopen SharkVerif.Archive\n")
    thms = [hdr.format(what="Three obligations per class of Gen/SerialData.lean, closed by `decide`.")]
    thms.append("import SharkVerif.Gen.SerialData")
    thms.append("namespace SharkVerif.Gen.Serial\nopen SharkVerif.Archive\n")
    names = []
    for i in infos:
        idn = ident(i["cls"])
        names.append(idn)
        tr = sorted(m_ for m_ in i["members"] if m_ in tr_members.get(i["cls"].split("#")[0], {}))
        noted = [m_ for m_ in tr if tr_members[i["cls"].split("#")[0]][m_].startswith("NOTED-unprobed")]
        data.append(f"/-- `{i['cls']}` — {i['file']}:{i['line']} ({i['kind']}) -/")
        data.append(f"def {idn} : ClassInfo :=\n  {{ name := {lean_str(i['cls'])}, file := {lean_str(i['file'])},\n"
                    f"    readFields := {lean_list(i['read'])},\n    writeFields := {lean_list(i['write'])},\n"
                    f"    members := {lean_list(i['members'])},\n    transient := {lean_list(tr)},\n"
                    f"    anomalies := {lean_list(i['anomalies'])},\n    family := {lean_str(i['family'])},\n"
                    f"    behaviourDeps := {lean_list(i['deps'])},\n    reconstructed := {lean_list(i['recon'])},\n"
                    f"    noted := {lean_list(noted)} }}\n")
        thms.append(f"theorem rw_{idn} : {idn}.readWriteAgree = true := by decide")
        thms.append(f"theorem cov_{idn} : {idn}.membersCovered = true := by decide")
        thms.append(f"theorem dep_{idn} : {idn}.depsCovered = true := by decide\n")
    data.append("def infos : List ClassInfo :=\n  [" + ",\n   ".join(names) + "]\n")
    data.append("end SharkVerif.Gen.Serial")
    thms.append("/-- every class with the proofs of its obligations -/\ndef checked : List Checked :=\n  [" +
                ",\n   ".join(f"⟨{n_}, rw_{n_}, cov_{n_}, dep_{n_}⟩" for n_ in names) + "]\n")
    thms.append("def classes : List ClassInfo := checked.map (·.info)\n")
    thms.append("end SharkVerif.Gen.Serial")
    changed = False
    bodies = {}
    for cls_ in PINNED:
        for f in by_cls.get(cls_, []):
            if f["kind"] == "serialize" and f["body"] is not None and cls_ not in bodies:
                bodies[cls_] = re.sub(r'"\s*"', '" "', re.sub(r"\s+", " ", f["body"]).strip())
    codec_txt, problems = gen_codecs(infos, classes, bodies)
    for pr in problems:
        print("codec generation: " + pr, file=sys.stderr)
    for path, lines in ((a.out.replace("Serial.lean", "SerialData.lean"), data), (a.out, thms),
                        (a.out.replace("Serial.lean", "SerialCodec.lean"), [codec_txt.rstrip("\n")])):
        txt = "\n".join(lines) + "\n"
        os.makedirs(os.path.dirname(path), exist_ok=True)
        old = open(path).read() if os.path.exists(path) else None
        if old != txt:
            open(path, "w").write(txt); changed = True
    fam = {}
    for i in infos: fam[i["family"]] = fam.get(i["family"], 0) + 1
    print(f"classes={len(infos)} pairs={n_pairs} serialize_templates={n_serialize} "
          f"anomalies={sum(len(i['anomalies']) for i in infos)} with_behaviour_deps={sum(1 for i in infos if i['deps'])} "
          f"families={json.dumps(fam, sort_keys=True)} codec_problems={len(problems)} changed={changed}")
    return 1 if problems else 0


if __name__ == "__main__":
    sys.exit(main())
