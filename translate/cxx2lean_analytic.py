#!/usr/bin/env python3
"""T0 translator (DESIGN.md §4): pure scalar C++ -> Lean 4 definitions.

Regenerates lean/SharkVerif/Gen/Analytic.lean from
  <repo>/include/shark/Algorithms/QP/Impl/AnalyticProblems.h
using the clang-14 JSON AST (one clang run per function, ~0.3 s each).

Supported subset (anything else makes the translator FAIL LOUDLY, which the
orchestrator reports as a broken tie):
  * parameters / locals of type double (-> the polymorphic scalar `α`) and
    std::size_t / int (-> Nat); `double&` parameters become returned tuple components;
  * local arrays of a local struct of doubles with constant subscripts (each
    `a[k].f` is a scalar variable `a_k_f`); a run-time subscript (a size_t
    variable) is translated into a selection `if i = 0 then .. else if i = 1 ..`;
  * `=`, `+=`, `-=`, `*=`, `/=`, unary minus, `+ - * /`, comparisons, `&&`, `||`;
  * `if/else`, early `return`, `for(size_t k = 0; k != N; ++k)` with a literal
    trip count (unrolled);
  * `std::min/std::max` (with the C++ definition: max(a,b) = (a<b)?b:a,
    min(a,b) = (b<a)?b:a, so the Float instance treats NaN/signed zero like the C++);
  * calls of other translated functions (reference arguments are rebound to the
    returned components).

The imperative code is lowered to `let`-chains in SSA form: every assignment
introduces a fresh binder `x_k`; an `if` whose branches do not return is a
join `let (x_3, y_2) := if c then ... (x_2, y_1) else (x_1, y_1)`; an `if` with a
returning branch duplicates the continuation.
"""
import argparse, json, os, re, subprocess, sys, tempfile, hashlib

HEADER = "include/shark/Algorithms/QP/Impl/AnalyticProblems.h"
FUNCTIONS = ["solveQuadraticEdge", "solveQuadratic2DBox", "solveQuadratic2DTriangle",
             "maximumGainQuadratic2D", "maximumGainQuadratic2DOnLine"]
VERIF = os.path.dirname(os.path.dirname(os.path.abspath(__file__)))


class Unsupported(Exception):
    pass


def fail(node, why):
    loc = node.get("range", {}).get("begin", {})
    raise Unsupported(f"{why}: kind={node.get('kind')} line={loc.get('line')} col={loc.get('col')} "
                      f"offset={loc.get('offset')}")


def shark_h(repo):
    """directory with a Shark.h generated from the repo's Shark.h.in"""
    inc = os.path.join(VERIF, ".cache", "inc")
    dst = os.path.join(inc, "shark", "Core", "Shark.h")
    os.makedirs(os.path.dirname(dst), exist_ok=True)
    src = open(os.path.join(repo, "include/shark/Core/Shark.h.in")).read()
    on = {"SHARK_USE_CBLAS", "SHARK_USE_LAPACK", "SHARK_USE_OPENMP"}
    src = re.sub(r"^\s*#cmakedefine\s+(\w+)",
                 lambda m: f"#define {m.group(1)}" if m.group(1) in on else f"/* #undef {m.group(1)} */",
                 src, flags=re.M)
    for k, v in (("MAJOR", "4"), ("MINOR", "0"), ("PATCH", "0")):
        src = src.replace(f"@SHARK_VERSION_{k}@", v)
    if not os.path.exists(dst) or open(dst).read() != src:
        with open(dst, "w") as f:
            f.write(src)
    return inc


def clang_ast(repo, inc, fn):
    with tempfile.NamedTemporaryFile("w", suffix=".cpp", dir=os.path.join(VERIF, ".cache"), delete=False) as f:
        f.write(f'#include <cstddef>\n#include "{os.path.join(repo, HEADER)}"\n')
        tu = f.name
    try:
        cmd = ["clang++-14", "-std=gnu++17", "-fsyntax-only", "-I" + os.path.join(repo, "include"), "-I" + inc,
               "-Xclang", "-ast-dump=json", "-Xclang", f"-ast-dump-filter={fn}", tu]
        p = subprocess.run(cmd, stdout=subprocess.PIPE, stderr=subprocess.PIPE, text=True)
        if p.returncode != 0:
            raise Unsupported(f"clang failed on {fn}: {p.stderr[-2000:]}")
        dec, i, objs, txt = json.JSONDecoder(), 0, [], p.stdout
        while True:
            while i < len(txt) and txt[i].isspace():
                i += 1
            if i >= len(txt):
                break
            o, i = dec.raw_decode(txt, i)
            objs.append(o)
        cands = [o for o in objs if o.get("kind") == "FunctionDecl" and o.get("name") == fn
                 and any(c.get("kind") == "CompoundStmt" for c in o.get("inner", []))]
        if len(cands) != 1:
            raise Unsupported(f"expected exactly one definition of {fn}, found {len(cands)}")
        return cands[0]
    finally:
        os.unlink(tu)


# ----------------------------------------------------------------------------
class Fn:
    """translation of one function"""

    def __init__(self, decl, src, known):
        self.decl, self.src, self.known = decl, src, known
        self.name = decl["name"]
        self.params = []          # (id, name, kind 'val'|'ref', type 'R'|'N')
        self.version = {}         # variable key -> current SSA version
        self.types = {}           # variable key -> 'R' | 'N'
        self.names = {}           # decl id -> base name
        self.arrays = {}          # decl id -> (name, size, [fields])
        self.consts = {}          # decl id -> int (unrolled loop variables)
        self.outs = []            # keys of reference parameters, in order
        self.ret_type = None

    # -- types
    def ty(self, qual, node):
        q = qual.replace("const ", "").strip()
        if q in ("double",):
            return "R"
        if q in ("std::size_t", "size_t", "unsigned long", "int", "unsigned int"):
            return "N"
        fail(node, f"unsupported type {qual!r}")

    # -- SSA names
    def cur(self, key):
        v = self.version[key]
        return key if v == 0 else f"{key}_{v}"

    def fresh(self, key):
        self.version[key] = self.version.get(key, -1) + 1
        return self.cur(key)

    # -- expressions
    def lit_float(self, node):
        b = node["range"]["begin"]
        tok = self.src[b["offset"]: b["offset"] + b["tokLen"]]
        m = re.fullmatch(r"(\d*)\.?(\d*)(?:[eE]([+-]?\d+))?", tok)
        if not m or (not m.group(1) and not m.group(2)):
            fail(node, f"unsupported floating literal {tok!r}")
        ip, fp, ex = m.group(1) or "0", m.group(2) or "0", m.group(3)
        return f"({ip}.{fp}" + (f"e{int(ex)}" if ex else "") + " : α)"

    def lvalue_key(self, node):
        """variable key of an lvalue expression (scalar variable or a[k].f with constant k);
        returns (key, None) or (None, (array, index_expr_node, field)) for run-time subscripts"""
        k = node["kind"]
        if k == "ParenExpr":
            return self.lvalue_key(node["inner"][0])
        if k == "DeclRefExpr":
            rid = node["referencedDecl"]["id"]
            if rid in self.consts:
                fail(node, "loop variable used as lvalue")
            if rid not in self.names:
                fail(node, f"reference to unknown declaration {node['referencedDecl'].get('name')}")
            return self.names[rid], None
        if k == "MemberExpr":
            base = node["inner"][0]
            field = node["name"]
            if base["kind"] != "ArraySubscriptExpr":
                fail(node, "member access on something that is not array[k]")
            arr, idx = base["inner"]
            while arr["kind"] in ("ImplicitCastExpr", "ParenExpr"):
                arr = arr["inner"][0]
            aid = arr["referencedDecl"]["id"]
            if aid not in self.arrays:
                fail(node, "subscript of unknown array")
            aname, size, fields = self.arrays[aid]
            if field not in fields:
                fail(node, f"unknown field {field}")
            c = self.const_index(idx)
            if c is not None:
                if not (0 <= c < size):
                    fail(node, f"constant subscript {c} out of range 0..{size-1}")
                return f"{aname}_{c}_{field}", None
            return None, (aid, idx, field)
        fail(node, "unsupported lvalue")

    def const_index(self, node):
        while node["kind"] in ("ImplicitCastExpr", "ParenExpr"):
            node = node["inner"][0]
        if node["kind"] == "IntegerLiteral":
            return int(node["value"])
        if node["kind"] == "DeclRefExpr" and node["referencedDecl"]["id"] in self.consts:
            return self.consts[node["referencedDecl"]["id"]]
        return None

    def expr(self, node, want=None):
        """returns (lean_text, type) ; type in R, N, B"""
        k = node["kind"]
        if k == "ParenExpr":
            return self.expr(node["inner"][0], want)
        if k == "ImplicitCastExpr":
            ck = node["castKind"]
            if ck in ("LValueToRValue", "NoOp", "FunctionToPointerDecay"):
                return self.expr(node["inner"][0], want)
            if ck == "IntegralToFloating":
                inner = node["inner"][0]
                while inner["kind"] in ("ImplicitCastExpr", "ParenExpr"):
                    inner = inner["inner"][0]
                if inner["kind"] == "IntegerLiteral":
                    return f"({int(inner['value'])}.0 : α)", "R"
                if inner["kind"] == "UnaryOperator" and inner.get("opcode") == "-":
                    lit = inner["inner"][0]
                    while lit["kind"] in ("ImplicitCastExpr", "ParenExpr"):
                        lit = lit["inner"][0]
                    if lit["kind"] == "IntegerLiteral":
                        return f"(-({int(lit['value'])}.0 : α))", "R"
                fail(node, "integer-to-double conversion of a non-literal")
            if ck == "IntegralCast":
                return self.expr(node["inner"][0], "N")
            fail(node, f"unsupported cast {ck}")
        if k == "MaterializeTemporaryExpr" or k == "ExprWithCleanups" or k == "CXXDefaultArgExpr":
            if k == "CXXDefaultArgExpr":
                fail(node, "default argument used at a call site")
            return self.expr(node["inner"][0], want)
        if k == "FloatingLiteral":
            return self.lit_float(node), "R"
        if k == "IntegerLiteral":
            return str(int(node["value"])), "N"
        if k == "DeclRefExpr":
            rid = node["referencedDecl"]["id"]
            if rid in self.consts:
                return str(self.consts[rid]), "N"
            key, _ = self.lvalue_key(node)
            return self.cur(key), self.types[key]
        if k == "MemberExpr":
            key, dyn = self.lvalue_key(node)
            if key is not None:
                return self.cur(key), "R"
            aid, idx, field = dyn
            aname, size, fields = self.arrays[aid]
            it, ity = self.expr(idx)
            if ity != "N":
                fail(node, "non-integer subscript")
            # a[i].f with run-time i: selection over the constant indices (i < size is the
            # C++ precondition; the last alternative is the value for i = size-1)
            out = self.cur(f"{aname}_{size-1}_{field}")
            for c in range(size - 2, -1, -1):
                out = f"(if {it} = {c} then {self.cur(f'{aname}_{c}_{field}')} else {out})"
            return out, "R"
        if k == "UnaryOperator":
            if node["opcode"] == "-":
                t, ty = self.expr(node["inner"][0])
                if ty != "R":
                    fail(node, "unary minus on non-double")
                return f"(-{t})", "R"
            fail(node, f"unsupported unary operator {node['opcode']}")
        if k == "BinaryOperator":
            op = node["opcode"]
            a, ta = self.expr(node["inner"][0])
            b, tb = self.expr(node["inner"][1])
            if op in "+-*/":
                if ta != "R" or tb != "R":
                    fail(node, f"arithmetic {op} on non-double operands")
                return f"({a} {op} {b})", "R"
            if op in ("<", ">", "<=", ">=", "==", "!="):
                if ta != tb:
                    fail(node, "comparison of mixed types")
                if op in ("==", "!=") and ta == "R":
                    fail(node, "floating-point equality is not in the supported subset")
                lop = {"<": "<", ">": ">", "<=": "≤", ">=": "≥", "==": "=", "!=": "≠"}[op]
                return f"({a} {lop} {b})", "B"
            if op == "&&":
                return f"({a} ∧ {b})", "B"
            if op == "||":
                return f"({a} ∨ {b})", "B"
            fail(node, f"unsupported binary operator {op}")
        if k == "CallExpr":
            callee = node["inner"][0]
            while callee["kind"] in ("ImplicitCastExpr", "ParenExpr"):
                callee = callee["inner"][0]
            cname = callee.get("referencedDecl", {}).get("name")
            args = node["inner"][1:]
            if cname in ("min", "max") and len(args) == 2:
                a, ta = self.expr(args[0])
                b, tb = self.expr(args[1])
                if ta != "R" or tb != "R":
                    fail(node, "std::min/max on non-double")
                return f"({'smin' if cname == 'min' else 'smax'} {a} {b})", "R"
            if cname in self.known and not self.known[cname]["refs"]:
                info = self.known[cname]
                if len(args) != len(info["params"]):
                    fail(node, f"call of {cname} with {len(args)} arguments (defaults are not supported)")
                ts = []
                for a_ in args:
                    if a_["kind"] == "CXXDefaultArgExpr":
                        fail(node, "default argument at call site")
                    t, _ = self.expr(a_)
                    ts.append(t)
                return f"({cname} " + " ".join(ts) + ")", info["ret"]
            fail(node, f"unsupported call of {cname}")
        fail(node, "unsupported expression")

    # -- statements: each returns Lean text for "stmt; rest" given a continuation producing text
    def result_tuple(self):
        outs = [self.cur(k) for k in self.outs]
        if not outs:
            return "()"
        return outs[0] if len(outs) == 1 else "(" + ", ".join(outs) + ")"

    def assigned(self, node, acc):
        """keys possibly assigned inside a statement (for if-joins)"""
        k = node.get("kind")
        if k in ("BinaryOperator", "CompoundAssignOperator") and (k == "CompoundAssignOperator" or node["opcode"] == "="):
            key, dyn = self.lvalue_key(node["inner"][0])
            if key is None:
                fail(node, "assignment through a run-time subscript")
            if key not in acc:
                acc.append(key)
        if k == "CallExpr":
            callee = node["inner"][0]
            while callee["kind"] in ("ImplicitCastExpr", "ParenExpr"):
                callee = callee["inner"][0]
            cname = callee.get("referencedDecl", {}).get("name")
            if cname in self.known:
                for pos in self.known[cname]["refs"]:
                    key, dyn = self.lvalue_key(node["inner"][1 + pos])
                    if key not in acc:
                        acc.append(key)
        for c in node.get("inner", []):
            if isinstance(c, dict) and c.get("kind"):
                self.assigned(c, acc)
        return acc

    def has_return(self, node):
        if node.get("kind") == "ReturnStmt":
            return True
        return any(self.has_return(c) for c in node.get("inner", []) if isinstance(c, dict))

    def declares(self, node):
        if node.get("kind") == "DeclStmt":
            return True
        return any(self.declares(c) for c in node.get("inner", []) if isinstance(c, dict))

    def stmts(self, nodes, ind, k):
        """translate a statement list followed by continuation k() -> text"""
        if not nodes:
            return k()
        head, rest = nodes[0], nodes[1:]
        return self.stmt(head, ind, lambda: self.stmts(rest, ind, k))

    def stmt(self, node, ind, k):
        pad = "  " * ind
        kind = node.get("kind")
        if kind is None or kind == "NullStmt":
            return k()
        if kind == "CompoundStmt":
            return self.stmts(list(node.get("inner", [])), ind, k)
        if kind == "DeclStmt":
            out = ""
            for d in node["inner"]:
                if d["kind"] == "CXXRecordDecl":
                    continue
                if d["kind"] != "VarDecl":
                    fail(d, "unsupported declaration")
                qt = d["type"]["qualType"]
                m = re.fullmatch(r"(\w+)\[(\d+)\]", qt)
                if m:
                    rec = self.records.get(m.group(1))
                    if rec is None:
                        fail(d, f"array of unknown struct {m.group(1)}")
                    self.arrays[d["id"]] = (d["name"], int(m.group(2)), rec)
                    for c in range(int(m.group(2))):
                        for f in rec:
                            key = f"{d['name']}_{c}_{f}"
                            self.types[key] = "R"
                            self.version[key] = 0
                            # uninitialised C++ storage: reading it before a write would be UB;
                            # bind it to 0 so that the Lean term is closed
                            out += f"{pad}let {key} : α := (0.0 : α)\n"
                    continue
                t = self.ty(qt, d)
                inits = [c for c in d.get("inner", []) if c.get("kind") and "Comment" not in c["kind"]]
                if len(inits) != 1:
                    fail(d, "local variable without initialiser")
                e, et = self.expr(inits[0], t)
                if et != t:
                    fail(d, f"initialiser type {et} for variable of type {t}")
                if d["id"] in self.names:       # same declaration again (unrolled loop / duplicated continuation)
                    key = self.names[d["id"]]
                else:
                    key = d["name"]
                    if key in self.version:     # a different declaration of the same name: own binder
                        key = f"{d['name']}'{len([x for x in self.version if x.startswith(d['name'])])}"
                self.names[d["id"]] = key
                self.types[key] = t
                self.version[key] = 0
                out += f"{pad}let {key} : {'α' if t == 'R' else 'Nat'} := {e}\n"
            return out + k()
        if kind in ("BinaryOperator", "CompoundAssignOperator"):
            op = node["opcode"]
            key, dyn = self.lvalue_key(node["inner"][0])
            if key is None:
                fail(node, "assignment through a run-time subscript")
            rhs, rt = self.expr(node["inner"][1], self.types[key])
            if rt != self.types[key]:
                fail(node, "assignment with type change")
            if op == "=":
                e = rhs
            elif op in ("+=", "-=", "*=", "/="):
                if rt != "R":
                    fail(node, "compound assignment on non-double")
                e = f"({self.cur(key)} {op[0]} {rhs})"
            else:
                fail(node, f"unsupported statement operator {op}")
            new = self.fresh(key)
            return f"{pad}let {new} := {e}\n" + k()
        if kind == "CallExpr":
            callee = node["inner"][0]
            while callee["kind"] in ("ImplicitCastExpr", "ParenExpr"):
                callee = callee["inner"][0]
            cname = callee.get("referencedDecl", {}).get("name")
            if cname not in self.known or not self.known[cname]["refs"]:
                fail(node, f"unsupported call statement {cname}")
            info = self.known[cname]
            args = node["inner"][1:]
            if len(args) != len(info["params"]):
                fail(node, "call with default arguments")
            ts, keys = [], []
            for pos, a_ in enumerate(args):
                if pos in info["refs"]:
                    key, dyn = self.lvalue_key(a_)
                    if key is None:
                        fail(node, "reference argument with run-time subscript")
                    keys.append(key)
                    ts.append(self.cur(key))
                else:
                    t, _ = self.expr(a_)
                    ts.append(t)
            if len(set(keys)) != len(keys):
                fail(node, "aliased reference arguments")
            news = [self.fresh(key) for key in keys]
            lhs = news[0] if len(news) == 1 else "(" + ", ".join(news) + ")"
            return f"{pad}let {lhs} := {cname} " + " ".join(ts) + "\n" + k()
        if kind == "ReturnStmt":
            vals = [c for c in node.get("inner", []) if c.get("kind")]
            if vals:
                if self.outs:
                    fail(node, "function with reference parameters returns a value")
                e, et = self.expr(vals[0])
                if et != self.ret_type:
                    fail(node, f"return of type {et} in a function returning {self.ret_type}")
                return f"{pad}{e}\n"
            return f"{pad}{self.result_tuple()}\n"
        if kind == "IfStmt":
            parts = [c for c in node["inner"]]
            cond, then = parts[0], parts[1]
            els = parts[2] if len(parts) > 2 else None
            c, ct = self.expr(cond)
            if ct != "B":
                fail(node, "non-boolean condition")
            if self.has_return(node):
                # duplicate the continuation into both branches
                saved = dict(self.version)
                t_txt = self.stmt(then, ind + 1, k)
                self.version = dict(saved)
                e_txt = self.stmt(els, ind + 1, k) if els is not None else k()
                return f"{pad}if {c} then (\n{t_txt}{pad}) else (\n{e_txt}{pad})\n"
            keys = self.assigned(then, [])
            if els is not None:
                self.assigned(els, keys)
            saved = dict(self.version)
            # variables declared inside a branch are local to it and are not joined
            keys = [x for x in keys if x in saved]
            if not keys:
                return k()

            def branch(body, key):
                self.version = dict(saved)
                def tail():
                    return ("  " * (ind + 2)) + self.cur(key) + "\n"
                if body is None:
                    return tail()
                return self.stmt(body, ind + 2, tail)
            # one `if` per joined variable (each repeats the branch computation): no tuples, which
            # keeps the generated term friendly to `split` / `grind`
            texts = [(x, branch(then, x), branch(els, x)) for x in keys]
            self.version = dict(saved)
            out = ""
            news = {x: None for x in keys}
            for x, t_txt, e_txt in texts:
                self.version[x] = saved[x]
            fresh_names = {}
            for x in keys:
                fresh_names[x] = f"{x}_{saved[x] + 1}"
            for x, t_txt, e_txt in texts:
                out += f"{pad}let {fresh_names[x]} :=\n{pad}  if {c} then (\n{t_txt}{pad}  ) else (\n{e_txt}{pad}  )\n"
            for x in keys:
                self.version[x] = saved[x] + 1
            return out + k()
        if kind == "ForStmt":
            init, _, cond, inc, body = node["inner"][0], node["inner"][1], node["inner"][2], node["inner"][3], node["inner"][4]
            try:
                vd = init["inner"][0]
                assert init["kind"] == "DeclStmt" and vd["kind"] == "VarDecl"
                start = self.const_index(vd["inner"][0])
                assert start is not None
                assert cond["kind"] == "BinaryOperator" and cond["opcode"] in ("!=", "<")
                lhs = cond["inner"][0]
                while lhs["kind"] in ("ImplicitCastExpr", "ParenExpr"):
                    lhs = lhs["inner"][0]
                assert lhs["referencedDecl"]["id"] == vd["id"]
                stop = self.const_index(cond["inner"][1])
                assert stop is not None and stop >= start and stop - start <= 16
                assert inc["kind"] == "UnaryOperator" and inc["opcode"] == "++"
                tgt = inc["inner"][0]
                assert tgt["referencedDecl"]["id"] == vd["id"]
            except (AssertionError, KeyError, IndexError):
                fail(node, "for loop is not of the form for(size_t k = a; k != N; ++k) with literal bounds")
            if self.has_return(body):
                fail(node, "return inside a loop")

            def unroll(i):
                if i == stop:
                    self.consts.pop(vd["id"], None)
                    return k()
                self.consts[vd["id"]] = i
                # a fresh scope per iteration for the locals declared in the body
                return self.stmt(body, ind, lambda: unroll(i + 1))
            return unroll(start)
        fail(node, "unsupported statement")

    def translate(self):
        d = self.decl
        self.records = {}
        def find_records(n):
            if n.get("kind") == "CXXRecordDecl" and n.get("completeDefinition"):
                fields = [c["name"] for c in n.get("inner", []) if c.get("kind") == "FieldDecl"]
                for c in n.get("inner", []):
                    if c.get("kind") == "FieldDecl" and c["type"]["qualType"] != "double":
                        fail(c, "struct field that is not a double")
                self.records[n["name"]] = fields
            for c in n.get("inner", []):
                if isinstance(c, dict):
                    find_records(c)
        find_records(d)
        body = None
        for c in d["inner"]:
            if c["kind"] == "ParmVarDecl":
                qt = c["type"]["qualType"]
                ref = qt.endswith("&")
                t = self.ty(qt.rstrip("&").strip(), c)
                self.names[c["id"]] = c["name"]
                self.types[c["name"]] = t
                self.version[c["name"]] = 0
                self.params.append((c["name"], "ref" if ref else "val", t))
                if ref:
                    if t != "R":
                        fail(c, "reference parameter that is not double&")
                    self.outs.append(c["name"])
            elif c["kind"] == "CompoundStmt":
                body = c
        rq = d["type"]["qualType"].split("(")[0].strip()
        if rq == "void":
            self.ret_type = None
        else:
            self.ret_type = self.ty(rq, d)
            if self.outs:
                fail(d, "non-void function with reference parameters")
        end = (lambda: "  " + self.result_tuple() + "\n") if rq == "void" else (lambda: fail(d, "control reaches end of non-void function"))
        text = self.stmts(list(body.get("inner", [])), 1, end)
        if rq == "void":
            rt = " × ".join("α" for _ in self.outs) if self.outs else "Unit"
        else:
            rt = "α" if self.ret_type == "R" else "Nat"
        ps = " ".join(f"({n} : {'α' if t == 'R' else 'Nat'})" for n, _, t in self.params)
        return f"def {self.name} {ps} : {rt} :=\n{text}"


PRELUDE = '''/-
GENERATED by translate/cxx2lean_analytic.py — DO NOT EDIT BY HAND.
Source: {header}  (sha256 {sha})
Regenerated from the repo working tree on every run of `./check C08` / `./check C07`.

Every `double` became the polymorphic scalar `α` (instantiated at `Rat` for the
theorems and at `Float` for the driver that is compared bit-for-bit with the C++);
`double&` parameters are returned as tuple components in parameter order.
-/
import SharkVerif.Model.QpScalar
set_option linter.unusedVariables false
namespace SharkVerif.Gen.Analytic
open SharkVerif.Qp
variable {{α : Type}} [Add α] [Sub α] [Mul α] [Div α] [Neg α] [LT α] [LE α]
  [DecidableLT α] [DecidableLE α] [OfScientific α]

'''


def main():
    ap = argparse.ArgumentParser()
    ap.add_argument("--repo", default="/repo")
    ap.add_argument("--out", default=os.path.join(VERIF, "lean", "SharkVerif", "Gen", "Analytic.lean"))
    a = ap.parse_args()
    hdr = os.path.join(a.repo, HEADER)
    src = open(hdr).read()
    inc = shark_h(a.repo)
    os.makedirs(os.path.join(VERIF, ".cache"), exist_ok=True)
    known, defs = {}, []
    try:
        for fn in FUNCTIONS:
            decl = clang_ast(a.repo, inc, fn)
            f = Fn(decl, src, known)
            text = f.translate()
            known[fn] = {"params": f.params, "refs": [i for i, p in enumerate(f.params) if p[1] == "ref"],
                         "ret": f.ret_type}
            doc = f"/-- `shark::detail::{fn}` ({HEADER}, line {decl['loc'].get('line', '?')}) -/\n"
            defs.append(doc + text)
    except Unsupported as e:
        print(f"cxx2lean_analytic: SOURCE NOT RECOGNISED: {e}", file=sys.stderr)
        sys.exit(2)
    out = PRELUDE.format(header=HEADER, sha=hashlib.sha256(src.encode()).hexdigest()[:16]) + "\n".join(defs) + \
        "\nend SharkVerif.Gen.Analytic\n"
    os.makedirs(os.path.dirname(a.out), exist_ok=True)
    if not os.path.exists(a.out) or open(a.out).read() != out:
        with open(a.out, "w") as fh:
            fh.write(out)
        print(f"rewrote {os.path.relpath(a.out, VERIF)}")
    else:
        print(f"{os.path.relpath(a.out, VERIF)} unchanged")
    print(f"translated {len(defs)} functions: {', '.join(FUNCTIONS)}")


if __name__ == "__main__":
    main()
