"""Tiny recursive-descent translator for scalar C++ integer expressions
(identifiers, literals, + - * / %, parentheses, std::min/std::max, C casts to
integer types) into Lean `Nat` expressions.  Fails loudly on anything else."""
import re

TOK = re.compile(r"\s*(std::min|std::max|[A-Za-z_]\w*|\d+|[-+*/%(),])")
CASTS = {"int", "size_t", "std::size_t", "unsigned", "long"}


class ParseError(Exception):
    pass


def tokenize(s):
    s = re.sub(r"\(\s*(?:std::)?(?:size_t|int|unsigned|long)\s*\)", "", s)   # (int)x casts are identity on the modelled range
    out, i = [], 0
    while i < len(s):
        if s[i].isspace():
            i += 1; continue
        m = TOK.match(s, i)
        if not m:
            raise ParseError(f"cannot tokenize {s[i:]!r} in {s!r}")
        out.append(m.group(1)); i = m.end()
    return out


class P:
    def __init__(self, toks, rename):
        self.t, self.i, self.rename = toks, 0, rename
        self.idents = []

    def peek(self):
        return self.t[self.i] if self.i < len(self.t) else None

    def eat(self, x=None):
        tok = self.peek()
        if tok is None or (x is not None and tok != x):
            raise ParseError(f"expected {x!r}, got {tok!r} in {self.t}")
        self.i += 1
        return tok

    def expr(self):
        e = self.term()
        while self.peek() in ("+", "-"):
            op = self.eat(); r = self.term(); e = f"({e} {op} {r})"
        return e

    def term(self):
        e = self.atom()
        while self.peek() in ("*", "/", "%"):
            op = self.eat(); r = self.atom(); e = f"({e} {op} {r})"
        return e

    def atom(self):
        tok = self.eat()
        if tok == "(":
            e = self.expr(); self.eat(")"); return e
        if tok in ("std::min", "std::max"):
            self.eat("("); a = self.expr(); self.eat(","); b = self.expr(); self.eat(")")
            return f"({'min' if tok.endswith('min') else 'max'} {a} {b})"
        if tok.isdigit():
            return tok
        if re.match(r"[A-Za-z_]\w*$", tok):
            self.idents.append(tok)
            return self.rename.get(tok, tok)
        raise ParseError(f"unexpected token {tok!r} in {self.t}")


def to_lean(cexpr, rename=None):
    p = P(tokenize(cexpr), rename or {})
    e = p.expr()
    if p.peek() is not None:
        raise ParseError(f"trailing tokens in {cexpr!r}")
    return e, p.idents
