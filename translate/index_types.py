#!/usr/bin/env python3
"""T0b (index widths): every integer-typed declaration of the dataset headers
  include/shark/Data/Dataset.h, Impl/Dataset.inl, DataView.h, WeightedDataset.h, BatchInterface.h and of
  include/shark/Core/utility/Iterators.h (IndexingIterator & co: the iterators over the elements of a batch), functional.h (shuffle)
->  lean/SharkVerif/Gen/IndexTypes.lean

The Lean models of C03 use unbounded `Nat` for every index, position, size and batch count.  That is faithful to the
C++ only while the C++ keeps them in `std::size_t` / `std::ptrdiff_t` (and the element count stays below 2^64).  This
translator parses these headers with `clang++-14 -Xclang -ast-dump=json` (template *patterns*, no instantiations)
and lists every field, variable, parameter, typedef, function result and explicit cast whose type is an integer
type or a `std::vector` of one, with its width.  Entries are split into

  * `indexDecls`   -- everything that is not explicitly recognised as one of the two groups below,
  * `labelDecls`   -- class labels (`unsigned int` by design of LabeledData<I, unsigned int>): an allowlist of
                      (function, name) pairs,
  * `ompCounters`  -- the `int` loop counters of the two OpenMP loops over *batches* in `transform` (batch count < 2^31),

and the generated obligation `index_fields_are_size_t` says that every entry of `indexDecls` is 64 bits wide.
Narrowing any index-carrying member (DataView::Index, the positions of DataElementIterator / DataView::IteratorBase, the
size vectors, loop counters, parameters, a `static_cast<uint16_t>(i)`) therefore breaks a proof obligation even if no
run reaches the size at which it wraps.  The members the C03 theorems talk about must exist under their names
(`REQUIRED`), otherwise the translator rejects the source (a broken tie).
"""
import argparse, json, os, re, subprocess, sys, tempfile

HERE = os.path.dirname(os.path.abspath(__file__))
OUT = os.path.join(os.path.dirname(HERE), "lean", "SharkVerif", "Gen", "IndexTypes.lean")
FILES = ("shark/Data/Dataset.h", "shark/Data/Impl/Dataset.inl", "shark/Data/DataView.h", "shark/Data/WeightedDataset.h",
         "shark/Data/BatchInterface.h", "shark/Core/utility/Iterators.h", "shark/Core/utility/functional.h")

SCALAR = {"unsigned long": (64, False), "std::size_t": (64, False), "size_t": (64, False), "long": (64, True),
          "std::ptrdiff_t": (64, True), "ptrdiff_t": (64, True), "unsigned long long": (64, False), "long long": (64, True),
          "unsigned int": (32, False), "unsigned": (32, False), "int": (32, True), "unsigned short": (16, False),
          "short": (16, True), "unsigned char": (8, False), "signed char": (8, True), "char": (8, True),
          "std::uint64_t": (64, False), "std::int64_t": (64, True), "std::uint32_t": (32, False), "std::int32_t": (32, True),
          "std::uint16_t": (16, False), "std::int16_t": (16, True), "std::uint8_t": (8, False), "std::int8_t": (8, True),
          "uint64_t": (64, False), "int64_t": (64, True), "uint32_t": (32, False), "int32_t": (32, True),
          "uint16_t": (16, False), "int16_t": (16, True), "uint8_t": (8, False), "int8_t": (8, True)}

# class labels: LabeledData<I, unsigned int>; (innermost enclosing function or class, declaration name or "" for casts / results)
LABELS = {("numberOfClasses", ""), ("numberOfClasses", "classes"), ("classSizes", "elem"),
          ("binarySubProblem", "zeroClass"), ("binarySubProblem", "oneClass"), ("binarySubProblem", ""),
          ("operator()", "label"), ("operator()", ""),
          ("oneVersusRestProblem", "oneClass"), ("oneVersusRestProblem", "")}
# `int batches = (int) data.numberOfBatches(); SHARK_PARALLEL_FOR(int i = 0; i < batches; ++i)` (OpenMP 2 wants a signed counter)
OMP = {("transform", "batches"), ("transform", "i"), ("transform", "")}

# members the models / theorems name: (class path suffix, field) -> must be present
REQUIRED = [("IndexingIterator", "m_index"), ("DataView::Index", "batch"), ("DataView::Index", "positionInBatch"), ("DataView::Index", "datasetIndex"),
            ("DataView::IteratorBase", "m_position"),
            ("DataElementIterator", "m_batchPosition"), ("DataElementIterator", "m_elementPosition"),
            ("DataElementIterator", "m_positionInSequence")]


def die(msg):
    print("index_types.py: " + msg, file=sys.stderr)
    sys.exit(2)


def classify(q):
    """-> (is_vector, width, signed) for integer types and vectors of them, None otherwise"""
    q = re.sub(r"\b(const|volatile)\b", "", q).replace("&", "").strip()
    q = re.sub(r"\s+", " ", q)
    m = re.match(r"^(?:std::)?vector<(.+?)(?:, ?std::allocator<.*>)?>$", q)
    if m:
        r = classify(m.group(1))
        return (True, r[1], r[2]) if r else None
    if q in SCALAR:
        return (False,) + SCALAR[q]
    return None


class Walker:
    def __init__(self):
        self.file, self.line = None, None
        self.entries = {}

    def upd(self, loc):
        if not isinstance(loc, dict):
            return None
        for k in ("spellingLoc", "expansionLoc"):
            if k in loc:
                self.upd(loc[k])
        if "file" in loc: self.file = loc["file"]
        if "line" in loc: self.line = loc["line"]
        return (self.file, self.line)

    def walk(self, n, ctx, skip=False):
        if not isinstance(n, dict):
            return
        kind = n.get("kind")
        at = None
        if n.get("loc"):
            at = self.upd(n["loc"])
        if "range" in n:
            b = self.upd(n["range"].get("begin"))
            self.upd(n["range"].get("end"))
            if at is None:
                at = b
        name = n.get("name", "")
        t = n.get("type", {})
        if not skip and at and at[0] and any(at[0].endswith(x) for x in FILES):
            q = None
            if kind in ("FieldDecl", "VarDecl", "ParmVarDecl", "TypedefDecl", "TypeAliasDecl",
                        "CXXStaticCastExpr", "CStyleCastExpr", "CXXFunctionalCastExpr", "CXXReinterpretCastExpr"):
                q = t.get("desugaredQualType") or t.get("qualType")
            elif kind in ("CXXMethodDecl", "FunctionDecl", "CXXConversionDecl"):
                q = (t.get("qualType") or "").split("(")[0].strip()
            if q:
                c = classify(q)
                if c:
                    f = next(x for x in FILES if at[0].endswith(x)).split("shark/", 1)[1].replace("Data/", "", 1)
                    k = {"FieldDecl": "field", "VarDecl": "variable", "ParmVarDecl": "parameter", "TypedefDecl": "typedef",
                         "TypeAliasDecl": "typedef", "CXXMethodDecl": "result", "FunctionDecl": "result", "CXXConversionDecl": "result"}.get(kind, "cast")
                    key = (f, at[1], k, "::".join(ctx), name)
                    self.entries[key] = (c, t.get("qualType") or q)
        c2 = ctx
        if kind in ("CXXRecordDecl", "ClassTemplateDecl", "FunctionDecl", "CXXMethodDecl", "FunctionTemplateDecl",
                    "CXXConstructorDecl", "ClassTemplatePartialSpecializationDecl") and name:
            if not ctx or ctx[-1] != name:
                c2 = ctx + [name]
        first_fn = True
        for c in n.get("inner", []):
            sk = skip
            ck = c.get("kind") if isinstance(c, dict) else None
            if ck == "ClassTemplateSpecializationDecl":
                sk = True                       # instantiations repeat the pattern with concrete types
            if kind == "FunctionTemplateDecl" and ck in ("FunctionDecl", "CXXMethodDecl", "CXXConstructorDecl"):
                if not first_fn:
                    sk = True
                first_fn = False
            self.walk(c, c2, sk)


def lean_str(s):
    return '"' + s.replace("\\", "\\\\").replace('"', '\\"') + '"'


def main():
    ap = argparse.ArgumentParser()
    ap.add_argument("--repo", default="/repo")
    ap.add_argument("--inc", default=None, help="directory with the generated shark/Core/Shark.h")
    ap.add_argument("--out", default=OUT)
    a = ap.parse_args()
    inc = a.inc or os.path.join(os.path.dirname(HERE), ".cache", "inc")
    if not os.path.exists(os.path.join(inc, "shark", "Core", "Shark.h")):
        die(f"no generated Shark.h under {inc}")
    with tempfile.TemporaryDirectory(dir="/var/tmp") as td:
        tu = os.path.join(td, "index_types_tu.cpp")
        open(tu, "w").write("#include <shark/Data/Dataset.h>\n#include <shark/Data/DataView.h>\n#include <shark/Data/WeightedDataset.h>\n")
        p = subprocess.run(["clang++-14", "-std=c++11", "-fsyntax-only", "-DNDEBUG", "-w", "-I" + inc,
                            "-I" + os.path.join(a.repo, "include"), "-Xclang", "-ast-dump=json",
                            "-Xclang", "-ast-dump-filter=shark::", tu], capture_output=True, text=True)
    if p.returncode != 0:
        die("clang rejected the dataset headers:\n" + p.stderr[-2000:])
    dec, txt, i, w = json.JSONDecoder(), p.stdout, 0, Walker()
    ndocs = 0
    while True:
        while i < len(txt) and txt[i] in " \n\r\t":
            i += 1
        if i >= len(txt):
            break
        if txt[i] != "{":                      # "Dumping xyz:" header lines of some clang versions
            i = txt.find("\n", i) + 1 or len(txt)
            continue
        o, i = dec.raw_decode(txt, i)
        ndocs += 1
        w.walk(o, [], skip=(o.get("kind") == "ClassTemplateSpecializationDecl"))
    if not w.entries:
        die("no integer-typed declaration found (AST layout changed?)")
    rows = {"index": [], "label": [], "omp": []}
    for (f, line, kind, ctx, name), ((vec, width, signed), written) in sorted(w.entries.items(), key=lambda kv: (kv[0][0], kv[0][1] or 0, kv[0][2], kv[0][4])):
        inner = ctx.split("::")[-1] if ctx else ""
        keyname = name
        if kind == "result":
            inner, keyname = name, ""
        elif kind == "cast":
            keyname = ""
        role = "index"
        if width == 32 and not signed and not vec and f == "Dataset.h" and (inner, keyname) in LABELS:
            role = "label"
        elif width == 32 and signed and not vec and f == "Dataset.h" and (inner, keyname) in OMP:
            role = "omp"
        rows[role].append((f, line, kind, ctx, name, written, vec, width, signed))
    have = {(ctx, name) for (f, line, kind, ctx, name, *_r) in rows["index"] if kind == "field"}
    for cls, fld in REQUIRED:
        if not any(c.endswith(cls) and n == fld for c, n in have):
            die(f"member {cls}::{fld} not found as an integer field (renamed, removed or no longer an integer): the C03 models name it")
    def width_of(cls, fld):
        return next(r[7] for r in rows["index"] if r[2] == "field" and r[3].endswith(cls) and r[4] == fld)

    def render(r):
        f, line, kind, ctx, name, written, vec, width, signed = r
        return (f"  ⟨{lean_str(f)}, {lean_str(kind)}, {lean_str(ctx)}, {lean_str(name)}, {lean_str(written)}, "
                f"{'true' if vec else 'false'}, {width}, {'true' if signed else 'false'}⟩")
    def lst(name, rs, doc):
        body = ",\n".join(dict.fromkeys(render(r) for r in rs))      # no line numbers: unrelated edits of the headers leave the file unchanged
        return f"/-- {doc} -/\ndef {name} : List IntDecl := [\n{body}]\n"
    # the index declarations in chunks of 40 (`decide` evaluates one chunk at a time), and the obligation per chunk
    CH = 40
    irows = list(dict.fromkeys(render(r) for r in rows["index"]))
    chunks = [irows[i:i + CH] for i in range(0, len(irows), CH)]
    chunk_defs = "\n".join(f"def indexDecls{i} : List IntDecl := [\n" + ",\n".join(c) + "]\n"
                           f"theorem indexDecls{i}_are_size_t : indexDecls{i}.all (fun d => d.width == 64) = true := by decide\n"
                           for i, c in enumerate(chunks))
    all_def = ("/-- indices, positions, sizes, counts, jumps: everything not recognised as a label or an OpenMP counter -/\n"
               "def indexDecls : List IntDecl := " + " ++ ".join(f"indexDecls{i}" for i in range(len(chunks))) + "\n")
    all_proof = "  simp only [indexDecls, List.all_append, Bool.and_eq_true]\n  exact " + \
        "⟨" * (len(chunks) - 1) + "indexDecls0_are_size_t" + "".join(f", indexDecls{i}_are_size_t⟩" for i in range(1, len(chunks)))
    out = f"""/-
GENERATED by translate/index_types.py from include/shark/Data/{{Dataset.h, Impl/Dataset.inl, DataView.h, WeightedDataset.h, BatchInterface.h}}
and include/shark/Core/utility/{{Iterators.h, functional.h}}
(clang-14 JSON AST, template patterns).  Do not edit; regenerated on every run of the C03 check.
{len(rows['index'])} index-carrying declarations, {len(rows['label'])} class-label declarations, {len(rows['omp'])} OpenMP batch counters.
-/
namespace SharkVerif.Gen.IndexTypes

/-- an integer-typed declaration (or explicit cast) of the dataset headers -/
structure IntDecl where
  file : String
  kind : String      -- field | variable | parameter | typedef | result | cast
  ctx : String       -- enclosing classes / functions
  name : String
  written : String   -- the type as written
  vector : Bool      -- std::vector of the integer type
  width : Nat        -- bits
  signed : Bool

{chunk_defs}
{all_def}
{lst('labelDecls', rows['label'], 'class labels (`unsigned int` by the design of `LabeledData<I, unsigned int>`)')}
{lst('ompCounters', rows['omp'], 'the signed `int` counters of the OpenMP loops over batches in `transform` (assumption: fewer than 2^31 batches)')}
/-- widths of the three fields of `DataView::Index` (what a view stores per element) -/
def viewBatchBits : Nat := {width_of('DataView::Index', 'batch')}
def viewPositionBits : Nat := {width_of('DataView::Index', 'positionInBatch')}
def viewDatasetIndexBits : Nat := {width_of('DataView::Index', 'datasetIndex')}
/-- widths of the positions of `DataElementIterator` and of `DataView::IteratorBase` -/
def iterBatchPositionBits : Nat := {width_of('DataElementIterator', 'm_batchPosition')}
def iterElementPositionBits : Nat := {width_of('DataElementIterator', 'm_elementPosition')}
def iterSequencePositionBits : Nat := {width_of('DataElementIterator', 'm_positionInSequence')}
def viewIterPositionBits : Nat := {width_of('DataView::IteratorBase', 'm_position')}

/-- OBLIGATION: every index-carrying declaration of the dataset headers is 64 bits wide (`std::size_t` / `std::ptrdiff_t`):
the unbounded `Nat` of the models is the C++ arithmetic as long as element counts stay below 2^64 -/
theorem index_fields_are_size_t : indexDecls.all (fun d => d.width == 64) = true := by
{all_proof}

/-- OBLIGATION: the narrow integers that remain are class labels (32 bit unsigned) and OpenMP batch counters (32 bit signed) -/
theorem narrow_declarations_are_labels_or_omp_counters :
    labelDecls.all (fun d => d.width == 32 && !d.signed && !d.vector) = true ∧
    ompCounters.all (fun d => d.width == 32 && d.signed && !d.vector) = true := by decide

end SharkVerif.Gen.IndexTypes
"""
    old = open(a.out).read() if os.path.exists(a.out) else None
    if old != out:
        open(a.out, "w").write(out)
    narrow = [r for r in rows["index"] if r[7] != 64]
    print(f"{ndocs} AST documents, {len(rows['index'])} index declarations ({len(narrow)} not 64 bit), "
          f"{len(rows['label'])} labels, {len(rows['omp'])} omp counters -> {os.path.relpath(a.out)}")
    for r in narrow[:8]:
        print(f"NARROW {r[0]}:{r[1]} {r[2]} {r[3]}::{r[4]} : {r[5]} ({r[7]} bits)")


if __name__ == "__main__":
    main()
