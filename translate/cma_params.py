#!/usr/bin/env python3
"""T0 (C11): regenerates lean/SharkVerif/Gen/CMAParams.lean from the C++ source.

For every evolution strategy the strategy-parameter formulas of its initialisation routine
(`CMA::doInit`, `CMSA::doInit` / `CMSA::init`, `VDCMA::init`, the `CMAChromosome`
constructor used by `ElitistCMA`, `LMCMA::init`) are located by their left-hand sides,
parsed (C++ arithmetic with the usual promotions: an operation on two integers is an
integer operation, an integer meeting a double is converted first) and emitted as Lean
definitions polymorphic in the scalar type: the native driver runs them at `Float` and the
result is compared bit for bit with the members of the real object; Props/C11.lean proves
the admissibility theorems about the *same* definitions at `Rat` for all n, mu, lambda.

A formula that is edited in the C++ changes the generated definition (the theorems are
re-checked against it on the next run); a formula that disappears, uses an identifier the
translator does not know, or is moved in front of a quantity it depends on, breaks the tie.
"""
import argparse, os, re, sys
from fractions import Fraction

V = os.path.dirname(os.path.dirname(os.path.abspath(__file__)))


class TError(Exception):
    pass


def strip_comments(s):
    s = re.sub(r"/\*.*?\*/", " ", s, flags=re.S)
    return re.sub(r"//[^\n]*", "", s)


def body_after(s, i):
    j = s.index("{", i)
    depth = 0
    for k in range(j, len(s)):
        if s[k] == "{": depth += 1
        elif s[k] == "}":
            depth -= 1
            if depth == 0: return s[j + 1:k]
    raise TError("unbalanced braces")


# ---------------------------------------------------------------- expression parser
TOK = re.compile(r"\s*(static_cast\s*<\s*double\s*>|(?:std)?::[A-Za-z_]\w*|[A-Za-z_]\w*|\d+\.\d*(?:[eE][-+]?\d+)?|\.\d+(?:[eE][-+]?\d+)?|\d+[eE][-+]?\d+|\d+|[-+*/(),])")
FUN1 = {"sqrt": "sqrt", "std::sqrt": "sqrt", "::sqrt": "sqrt", "log": "log", "std::log": "log", "::log": "log",
        "exp": "exp", "std::exp": "exp", "::exp": "exp"}
FUN2 = {"std::pow": "pow", "pow": "pow", "::pow": "pow"}


def tokenize(s):
    out, i = [], 0
    s = s.strip()
    while i < len(s):
        m = TOK.match(s, i)
        if not m:
            raise TError(f"cannot tokenize {s[i:]!r} in {s!r}")
        out.append(re.sub(r"\s+", "", m.group(1))); i = m.end()
        while i < len(s) and s[i].isspace(): i += 1
    return out


class Parser:
    """env: C identifier -> (lean name, 'nat' | 'real').  Results are (lean text, type)."""

    def __init__(self, toks, env, src):
        self.t, self.i, self.env, self.src = toks, 0, env, src
        self.used = []

    def peek(self):
        return self.t[self.i] if self.i < len(self.t) else None

    def eat(self, x=None):
        tok = self.peek()
        if tok is None or (x is not None and tok != x):
            raise TError(f"expected {x!r}, got {tok!r} in {self.src!r}")
        self.i += 1
        return tok

    @staticmethod
    def real(e):
        return e[0] if e[1] == "real" else f"(ofNat ({e[0]}) : α)"

    def binop(self, op, a, b):
        if a[1] == "nat" and b[1] == "nat":
            return (f"({a[0]} {op} {b[0]})", "nat")     # size_t arithmetic ('/' = integer division, '-' never wraps on the modelled range)
        return (f"({self.real(a)} {op} {self.real(b)})", "real")

    def expr(self):
        e = self.term()
        while self.peek() in ("+", "-"):
            op = self.eat(); r = self.term(); e = self.binop(op, e, r)
        return e

    def term(self):
        e = self.unary()
        while self.peek() in ("*", "/"):
            op = self.eat(); r = self.unary(); e = self.binop(op, e, r)
        return e

    def unary(self):
        if self.peek() == "-":
            self.eat(); e = self.unary()
            return (f"(-{self.real(e)})", "real")
        if self.peek() == "+":
            self.eat(); return self.unary()
        return self.atom()

    def atom(self):
        tok = self.eat()
        if tok == "(":
            # C cast "(double)(e)" / "(double)x"
            if self.peek() == "double" and self.t[self.i + 1:self.i + 2] == [")"]:
                self.eat(); self.eat(")")
                e = self.unary()
                return (self.real(e), "real")
            e = self.expr(); self.eat(")"); return e
        if tok in ("static_cast<double>", "double"):
            self.eat("("); e = self.expr(); self.eat(")")
            return (self.real(e), "real")
        if tok == "sqr":
            self.eat("("); e = self.expr(); self.eat(")")
            return (f"({e[0]} * {e[0]})", e[1])
        if tok in ("std::max", "std::min"):
            self.eat("("); a = self.expr(); self.eat(","); b = self.expr(); self.eat(")")
            return (f"(Scalar.{tok[5:]} {self.real(a)} {self.real(b)})", "real")
        if tok in FUN1:
            self.eat("("); a = self.expr(); self.eat(")")
            self.used.append("F")
            return (f"(F.{FUN1[tok]} {self.real(a)})", "real")
        if tok in FUN2:
            self.eat("("); a = self.expr(); self.eat(","); b = self.expr(); self.eat(")")
            self.used.append("F")
            return (f"(F.{FUN2[tok]} {self.real(a)} {self.real(b)})", "real")
        if re.match(r"\d+$", tok):
            return (tok, "nat")
        if re.match(r"[\d.]", tok):
            q = Fraction(tok)      # exact value of the decimal literal; `Scalar.ofRat` at Float = num/den, correctly rounded
            return (f"(Scalar.ofRat ({q.numerator}/{q.denominator}) : α)", "real")
        if tok in self.env:
            name, ty = self.env[tok]
            self.used.append(name)
            return (name, ty)
        raise TError(f"unknown identifier {tok!r} in {self.src!r}")


def translate(cexpr, env):
    cexpr = re.sub(r"\s+", " ", cexpr).strip()
    p = Parser(tokenize(cexpr), env, cexpr)
    e = p.expr()
    if p.peek() is not None:
        raise TError(f"trailing tokens {p.t[p.i:]} in {cexpr!r}")
    return e, p.used


# ---------------------------------------------------------------- what to extract
NAT = lambda n: (n, "nat")
REAL = lambda n: (n, "real")
N_ALIASES = {"m_numberOfVariables": NAT("n"), "searchSpaceDimension": NAT("n")}

SPEC = [
    dict(cls="cma", file="src/Algorithms/DirectSearch/CMA.cpp", start=r"void\s+CMA::doInit\s*\(",
         env={**N_ALIASES, "mu": NAT("mu"), "m_mu": NAT("mu"), "i": NAT("i"), "sumSqW": REAL("sumSqW")},
         weights="switch",
         require=[r"m_weights\s*/=\s*sum\s*\(\s*m_weights\s*\)", r"m_counter\s*=\s*0"],
         formulas=[("muEff", "m_muEff"), ("cSigma", "m_cSigma"), ("dSigma", "m_dSigma"), ("cC", "m_cC"), ("c1", "m_c1"),
                   ("alphaMu", "alphaMu"), ("rankMuAlpha", "rankMuAlpha"), ("cMu", "m_cMu")]),
    dict(cls="cmsa", file="src/Algorithms/DirectSearch/CMSA.cpp", start=r"void\s+CMSA::doInit\s*\(",
         env={**N_ALIASES, "m_mu": NAT("mu")}, weights=None, require=[],
         formulas=[("cSigma", "m_cSigma"), ("cC", "m_cC")]),
    dict(cls="vdcma", file="include/shark/Algorithms/DirectSearch/VDCMA.h",
         start=r"void\s+init\s*\(\s*ObjectiveFunctionType\s+const\s*&\s*function\s*,\s*SearchPointType\s+const\s*&\s*initialSearchPoint\s*,",
         env={**N_ALIASES, "mu": NAT("mu"), "m_mu": NAT("mu"), "i": NAT("i"), "sumSqW": REAL("sumSqW")},
         weights="single",
         require=[r"m_weights\s*/=\s*sum\s*\(\s*m_weights\s*\)", r"m_counter\s*=\s*0"],
         formulas=[("muEff", "m_muEff"), ("cSigma", "m_cSigma"), ("dSigma", "m_dSigma"), ("cC", "m_cC"),
                   ("correction", "correction"), ("c1", "m_c1"), ("cMu", "m_cMu")]),
    dict(cls="ecma", file="include/shark/Algorithms/DirectSearch/CMA/Chromosome.h",
         start=r"CMAChromosome\s*\(\s*std::size_t\s+searchSpaceDimension",
         env={**N_ALIASES}, weights=None, require=[],
         formulas=[("pTarget", "m_targetSuccessProbability"), ("dStep", "m_stepSizeDampingFactor"), ("cP", "m_stepSizeLearningRate"),
                   ("cPath", "m_evolutionPathLearningRate"), ("cCov", "m_covarianceMatrixLearningRate"),
                   ("cUnlearn", "m_covarianceMatrixUnlearningRate")]),
    dict(cls="lmcma", file="include/shark/Algorithms/DirectSearch/LMCMA.h",
         start=r"void\s+init\s*\(\s*ObjectiveFunctionType\s+const\s*&\s*function\s*,\s*SearchPointType\s+const\s*&\s*initialSearchPoint\s*,",
         env={**N_ALIASES, "m_lambda": NAT("lambda")}, weights=None, require=[],
         formulas=[("c1", "c1"), ("cC", "m_cC")]),
]


def statements(body):
    return [re.sub(r"\s+", " ", s).strip() for s in body.split(";")]


def find_assign(stmts, lhs):
    hits = []
    for k, s in enumerate(stmts):
        m = re.match(r"(?:(?:const\s+)?double\s+)?" + re.escape(lhs) + r"\s*=\s*([^=].*)$", s)
        if m:
            hits.append((k, m.group(1)))
    if len(hits) != 1:
        raise TError(f"expected exactly one assignment to {lhs}, found {len(hits)}")
    return hits[0]


def gen_class(spec, repo, out):
    cls = spec["cls"]
    src = strip_comments(open(os.path.join(repo, spec["file"]), errors="replace").read())
    m = re.search(spec["start"], src)
    if not m:
        raise TError(f"{cls}: initialisation routine not found in {spec['file']}")
    body = body_after(src, m.end())
    body = re.sub(r"sum\s*\(\s*sqr\s*\(\s*m_weights\s*\)\s*\)", "sumSqW", body)
    for r in spec["require"]:
        if not re.search(r, body):
            raise TError(f"{cls}: required statement /{r}/ is missing from the initialisation routine")
    stmts = statements(body)
    out.append(f"/-! ## `{spec['file']}` -/")
    out.append("")
    nform = 0
    # recombination weights
    if spec["weights"]:
        label, found = None, []
        for s in stmts:
            mc = re.search(r"case\s+(\w+)\s*:", s)
            if mc: label = mc.group(1)
            mw = re.search(r"m_weights\s*\(\s*i\s*\)\s*=\s*(.*)$", s)
            if mw:
                found.append((label if spec["weights"] == "switch" else None, mw.group(1)))
        if not found:
            raise TError(f"{cls}: no recombination-weight formula found")
        if spec["weights"] == "switch":
            hdr = strip_comments(open(os.path.join(repo, "include/shark/Algorithms/DirectSearch/CMA.h"), errors="replace").read())
            me = re.search(r"enum\s+RecombinationType\s*\{([^}]*)\}", hdr)
            if not me:
                raise TError("cma: enum RecombinationType not found")
            enum = []
            for k, item in enumerate(x.strip() for x in me.group(1).split(",") if x.strip()):
                mm = re.match(r"(\w+)\s*(?:=\s*(\d+))?$", item)
                if not mm or (mm.group(2) is not None and int(mm.group(2)) != k):
                    raise TError(f"cma: unexpected enumerator {item!r}")
                enum.append(mm.group(1))
            bylabel = dict(found)
            if sorted(bylabel) != sorted(enum) or len(found) != len(enum):
                raise TError(f"cma: weight cases {sorted(bylabel)} do not match enum {enum}")
            for lab in enum:
                (e, ty), used = translate(bylabel[lab], spec["env"])
                out.append(f"/-- `case {lab}: m_weights(i) = {bylabel[lab]}` -/")
                out.append(f"def {cls}_w_{lab.lower()} (F : Fns α) (mu i : Nat) : α := {Parser.real((e, ty))}")
                nform += 1
            out.append(f"def {cls}_recombinationTypes : List String := [{', '.join(chr(34) + l + chr(34) for l in enum)}]")
            out.append("/-- un-normalised weight of rank `i` for the recombination type with enumerator value `recomb` -/")
            out.append(f"def {cls}_rawWeight (F : Fns α) (recomb mu i : Nat) : α :=")
            out.append("  match recomb with")
            for k, lab in enumerate(enum):
                pat = str(k) if k + 1 < len(enum) else "_"
                out.append(f"  | {pat} => {cls}_w_{lab.lower()} F mu i")
        else:
            if len(found) != 1:
                raise TError(f"{cls}: expected one weight formula, found {len(found)}")
            (e, ty), used = translate(found[0][1], spec["env"])
            out.append(f"/-- `m_weights(i) = {found[0][1]}` -/")
            out.append(f"def {cls}_rawWeight (F : Fns α) (mu i : Nat) : α := {Parser.real((e, ty))}")
            nform += 1
        out.append("")
    # scalar formulas, in source order
    env = dict(spec["env"])
    defs, last = [], -1
    natparams = ["n", "mu", "lambda", "i"]
    for lean, lhs in spec["formulas"]:
        k, rhs = find_assign(stmts, lhs)
        if k < last:
            raise TError(f"{cls}: {lhs} is assigned before a quantity it follows in the model ({spec['formulas']})")
        last = k
        (e, ty), used = translate(rhs, env)
        params = [u for u in dict.fromkeys(used) if u != "F"]
        nat = [p for p in natparams if p in params]
        real = [p for p in params if p not in natparams]
        sig = "(F : Fns α)" + (f" ({' '.join(nat)} : Nat)" if nat else "") + (f" ({' '.join(real)} : α)" if real else "")
        out.append(f"/-- `{lhs} = {rhs}` -/")
        out.append(f"def {cls}_{lean} {sig} : α := {Parser.real((e, ty))}")
        defs.append((lean, nat, real))
        env[lhs] = REAL(lean)
        nform += 1
    out.append("")
    fields = [d[0] for d in defs]
    sname = cls.upper() + "Consts"
    out.append(f"structure {sname} (α : Type) where")
    for f in fields:
        out.append(f"  {f} : α")
    free_nat = [p for p in natparams if any(p in d[1] for d in defs)]
    free_real = [p for p in dict.fromkeys(x for d in defs for x in d[2]) if p not in fields]
    sig = "(F : Fns α)" + (f" ({' '.join(free_nat)} : Nat)" if free_nat else "") + (f" ({' '.join(free_real)} : α)" if free_real else "")
    out.append(f"/-- all strategy constants, computed in the order of the C++ statements -/")
    out.append(f"def {cls}_consts {sig} : {sname} α :=")
    for lean, nat, real in defs:
        out.append(f"  let {lean} : α := {cls}_{lean} F {' '.join(nat + real)}".rstrip())
    out.append("  { " + ", ".join(f"{f} := {f}" for f in fields) + " }")
    out.append("")
    return nform


def extra_nat(repo, out):
    """integer defaults: CMA::suggestMu, CMSA::init's default population sizes"""
    src = strip_comments(open(os.path.join(repo, "src/Algorithms/DirectSearch/CMA.cpp"), errors="replace").read())
    m = re.search(r"CMA::suggestMu\s*\(", src)
    if not m:
        raise TError("CMA::suggestMu not found")
    body = body_after(src, m.end())
    cases = re.findall(r"case\s+(\w+)\s*:\s*return\s+([^;]+);", body)
    if len(cases) != 3:
        raise TError(f"CMA::suggestMu: expected 3 cases, got {cases}")
    hdr = strip_comments(open(os.path.join(repo, "include/shark/Algorithms/DirectSearch/CMA.h"), errors="replace").read())
    enum = [x.strip().split("=")[0].strip() for x in re.search(r"enum\s+RecombinationType\s*\{([^}]*)\}", hdr).group(1).split(",") if x.strip()]
    by = dict(cases)
    out.append("/-! ## integer defaults -/")
    out.append("")
    out.append("/-- `CMA::suggestMu` -/")
    out.append("def cma_suggestMu (lambda recomb : Nat) : Nat :=")
    out.append("  match recomb with")
    for k, lab in enumerate(enum):
        (e, ty), _ = translate(by[lab], {"lambda": NAT("lambda")})
        if ty != "nat": raise TError("suggestMu is not integer arithmetic")
        out.append(f"  | {k if k + 1 < len(enum) else '_'} => {e}")
    src = strip_comments(open(os.path.join(repo, "src/Algorithms/DirectSearch/CMSA.cpp"), errors="replace").read())
    ml = re.search(r"std::size_t\s+lambda\s*=\s*m_userSetLambda\s*\?\s*m_lambda\s*:\s*([^;]+);", src)
    mm = re.search(r"std::size_t\s+mu\s*=\s*m_userSetMu\s*\?\s*m_mu\s*:\s*([^;]+);", src)
    if not ml or not mm:
        raise TError("CMSA::init default population sizes not found")
    (el, tl), _ = translate(ml.group(1).replace("p.size()", "n"), {"n": NAT("n")})
    (em, tm), _ = translate(mm.group(1), {"lambda": NAT("lambda")})
    if tl != "nat" or tm != "nat": raise TError("CMSA defaults are not integer arithmetic")
    out.append(f"/-- `CMSA::init`: default lambda = `{ml.group(1).strip()}` -/")
    out.append(f"def cmsa_defaultLambda (n : Nat) : Nat := {el}")
    out.append(f"/-- `CMSA::init`: default mu = `{mm.group(1).strip()}` -/")
    out.append(f"def cmsa_defaultMu (lambda : Nat) : Nat := {em}")
    out.append("")
    return 3


def main():
    ap = argparse.ArgumentParser(); ap.add_argument("--repo", default="/repo")
    a = ap.parse_args()
    out = ["/-", "GENERATED by translate/cma_params.py from the C++ source — do not edit.",
           "Strategy-parameter formulas of the evolution strategies (property C11), polymorphic in the scalar type.", "-/",
           "import SharkVerif.Model.CMAFns", "namespace SharkVerif.Gen.CMAParams",
           "open SharkVerif.Opt SharkVerif.Opt.CMA", "set_option linter.unusedVariables false", "", "variable {α : Type} [Scalar α]", ""]
    n = 0
    try:
        for spec in SPEC:
            n += gen_class(spec, a.repo, out)
        n += extra_nat(a.repo, out)
    except TError as e:
        print(f"cma_params: {e}", file=sys.stderr)
        sys.exit(1)
    out.append("end SharkVerif.Gen.CMAParams")
    dst = os.path.join(V, "lean", "SharkVerif", "Gen", "CMAParams.lean")
    txt = "\n".join(out) + "\n"
    if not os.path.exists(dst) or open(dst).read() != txt:
        open(dst, "w").write(txt)
    print(f"cma_params: {n} formulas of {len(SPEC)} classes regenerated")


if __name__ == "__main__":
    main()
