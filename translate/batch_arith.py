#!/usr/bin/env python3
"""T0 (batch arithmetic): detail::optimalBatchSizes / detail::batchPartitioning
(include/shark/Data/Impl/Dataset.inl)  ->  lean/SharkVerif/Gen/BatchArith.lean

The text of the two functions is cut out of the header (signature .. matching
brace), put into a tiny TU (`<vector>`, `<cstddef>` only) and parsed by
`clang++-14 -Xclang -ast-dump=json`.  The JSON AST is rendered as Lean
definitions in the `Option` monad over `Nat`:

  * `size_t`            -> `Nat`
  * `std::vector<size_t>` -> `List Nat`
  * `a / b`, `a % b`    -> `cdiv a b`, `cmod a b`   (`none` when b = 0)
  * `a - b`             -> `csub a b`               (`none` when b > a: size_t wrap-around)
  * `v[i]`              -> `cget v i`               (`none` when out of range)
  * non-const reference parameters are returned as extra tuple components
  * `for (size_t i = 0; i != N; ++i)` with loop-invariant N and no return/break
    -> `List.foldlM` over `List.range N` carrying exactly the variables assigned in the body
  * `if (c) { ...; return e; }` -> `if c then .. else <rest of the function>`

Everything outside this subset makes the translator exit non-zero (a broken tie).
"""
import argparse, json, os, re, subprocess, sys, tempfile

HEADER = "include/shark/Data/Impl/Dataset.inl"
FUNCS = ["optimalBatchSizes", "batchPartitioning"]
HERE = os.path.dirname(os.path.abspath(__file__))
OUT = os.path.join(os.path.dirname(HERE), "lean", "SharkVerif", "Gen", "BatchArith.lean")


class Unsupported(Exception):
    pass


def die(msg):
    print("batch_arith.py: " + msg, file=sys.stderr)
    sys.exit(2)


def extract(src, name):
    """text of `inline <ret> name(...) {...}` by brace matching"""
    ms = list(re.finditer(r"\binline\s+[\w:<>\s]+?\b" + re.escape(name) + r"\s*\(", src))
    if len(ms) != 1:
        die(f"expected exactly one definition of {name} in {HEADER}, found {len(ms)}")
    m = ms[0]
    i = src.find("{", m.end())
    if i < 0 or ";" in src[m.end():i]:
        die(f"{name}: no function body")
    d, j = 0, i
    while j < len(src):
        c = src[j]
        if c == "{": d += 1
        elif c == "}":
            d -= 1
            if d == 0:
                return src[m.start():j + 1]
        j += 1
    die(f"{name}: unbalanced braces")


# ------------------------------------------------------------------ types
def norm_type(q):
    q = q.replace("unsigned long", "std::size_t").replace("std::vector::size_type", "std::size_t")
    q = re.sub(r"\bsize_t\b", "std::size_t", q).replace("std::std::", "std::")
    q = q.replace(" ", "")
    return q

SCALAR = {"std::size_t"}
VEC = {"std::vector<std::size_t>"}


def classify_type(q):
    """-> ('nat'|'list', is_ref, is_const)"""
    n = norm_type(q)
    const = n.startswith("const")
    if const: n = n[len("const"):]
    ref = n.endswith("&")
    if ref: n = n[:-1]
    if n in SCALAR: return "nat", ref, const
    if n in VEC: return "list", ref, const
    raise Unsupported(f"type `{q}`")


TRANSPARENT = {"ImplicitCastExpr", "ParenExpr", "ExprWithCleanups", "CXXBindTemporaryExpr",
               "MaterializeTemporaryExpr", "CXXFunctionalCastExpr"}


def strip(n):
    while n.get("kind") in TRANSPARENT:
        inner = [c for c in n.get("inner", [])]
        if len(inner) != 1:
            raise Unsupported(f"{n.get('kind')} with {len(inner)} children")
        n = inner[0]
    # copy construction of a vector from one argument is transparent
    if n.get("kind") == "CXXConstructExpr" and len(n.get("inner", [])) == 1 and \
            norm_type(n["type"]["qualType"]) in VEC:
        return strip(n["inner"][0])
    return n


class Fn:
    """translation of one function"""

    def __init__(self, decl, known):
        self.known = known           # name -> (param kinds, returns description) of already translated functions
        self.name = decl["name"]
        self.tmp = 0
        self.vars = {}               # C++ variable name -> 'nat' | 'list'
        self.params, self.refout = [], []
        body = None
        for c in decl.get("inner", []):
            k = c.get("kind")
            if k == "ParmVarDecl":
                kind, ref, const = classify_type(c["type"]["qualType"])
                self.vars[c["name"]] = kind
                self.params.append((c["name"], kind))
                if ref and not const:
                    self.refout.append(c["name"])
            elif k == "CompoundStmt":
                body = c
            elif k and k.endswith("Comment"):
                pass
            else:
                raise Unsupported(f"{self.name}: declaration child {k}")
        if body is None:
            raise Unsupported(f"{self.name}: no body")
        rq = decl["type"]["qualType"].split("(")[0].strip()
        self.retkind = classify_type(rq)[0]
        self.body = body

    # -------------------------------------------------------------- expressions
    def fresh(self):
        self.tmp += 1
        return f"t{self.tmp}"

    def expr(self, n, pre):
        """returns a pure Lean term; partial sub-operations are bound in `pre` (list of lines)"""
        n = strip(n)
        k = n.get("kind")
        if k == "IntegerLiteral":
            return str(int(n["value"]))
        if k == "DeclRefExpr":
            name = n["referencedDecl"]["name"]
            if name not in self.vars:
                raise Unsupported(f"reference to unknown variable `{name}`")
            return name
        if k == "BinaryOperator":
            op = n["opcode"]
            a, b = n["inner"]
            if op in ("&&", "||"):
                pa, pb = [], []
                ta, tb = self.expr(a, pa), self.expr(b, pb)
                if pb:
                    raise Unsupported("partial operation on the right of && / ||")
                pre += pa
                return f"({ta} {'∧' if op == '&&' else '∨'} {tb})"
            ta, tb = self.expr(a, pre), self.expr(b, pre)
            if op in ("+", "*"):
                return f"({ta} {op} {tb})"
            if op in ("/", "%", "-"):
                t = self.fresh()
                f = {"/": "cdiv", "%": "cmod", "-": "csub"}[op]
                pre.append(f"let {t} ← {f} {ta} {tb}")
                return t
            if op in ("<", ">", "<=", ">=", "==", "!="):
                lop = {"<": "<", ">": ">", "<=": "≤", ">=": "≥", "==": "=", "!=": "≠"}[op]
                return f"({ta} {lop} {tb})"
            raise Unsupported(f"binary operator `{op}`")
        if k == "ConditionalOperator":
            c, a, b = n["inner"]
            tc = self.expr(c, pre)
            pa, pb = [], []
            ta, tb = self.expr(a, pa), self.expr(b, pb)
            if not pa and not pb:
                return f"(if {tc} then {ta} else {tb})"
            t = self.fresh()
            pre.append(f"let {t} ← (if {tc} then (do")
            pre += ["    " + l for l in pa] + [f"    pure {ta})", "  else (do"]
            pre += ["    " + l for l in pb] + [f"    pure {tb}))"]
            return t
        if k == "CXXMemberCallExpr":
            callee = n["inner"][0]
            if callee.get("kind") != "MemberExpr":
                raise Unsupported("member call through non-MemberExpr")
            obj = self.expr(callee["inner"][0], pre)
            if callee["name"] == "size" and len(n["inner"]) == 1:
                return f"{obj}.length"
            raise Unsupported(f"member call `{callee['name']}` in expression")
        if k == "CXXOperatorCallExpr":
            fn = strip(n["inner"][0])
            if fn.get("referencedDecl", {}).get("name") == "operator[]" and len(n["inner"]) == 3:
                v = self.expr(n["inner"][1], pre)
                i = self.expr(n["inner"][2], pre)
                t = self.fresh()
                pre.append(f"let {t} ← cget {v} {i}")
                return t
            raise Unsupported("operator call " + str(fn.get("referencedDecl", {}).get("name")))
        if k == "CallExpr":
            fn = strip(n["inner"][0])
            name = fn.get("referencedDecl", {}).get("name")
            if name not in self.known:
                raise Unsupported(f"call of untranslated function `{name}`")
            if self.known[name]["refout"]:
                raise Unsupported(f"call of `{name}` with reference results inside an expression")
            args = [self.expr(a, pre) for a in n["inner"][1:]]
            t = self.fresh()
            pre.append(f"let {t} ← {name} " + " ".join(args))
            return t
        if k == "CXXConstructExpr" and not n.get("inner") and norm_type(n["type"]["qualType"]) in VEC:
            return "([] : List Nat)"
        raise Unsupported(f"expression node {k}")

    # --------------------------------------------------------------- statements
    def assigned(self, stmts):
        """C++ variables (declared outside) that a statement list assigns, in first-assignment order"""
        out, local = [], set()

        def add(v):
            if v not in local and v not in out:
                out.append(v)

        def walk(s):
            s2 = strip(s) if s.get("kind") in TRANSPARENT else s
            k = s2.get("kind")
            if k == "CompoundStmt":
                for c in s2.get("inner", []): walk(c)
            elif k == "DeclStmt":
                for d in s2["inner"]:
                    local.add(d["name"])
            elif k == "UnaryOperator" and s2["opcode"] in ("++", "--"):
                add(strip(s2["inner"][0])["referencedDecl"]["name"])
            elif k in ("CompoundAssignOperator", "BinaryOperator") and (k == "CompoundAssignOperator" or s2["opcode"] == "="):
                add(strip(s2["inner"][0])["referencedDecl"]["name"])
            elif k == "CXXMemberCallExpr":
                callee = s2["inner"][0]
                if callee.get("name") in ("push_back", "insert", "clear"):
                    add(strip(callee["inner"][0])["referencedDecl"]["name"])
            elif k == "IfStmt":
                for c in s2["inner"][1:]: walk(c)
            elif k == "ForStmt":
                walk(s2["inner"][4])
            elif k == "ReturnStmt":
                pass
            else:
                raise Unsupported(f"statement node {k}")
        for s in stmts: walk(s)
        return out

    @staticmethod
    def has_return(s):
        if s.get("kind") == "ReturnStmt": return True
        return any(Fn.has_return(c) for c in s.get("inner", []) if isinstance(c, dict))

    @staticmethod
    def stmts_of(s):
        return s.get("inner", []) if s.get("kind") == "CompoundStmt" else [s]

    def tup(self, vs):
        return vs[0] if len(vs) == 1 else "(" + ", ".join(vs) + ")"

    def simple(self, s, out):
        """a statement without control flow -> lines appended to out; returns False if not simple"""
        k = s.get("kind")
        if k in TRANSPARENT:
            return self.simple(strip(s), out)
        if k == "DeclStmt":
            for d in s["inner"]:
                if d.get("kind") != "VarDecl":
                    raise Unsupported("declaration " + str(d.get("kind")))
                kind = classify_type(d["type"]["qualType"])[0]
                if not d.get("inner"):
                    raise Unsupported(f"uninitialised local `{d['name']}`")
                t = self.expr(d["inner"][0], out)
                self.vars[d["name"]] = kind
                out.append(f"let {d['name']} : {'Nat' if kind == 'nat' else 'List Nat'} := {t}")
            return True
        if k == "UnaryOperator" and s["opcode"] in ("++", "--"):
            v = self.expr(s["inner"][0], out)
            if s["opcode"] == "++":
                out.append(f"let {v} := {v} + 1")
            else:
                out.append(f"let {v} ← csub {v} 1")
            return True
        if k == "CompoundAssignOperator":
            v = self.expr(s["inner"][0], out)
            e = self.expr(s["inner"][1], out)
            op = s["opcode"]
            if op == "+=": out.append(f"let {v} := {v} + {e}")
            elif op == "*=": out.append(f"let {v} := {v} * {e}")
            elif op == "-=": out.append(f"let {v} ← csub {v} {e}")
            elif op == "/=": out.append(f"let {v} ← cdiv {v} {e}")
            else: raise Unsupported(f"compound assignment {op}")
            return True
        if k == "BinaryOperator" and s["opcode"] == "=":
            v = self.expr(s["inner"][0], out)
            e = self.expr(s["inner"][1], out)
            out.append(f"let {v} := {e}")
            return True
        if k == "CXXMemberCallExpr":
            callee = s["inner"][0]
            name = callee.get("name")
            obj = self.expr(callee["inner"][0], out)
            if self.vars.get(obj) != "list":
                raise Unsupported(f"member call on `{obj}`")
            if name == "push_back" and len(s["inner"]) == 2:
                e = self.expr(s["inner"][1], out)
                out.append(f"let {obj} := {obj} ++ [{e}]")
                return True
            if name == "insert" and len(s["inner"]) == 4:
                def member_of(x, want):
                    x = strip(x)
                    while x.get("kind") == "CXXConstructExpr" and len(x.get("inner", [])) == 1:
                        x = strip(x["inner"][0])
                    if x.get("kind") != "CXXMemberCallExpr" or x["inner"][0].get("name") != want:
                        raise Unsupported(f"insert(): expected .{want}()")
                    return self.expr(x["inner"][0]["inner"][0], out)
                pos = member_of(s["inner"][1], "end")
                a = member_of(s["inner"][2], "begin")
                b = member_of(s["inner"][3], "end")
                if pos != obj or a != b:
                    raise Unsupported("insert(): only v.insert(v.end(), w.begin(), w.end())")
                out.append(f"let {obj} := {obj} ++ {a}")
                return True
            raise Unsupported(f"member call `{name}` as statement")
        return False

    def block(self, stmts, ind, tail):
        """statement list -> lines of a do-block body. `tail` = lines producing the block's value
        when control falls off the end (None: falling off is an error)."""
        out = []
        for idx, s in enumerate(stmts):
            rest = stmts[idx + 1:]
            k = s.get("kind")
            if k == "ReturnStmt":
                e = self.expr(s["inner"][0], out)
                ret = self.tup([e] + self.refout)
                out.append(f"pure {ret}")
                if rest:
                    raise Unsupported("statements after return")
                return [ind + l for l in out]
            if k == "CompoundStmt":
                raise Unsupported("nested bare block")
            if k == "IfStmt":
                parts = s["inner"]
                cond = self.expr(parts[0], out)
                then = self.stmts_of(parts[1])
                els = self.stmts_of(parts[2]) if len(parts) > 2 else []
                if len(parts) > 3:
                    raise Unsupported("if with init/condvar")
                if self.has_return(parts[1]) or (len(parts) > 2 and self.has_return(parts[2])):
                    # early return: the rest of the function becomes the continuation of both branches
                    saved = dict(self.vars)
                    cont_needed = not (then and then[-1].get("kind") == "ReturnStmt") or \
                        not (els and els[-1].get("kind") == "ReturnStmt")
                    if any(self.has_return(x) for x in then[:-1]) or any(self.has_return(x) for x in els[:-1]):
                        raise Unsupported("return nested deeper than the end of an if-branch")
                    def branch(b):
                        self.vars = dict(saved)
                        if b and b[-1].get("kind") == "ReturnStmt":
                            return self.block(b, "    ", None)
                        return self.block(b + rest, "    ", tail)
                    tl, el = branch(then), branch(els)
                    self.vars = saved
                    out.append(f"if {cond} then (do")
                    out += tl
                    out[-1] += ")"
                    out.append("else (do")
                    out += el
                    out[-1] += ")"
                    return [ind + l for l in out]
                vs = self.assigned(then + els)
                if not vs:
                    raise Unsupported("if without effect")
                saved = dict(self.vars)
                tl = self.block(then, "    ", [f"pure {self.tup(vs)}"])
                self.vars = dict(saved)
                el = self.block(els, "    ", [f"pure {self.tup(vs)}"])
                self.vars = saved
                out.append(f"let {self.tup(vs)} ← (if {cond} then (do")
                out += tl
                out[-1] += ")"
                out.append("  else (do")
                out += el
                out[-1] += "))"
                continue
            if k == "ForStmt":
                init, condvar, cond, inc, body = s["inner"]
                if condvar and condvar.get("kind"):
                    raise Unsupported("for with condition variable")
                if init.get("kind") != "DeclStmt" or len(init["inner"]) != 1:
                    raise Unsupported("for-init")
                iv = init["inner"][0]
                if classify_type(iv["type"]["qualType"])[0] != "nat" or strip(iv["inner"][0]).get("value") != "0":
                    raise Unsupported("for loop must start at size_t 0")
                i = iv["name"]
                c = strip(cond)
                if c.get("kind") != "BinaryOperator" or c["opcode"] not in ("!=", "<"):
                    raise Unsupported("for condition must be `i != N` or `i < N`")
                lhs = strip(c["inner"][0])
                if lhs.get("kind") != "DeclRefExpr" or lhs["referencedDecl"]["name"] != i:
                    raise Unsupported("for condition must test the loop variable")
                pre = []
                self.vars[i] = "nat"
                bound = self.expr(c["inner"][1], pre)
                if pre:
                    raise Unsupported("partial operation in loop bound")
                incs = strip(inc)
                if incs.get("kind") != "UnaryOperator" or incs["opcode"] != "++" or \
                        strip(incs["inner"][0])["referencedDecl"]["name"] != i:
                    raise Unsupported("for increment must be ++i / i++")
                bstm = self.stmts_of(body)
                if self.has_return(body):
                    raise Unsupported("return inside for")
                vs = self.assigned(bstm)
                if i in vs:
                    raise Unsupported("loop variable assigned in body")
                # the bound must be loop-invariant
                if re.fullmatch(r"\w+", bound) and bound in vs:
                    raise Unsupported("loop bound assigned in body")
                for w in re.findall(r"[A-Za-z_]\w*", bound):
                    if w in vs:
                        raise Unsupported("loop bound depends on a variable assigned in the body")
                if not vs:
                    raise Unsupported("for without effect")
                saved = dict(self.vars)
                bl = self.block(bstm, "    ", [f"pure {self.tup(vs)}"])
                self.vars = saved
                del self.vars[i]
                out.append(f"let {self.tup(vs)} ← (List.range {bound}).foldlM (fun {self.tup(vs)} {i} => do")
                out += bl
                out[-1] += f") {self.tup(vs)}"
                continue
            if not self.simple(s, out):
                raise Unsupported(f"statement node {k}")
        if tail is None:
            raise Unsupported("control reaches the end of a non-void function")
        out += tail
        return [ind + l for l in out]

    def render(self):
        ps = " ".join(f"({n} : {'Nat' if k == 'nat' else 'List Nat'})" for n, k in self.params)
        rt = ["Nat" if self.retkind == "nat" else "List Nat"] + ["List Nat" if self.vars[r] == "list" else "Nat" for r in self.refout]
        lines = self.block(self.stmts_of(self.body), "  ", None)
        return f"def {self.name} {ps} : Option ({' × '.join(rt)}) := do\n" + "\n".join(lines) + "\n"


def main():
    ap = argparse.ArgumentParser()
    ap.add_argument("--repo", default="/repo")
    ap.add_argument("--out", default=OUT)
    a = ap.parse_args()
    path = os.path.join(a.repo, HEADER)
    try:
        src = open(path).read()
    except OSError as e:
        die(str(e))
    texts = [extract(src, f) for f in FUNCS]
    tu = "#include <vector>\n#include <cstddef>\nnamespace shark{ namespace detail{\n" + "\n".join(texts) + "\n}}\n"
    with tempfile.TemporaryDirectory(dir="/var/tmp") as td:
        f = os.path.join(td, "batch_arith_tu.cpp")
        open(f, "w").write(tu)
        decls = {}
        for fn in FUNCS:
            p = subprocess.run(["clang++-14", "-std=gnu++17", "-fsyntax-only", "-Werror=return-type", "-Xclang", "-ast-dump=json",
                                "-Xclang", f"-ast-dump-filter={fn}", f], capture_output=True, text=True)
            if p.returncode != 0:
                die(f"clang rejected the extracted text of {fn}:\n{p.stderr[-2000:]}")
            dec, i, docs = json.JSONDecoder(), 0, []
            while i < len(p.stdout):
                while i < len(p.stdout) and p.stdout[i].isspace(): i += 1
                if i >= len(p.stdout): break
                d, i = dec.raw_decode(p.stdout, i)
                docs.append(d)
            docs = [d for d in docs if d.get("kind") == "FunctionDecl" and d.get("name") == fn]
            if len(docs) != 1:
                die(f"expected one FunctionDecl for {fn}, got {len(docs)}")
            decls[fn] = docs[0]
    known, defs = {}, []
    for fn in FUNCS:
        try:
            t = Fn(decls[fn], known)
            defs.append(t.render())
            known[fn] = {"refout": t.refout}
        except Unsupported as e:
            die(f"{fn}: unsupported C++ construct: {e}")
        except (KeyError, IndexError, ValueError) as e:
            die(f"{fn}: unexpected AST shape: {e!r}")
    out = ("/- GENERATED by translate/batch_arith.py from " + HEADER + " on every run — do not edit.\n"
           "   size_t ↦ Nat, std::vector<size_t> ↦ List Nat; `/`,`%`,`-`,`[]` are the checked operations of\n"
           "   Model/CheckedNat.lean (`none` = division by zero / size_t wrap-around / index out of range);\n"
           "   non-const reference parameters are returned after the function result. -/\n"
           "import SharkVerif.Model.CheckedNat\n"
           "namespace SharkVerif.Gen.BatchArith\nopen SharkVerif.CheckedNat\n\n" +
           "\n".join(defs) + "\nend SharkVerif.Gen.BatchArith\n")
    os.makedirs(os.path.dirname(a.out), exist_ok=True)
    old = None
    try:
        old = open(a.out).read()
    except OSError:
        pass
    if old != out:
        open(a.out, "w").write(out)
    print(f"translated {', '.join(FUNCS)} from {path} -> {os.path.relpath(a.out, os.path.dirname(HERE))}"
          f" ({'changed' if old != out else 'unchanged'})")


if __name__ == "__main__":
    main()
