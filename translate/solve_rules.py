#!/usr/bin/env python3
"""T-C02 — translate the rewrite rules of remora's solve/inverse expressions into Lean.

Input : <repo>/include/shark/LinAlg/BLAS/solve.hpp  (namespace detail: `solve_tag_transpose_helper` and the
        `matrix_{transpose,vector_prod,row,matrix_prod}_optimizer` specialisations for `matrix_matrix_solve` /
        `matrix_inverse`)
Output: lean/SharkVerif/Gen/SolveRules.lean
          * `solveTagTranspose : Tag → Tag`   what `solve_tag_transpose_helper<Tag>::transpose(tag)` returns, read off the
            return statements of the generic version and of the `triangular_tag` specialisation;
          * `rules : Rules`                   per rewrite: what is done to the tag object handed to the created node
            (`x.system_type()` unchanged, or passed through the helper) and the side of the created solve node.
        The theorems about them (`Props/C02.lean`: the state of a tag survives every rewrite; the sides are the ones the
        proved identities need) are fixed text; they fail to build when the C++ changes what they talk about.

The nesting of every rule body (which sub-optimizer is called on which operand) is modelled by hand in
`Model/SolveExpr.lean`; this translator compares each body, with the tag expression and the side replaced by
placeholders, against the fingerprint recorded below and FAILS LOUDLY (exit 1) on any difference, on a rule it does not
know, and on a helper body it cannot read.
"""
import argparse, os, re, sys

HERE = os.path.dirname(os.path.abspath(__file__))
VERIF = os.path.dirname(HERE)


class TranslateError(Exception):
    pass


def strip_comments(s):
    s = re.sub(r"/\*.*?\*/", "", s, flags=re.S)
    return re.sub(r"//[^\n]*", "", s)


def block_at(s, i):
    """s[i] == '{' -> (body, index after the closing brace)"""
    assert s[i] == "{"
    d = 0
    for j in range(i, len(s)):
        if s[j] == "{":
            d += 1
        elif s[j] == "}":
            d -= 1
            if d == 0:
                return s[i + 1:j], j + 1
    raise TranslateError("unbalanced braces")


def angle_at(s, i):
    """s[i] == '<' -> (inside, index after the matching '>')"""
    assert s[i] == "<"
    d = 0
    for j in range(i, len(s)):
        if s[j] == "<":
            d += 1
        elif s[j] == ">":
            d -= 1
            if d == 0:
                return s[i + 1:j], j + 1
    raise TranslateError("unbalanced angle brackets")


def split_top(s, sep=","):
    out, d, cur = [], 0, ""
    for ch in s:
        if ch in "<([":
            d += 1
        elif ch in ">)]":
            d -= 1
        if ch == sep and d == 0:
            out.append(cur); cur = ""
        else:
            cur += ch
    out.append(cur)
    return [x.strip() for x in out]


def nows(s):
    return re.sub(r"\s+", "", s)


# ------------------------------------------------------------------ the helper
def parse_helper(src):
    """-> (generic, tri) each one of: 'id' | 'default-transposed' ; tri additionally ('tri', flipUpper, flipUnit) or None"""
    generic, tri = None, None
    for m in re.finditer(r"template\s*<([^{};]*?)>\s*struct\s+solve_tag_transpose_helper\s*(<)?", src):
        i = m.end()
        spec = None
        if m.group(2):
            spec, i = angle_at(src, m.end() - 1)
        i = src.index("{", i)
        body, _ = block_at(src, i)
        typedefs = {}
        for t in re.finditer(r"typedef\s+(.+?)\s+(\w+)\s*;", body, flags=re.S):
            typedefs[t.group(2)] = nows(t.group(1))
        f = re.search(r"static\s+(.+?)\s+transpose\s*\(([^)]*)\)\s*\{\s*return\s+(.+?);\s*\}", body, flags=re.S)
        if not f:
            raise TranslateError("solve_tag_transpose_helper: no `static ... transpose(...){return ...;}` found")
        params, ret = f.group(2).strip(), nows(f.group(3))
        pname = None
        pm = re.match(r"^.*?(\w+)\s*$", params)
        if pm and not params.rstrip().endswith(">") and len(params.split()) > 1:
            pname = pm.group(1)
        tparams = [x.split()[-1] for x in split_top(m.group(1)) if x.strip()]
        if spec is None:
            if len(tparams) != 1:
                raise TranslateError("generic solve_tag_transpose_helper: expected one template parameter")
            T = tparams[0]
            if pname and ret == pname:
                generic = "id"
            else:
                dm = re.match(r"^(.+)\(\)$", ret)
                if not dm:
                    raise TranslateError(f"generic helper: cannot read return expression `{ret}`")
                ty = typedefs.get(dm.group(1), dm.group(1))
                if ty in (f"typename{T}::transposed_orientation", f"{T}::transposed_orientation"):
                    generic = "default-transposed"
                else:
                    raise TranslateError(f"generic helper: default-constructs unknown type `{ty}`")
        else:
            sp = nows(spec)
            sm = re.match(r"^triangular_tag<(\w+),(\w+)>$", sp)
            if not sm:
                raise TranslateError(f"unknown specialisation solve_tag_transpose_helper<{spec}>")
            U, N = sm.group(1), sm.group(2)
            if pname and ret == pname:
                tri = ("tri", False, False)
                continue
            dm = re.match(r"^(.+)\(\)$", ret)
            if not dm:
                raise TranslateError(f"triangular helper: cannot read return expression `{ret}`")
            ty = typedefs.get(dm.group(1), dm.group(1))
            tm = re.match(r"^triangular_tag<(!?)(\w+),(!?)(\w+)>$", ty)
            if tm and tm.group(2) == U and tm.group(4) == N:
                tri = ("tri", tm.group(1) == "!", tm.group(3) == "!")
            elif ty in (f"typenametriangular_tag<{U},{N}>::transposed_orientation", f"triangular_tag<{U},{N}>::transposed_orientation"):
                tri = ("tri", True, False)
            else:
                raise TranslateError(f"triangular helper: default-constructs unknown type `{ty}`")
    if generic is None:
        raise TranslateError("generic solve_tag_transpose_helper not found")
    return generic, tri


# ------------------------------------------------------------------ the rules
# field of `Rules`  ->  (optimizer, predicate on the normalised pattern, fingerprint of the body with <TAG>/<SIDE>)
RULES = [
    ("transSolve", "matrix_transpose_optimizer", lambda p: p.startswith("matrix_matrix_solve<"),
     "typedefmatrix_transpose_optimizer<typenameM1::const_closure_type>lhs_opt;"
     "typedefmatrix_transpose_optimizer<typenameM2::const_closure_type>rhs_opt;"
     "typedefmatrix_matrix_solve_optimizer<typenamelhs_opt::type,typenamerhs_opt::type,<TAGTYPE>,<SIDE>>opt;"
     "typedeftypenameopt::typetype;"
     "statictypecreate(matrix_matrix_solve<M1,M2,Tag,system_tag<Left>>const&m){"
     "returnopt::create(lhs_opt::create(m.lhs()),rhs_opt::create(m.rhs()),<TAG>);}"),
    ("transInv", "matrix_transpose_optimizer", lambda p: p.startswith("matrix_inverse<"),
     "typedefmatrix_transpose_optimizer<typenameM::const_closure_type>mat_opt;"
     "typedefmatrix_inverse_optimizer<typenamemat_opt::type,<TAGTYPE>>opt;"
     "typedeftypenameopt::typetype;"
     "statictypecreate(matrix_inverse<M,Tag>const&m){"
     "returnopt::create(mat_opt::create(m.matrix()),<TAG>);}"),
    ("prodInvVec", "matrix_vector_prod_optimizer", lambda p: p.startswith("matrix_inverse<"),
     "typedefmatrix_vector_solve_optimizer<M,V,<TAGTYPE>,<SIDE>>opt;"
     "typedeftypenameopt::typetype;"
     "statictypecreate(matrix_inverse<M,Tag>const&inv,typenameV::const_closure_typeconst&v){"
     "returnopt::create(inv.matrix(),v,<TAG>);}"),
    ("prodSolveLeftVec", "matrix_vector_prod_optimizer", lambda p: p.startswith("matrix_matrix_solve<") and p.endswith(",left>,V"),
     "typedefmatrix_vector_prod_optimizer<M2,V>prod_opt;"
     "typedefmatrix_vector_solve_optimizer<M1,typenameprod_opt::type,<TAGTYPE>,<SIDE>>opt;"
     "typedeftypenameopt::typetype;"
     "statictypecreate(matrix_matrix_solve<M1,M2,Tag,left>const&m,typenameV::const_closure_typeconst&v){"
     "returnopt::create(m.lhs(),prod_opt::create(m.rhs(),v),<TAG>);}"),
    ("prodSolveRightVec", "matrix_vector_prod_optimizer", lambda p: p.startswith("matrix_matrix_solve<") and p.endswith(",right>,V"),
     "typedefmatrix_vector_solve_optimizer<M1,V,<TAGTYPE>,<SIDE>>solve_opt;"
     "typedefmatrix_vector_prod_optimizer<M2,typenamesolve_opt::type>opt;"
     "typedeftypenameopt::typetype;"
     "statictypecreate(matrix_matrix_solve<M1,M2,Tag,right>const&m,typenameV::const_closure_typeconst&v){"
     "returnopt::create(m.rhs(),solve_opt::create(m.lhs(),v,<TAG>));}"),
    ("rowSolveLeft", "matrix_row_optimizer", lambda p: p.startswith("matrix_matrix_solve<") and p.endswith(",left>"),
     "typedefmatrix_transpose_optimizer<typenameM2::const_closure_type>rhs_opt;"
     "typedefunit_vector<typenameM1::value_type,typenameM1::device_type>unit;"
     "typedefmatrix_vector_solve_optimizer<M1,unit,<TAGTYPE>,<SIDE>>solve_opt;"
     "typedefmatrix_vector_prod_optimizer<typenamerhs_opt::type,typenamesolve_opt::type>opt;"
     "typedeftypenameopt::typetype;"
     "statictypecreate(matrix_matrix_solve<M1,M2,Tag,left>const&m,std::size_ti){"
     "returnopt::create(rhs_opt::create(m.rhs()),solve_opt::create(m.lhs(),unit(m.lhs().size2(),i),<TAG>));}"),
    ("rowSolveRight", "matrix_row_optimizer", lambda p: p.startswith("matrix_matrix_solve<") and p.endswith(",right>"),
     "typedefmatrix_row_optimizer<typenameM2::const_closure_type>rhs_opt;"
     "typedefmatrix_vector_solve_optimizer<M1,typenamerhs_opt::type,<TAGTYPE>,<SIDE>>opt;"
     "typedeftypenameopt::typetype;"
     "statictypecreate(matrix_matrix_solve<M1,M2,Tag,right>const&m,std::size_ti){"
     "returnopt::create(m.lhs(),rhs_opt::create(m.rhs(),i),<TAG>);}"),
    ("prodInvMat", "matrix_matrix_prod_optimizer", lambda p: p.startswith("matrix_inverse<"),
     "typedefmatrix_matrix_solve_optimizer<M1,M2,<TAGTYPE>,<SIDE>>opt;"
     "typedeftypenameopt::typetype;"
     "statictypecreate(matrix_inverse<M1,Tag>const&inv,typenameM2::const_closure_typeconst&m){"
     "returnopt::create(inv.matrix(),m,<TAG>);}"),
    ("prodMatInv", "matrix_matrix_prod_optimizer", lambda p: p.startswith("M1,matrix_inverse<"),
     "typedefmatrix_matrix_solve_optimizer<M2,M1,<TAGTYPE>,<SIDE>>opt;"
     "typedeftypenameopt::typetype;"
     "statictypecreate(typenameM1::const_closure_typeconst&m,matrix_inverse<M2,Tag>const&inv){"
     "returnopt::create(inv.matrix(),m,<TAG>);}"),
]
# rules of solve.hpp that are deliberately not modelled (reason)
NOT_MODELLED = {
    ("matrix_row_optimizer", "matrix_inverse<M,Tag>"): "row(inv(A),i): names a member `lhs()` matrix_inverse does not have (not instantiable)",
}
SIDES = {"left": "fun _ => true", "right": "fun _ => false", "system_tag<!Left>": "fun l => !l", "system_tag<Left>": "fun l => l"}
TAGTYPES = ("Tag", "typenameTag::transposed_orientation")


def parse_rules(src):
    found = {}
    for m in re.finditer(r"struct\s+(matrix_(?:transpose|vector_prod|row|matrix_prod)_optimizer)\s*<", src):
        opt = m.group(1)
        pat, j = angle_at(src, m.end() - 1)
        pat = nows(pat)
        if "matrix_matrix_solve<" not in pat and "matrix_inverse<" not in pat:
            continue
        j = src.index("{", j)
        body, _ = block_at(src, j)
        if (opt, pat) in NOT_MODELLED:
            continue
        hits = [r for r in RULES if r[1] == opt and r[2](pat)]
        if len(hits) != 1:
            raise TranslateError(f"unknown rewrite rule {opt}<{pat}> in solve.hpp: Model/SolveExpr.lean has no skeleton for it")
        name, _, _, finger = hits[0]
        if name in found:
            raise TranslateError(f"rule {name} defined twice")
        b = nows(body)
        # the tag handed on
        tags = re.findall(r"solve_tag_transpose_helper<Tag>::transpose\((\w+)\.system_type\(\)\)|(\w+)\.system_type\(\)", b)
        if len(tags) != 1:
            raise TranslateError(f"rule {name}: expected exactly one use of system_type(), found {len(tags)}")
        via_helper = bool(tags[0][0])
        b2 = re.sub(r"solve_tag_transpose_helper<Tag>::transpose\(\w+\.system_type\(\)\)|\w+\.system_type\(\)", "<TAG>", b)
        # type and side of the created solve / inverse node
        tm = re.search(r"typedefmatrix_(?:vector_solve|matrix_solve|inverse)_optimizer<(.*?)>(\w+);", b2)
        if not tm:
            raise TranslateError(f"rule {name}: no solve/inverse optimizer typedef")
        args = split_top(tm.group(1))
        is_inv = "matrix_inverse_optimizer<" in tm.group(0)
        tagtype = args[1] if is_inv else args[2]
        side = None if is_inv else args[3]
        if tagtype not in TAGTYPES:
            raise TranslateError(f"rule {name}: unknown tag type `{tagtype}`")
        if side is not None and side not in SIDES:
            raise TranslateError(f"rule {name}: unknown side `{side}`")
        new_args = list(args)
        new_args[1 if is_inv else 2] = "<TAGTYPE>"
        if side is not None:
            new_args[3] = "<SIDE>"
        b3 = b2.replace(tm.group(0), tm.group(0).replace(tm.group(1), ",".join(new_args)), 1)
        if b3 != finger:
            raise TranslateError(f"rule {name}: body differs from the modelled skeleton\n  found   : {b3}\n  expected: {finger}")
        if (tagtype != "Tag") != via_helper:
            raise TranslateError(f"rule {name}: tag type `{tagtype}` but the tag object is {'passed through the helper' if via_helper else 'passed unchanged'}")
        found[name] = dict(via_helper=via_helper, side=side)
    missing = [r[0] for r in RULES if r[0] not in found]
    if missing:
        raise TranslateError(f"rules not found in solve.hpp: {missing}")
    return found


def render(generic, tri, rules, rel):
    L = []
    L.append("/-")
    L.append("GENERATED by translate/solve_rules.py from " + rel + " -- do not edit.")
    L.append("What remora's rewrites of solve / inverse expressions do with the system tag and the side.")
    L.append("-/")
    L.append("import SharkVerif.Model.SolveExpr")
    L.append("namespace SharkVerif.Gen.SolveRules")
    L.append("open SharkVerif.LinSolve")
    L.append("")
    gen_rhs = "t" if generic == "id" else "t.transposedDefault"
    L.append("/-- `detail::solve_tag_transpose_helper<Tag>::transpose(tag)`: generic version returns "
             + ("its argument" if generic == "id" else "a default-constructed `Tag::transposed_orientation`")
             + ("; `triangular_tag` specialisation present" if tri else "; no `triangular_tag` specialisation") + " -/")
    L.append("def solveTagTranspose : Tag → Tag")
    if tri:
        _, fu, fn = tri
        L.append(f"  | .tri x => .tri ⟨{'!' if fu else ''}x.upper, {'!' if fn else ''}x.unit⟩")
    L.append(f"  | t => {gen_rhs}")
    L.append("")
    L.append("def rules : Rules where")
    for name, *_ in RULES:
        r = rules[name]
        tagfn = "solveTagTranspose" if r["via_helper"] else "fun t => t"
        side = SIDES[r["side"]] if r["side"] else "fun l => l"
        L.append(f"  {name} := ⟨{tagfn}, {side}⟩")
    L.append("")
    L.append("end SharkVerif.Gen.SolveRules")
    return "\n".join(L) + "\n"


def main():
    ap = argparse.ArgumentParser()
    ap.add_argument("--repo", default=os.environ.get("VERIF_REPO", "/repo"))
    ap.add_argument("--out", default=os.path.join(VERIF, "lean", "SharkVerif", "Gen", "SolveRules.lean"))
    a = ap.parse_args()
    rel = "include/shark/LinAlg/BLAS/solve.hpp"
    try:
        src = strip_comments(open(os.path.join(a.repo, rel)).read())
        generic, tri = parse_helper(src)
        rules = parse_rules(src)
        text = render(generic, tri, rules, rel)
    except (TranslateError, OSError) as e:
        print(f"solve_rules.py: {e}", file=sys.stderr)
        sys.exit(1)
    old = open(a.out).read() if os.path.exists(a.out) else None
    if old != text:
        with open(a.out, "w") as f:
            f.write(text)
    print(f"solve_rules.py: helper generic={generic} tri={tri}; {len(rules)} rules -> {os.path.relpath(a.out, VERIF)}"
          + ("" if old == text else " (changed)"))


if __name__ == "__main__":
    main()
