#!/usr/bin/env python3
"""T1 — translate the rewrite-rule table of remora into Lean lemmas.

Input : <repo>/include/shark/LinAlg/BLAS/detail/expression_optimizers.hpp
        (+ the expression class headers, to check that every accessor a rule uses exists)
Output: lean/SharkVerif/Gen/RemoraRules.lean   one `theorem rule_*` per instantiable rule:
            the right-hand side of `create` denotes the same (size, index -> R) as
            K(Ctor(...), args), every recursive `X_opt::create(..)` being a fresh variable with
            the induction hypothesis that it denotes the same as its specification;
        .cache/gen/C01/rules.json              the parsed table (used by the K-C01 generator to
            predict which proxy-of-expression combinations exist)

Fails loudly (exit 1) on anything it does not understand.  Rules it can prove to be
uninstantiable (the C++ body cannot compile for any template argument) are listed with the
reason and get no obligation.
"""
import argparse, json, os, re, sys

HERE = os.path.dirname(os.path.abspath(__file__))
VERIF = os.path.dirname(HERE)


class TranslateError(Exception):
    pass


class Uninstantiable(Exception):
    pass


# ------------------------------------------------------------------------------------------
# tables: expression classes and optimisers (Lean side).  C++ side is cross-checked below.
# sorts: V vector expr, M matrix expr, S scalar, N size_t, I unit index (Int), F1/F2 functors,
#        O orientation (Bool: true = row_major), B bool
# ------------------------------------------------------------------------------------------
CLASSES = {
    # name: (sort, lean ctor, [(accessor, sort)] in C++-constructor order, extra template flags)
    "vector_scalar_multiply": ("V", "VExp.scal", [("expression", "V"), ("scalar", "S")]),
    "scalar_vector": ("V", "VExp.const", [("size", "N"), ("scalar", "S")]),
    "unit_vector": ("V", "VExp.unit", [("size", "N"), ("index", "I"), ("scalar", "S")]),
    "vector_unary": ("V", "VExp.unary", [("expression", "V"), ("functor", "F1")]),
    "vector_addition": ("V", "VExp.add", [("lhs", "V"), ("rhs", "V")]),
    "vector_binary": ("V", "VExp.binary", [("lhs", "V"), ("rhs", "V"), ("functor", "F2")]),
    "vector_concat": ("V", "VExp.concat", [("lhs", "V"), ("rhs", "V")]),
    "matrix_vector_prod": ("V", "VExp.mvprod", [("matrix", "M"), ("vector", "V"), ("alpha", "S")]),
    "matrix_row_transform": ("V", "VExp.rowFold", [("matrix", "M"), ("f", "F2"), ("g", "F1")]),
    "matrix_scalar_multiply": ("M", "MExp.scal", [("expression", "M"), ("scalar", "S")]),
    "matrix_addition": ("M", "MExp.add", [("lhs", "M"), ("rhs", "M")]),
    "vector_repeater": ("M", "MExp.rep", [("expression", "V"), ("num_repetitions", "N"), ("@orientation", "O")]),
    "scalar_matrix": ("M", "MExp.const", [("size1", "N"), ("size2", "N"), ("scalar", "S")]),
    "matrix_unary": ("M", "MExp.unary", [("expression", "M"), ("functor", "F1")]),
    "matrix_binary": ("M", "MExp.binary", [("lhs", "M"), ("rhs", "M"), ("functor", "F2")]),
    "outer_product": ("M", "MExp.outer", [("lhs", "V"), ("rhs", "V")]),
    "matrix_matrix_prod": ("M", "MExp.mmprod", [("lhs", "M"), ("rhs", "M"), ("alpha", "S")]),
    "diagonal_matrix": ("M", "MExp.diagm", [("expression", "V")]),
    "matrix_concat": ("M", "MExp.concat", [("lhs", "M"), ("rhs", "M"), ("@right", "B")]),
    # vector sets: as_rows(M) / as_columns(M); only as argument pattern of fold_vector_set_optimizer
    "vector_set": ("W", None, [("expression", "M"), ("@orientation", "O")]),
}
# which template argument (index) carries the orientation / bool flag
TEMPLATE_FLAG = {"vector_repeater": 1, "matrix_concat": 2, "vector_set": 1}
# where each class is defined (for the accessor cross-check)
CLASS_FILES = ["detail/vector_expression_classes.hpp", "detail/matrix_expression_classes.hpp", "detail/vector_set.hpp"]

OPTIMIZERS = {
    # name: (result sort, [arg sorts of create], spec as format over the Lean args)
    "vector_range_optimizer": ("V", ["V", "N", "N"], "VExp.range {0} {1} {2}"),
    "matrix_transpose_optimizer": ("M", ["M"], "MExp.trans {0}"),
    "matrix_row_optimizer": ("V", ["M", "N"], "VExp.row {0} {1}"),
    "matrix_diagonal_optimizer": ("V", ["M"], "VExp.diag {0}"),
    "matrix_range_optimizer": ("M", ["M", "N", "N", "N", "N"], "MExp.range {0} {1} {2} {3} {4}"),
    "matrix_rows_optimizer": ("M", ["M", "N", "N"], "MExp.rows {0} {1} {2}"),
    "vector_scalar_multiply_optimizer": ("V", ["V", "S"], "VExp.scal {0} {1}"),
    "matrix_scalar_multiply_optimizer": ("M", ["M", "S"], "MExp.scal {0} {1}"),
    "matrix_vector_prod_optimizer": ("V", ["M", "V"], "VExp.mvprod {0} {1} 1"),
    "matrix_matrix_prod_optimizer": ("M", ["M", "M"], "MExp.mmprod {0} {1} 1"),
    "matrix_unary_optimizer": ("M", ["M", "F1"], "MExp.unary {0} {1}"),
    "vector_unary_optimizer": ("V", ["V", "F1"], "VExp.unary {0} {1}"),
    "fold_vector_set_optimizer": ("V", ["W", "F2", "F1"], None),
}
LEAN_TYPE = {"V": "VExp R", "M": "MExp R", "S": "R", "N": "Nat", "I": "Int", "F1": "R → R", "F2": "R → R → R",
             "O": "Bool", "B": "Bool"}
FUNCTORS = {  # device_traits<..>::template NAME<T>
    "multiply": ("F2", "(fun x y => x * y)"),
    "add": ("F2", "(fun x y => x + y)"),
    "multiply_scalar": ("F1mk", "(fun x => x * {0})"),
}
FREE_FUNCTIONS = {("inner_prod", 2): ("S", ["V", "V"], "VExp.inner {0} {1}"),
                  ("std::min", 2): ("N", ["N", "N"], "min {0} {1}"),
                  ("std::max", 2): ("N", ["N", "N"], "max {0} {1}")}


# ------------------------------------------------------------------------------------------
# lexing / small C++ expression parser
# ------------------------------------------------------------------------------------------
def strip_comments(src):
    src = re.sub(r"/\*.*?\*/", lambda m: re.sub(r"[^\n]", " ", m.group(0)), src, flags=re.S)
    return re.sub(r"//[^\n]*", "", src)


def match(src, i, open_, close):
    """index just after the bracket closing the one at src[i]"""
    assert src[i] == open_, (src[i:i + 20], open_)
    depth = 0
    while i < len(src):
        c = src[i]
        if c == open_:
            depth += 1
        elif c == close:
            depth -= 1
            if depth == 0:
                return i + 1
        i += 1
    raise TranslateError("unbalanced " + open_)


def split_top(s, sep=","):
    out, depth, cur = [], 0, ""
    for c in s:
        if c in "<([{":
            depth += 1
        elif c in ">)]}":
            depth -= 1
        if c == sep and depth == 0:
            out.append(cur.strip()); cur = ""
        else:
            cur += c
    if cur.strip():
        out.append(cur.strip())
    return out


TOKEN = re.compile(r"\s*(::|==|!=|<=|>=|[A-Za-z_][A-Za-z_0-9]*|\d+|[()<>,.*+\-!;=&])")


def tokenize(s):
    out, i = [], 0
    s = s.strip()
    while i < len(s):
        m = TOKEN.match(s, i)
        if not m:
            raise TranslateError(f"cannot tokenize {s[i:i+30]!r}")
        out.append(m.group(1)); i = m.end()
    return out


class Parser:
    """expression grammar of the `create` bodies:
       expr   := term (('*'|'-'|'+'|'==') term)*
       term   := '!' term | primary postfix*
       primary:= NUMBER | '(' expr ')' | qualified-name [ '<' types '>' ] | 'typename' type
       postfix:= '(' args ')' | '.' NAME '(' args ')'"""

    def __init__(self, toks):
        self.t, self.i = toks, 0

    def peek(self, k=0):
        return self.t[self.i + k] if self.i + k < len(self.t) else None

    def eat(self, x=None):
        tok = self.peek()
        if tok is None or (x is not None and tok != x):
            raise TranslateError(f"expected {x!r}, got {tok!r} in {' '.join(self.t)}")
        self.i += 1
        return tok

    def expr(self):
        e = self.term()
        while self.peek() in ("*", "-", "+", "=="):
            op = self.eat()
            e = ("binop", op, e, self.term())
        return e

    def term(self):
        if self.peek() == "!":
            self.eat()
            return ("not", self.term())
        e = self.primary()
        while True:
            if self.peek() == "(":
                e = ("call", e, self.args())
            elif self.peek() == ".":
                self.eat(".")
                name = self.eat()
                e = ("member", e, name, self.args())
            else:
                return e

    def args(self):
        self.eat("(")
        out = []
        if self.peek() != ")":
            out.append(self.expr())
            while self.peek() == ",":
                self.eat(",")
                out.append(self.expr())
        self.eat(")")
        return out

    def primary(self):
        tok = self.peek()
        if tok is None:
            raise TranslateError("unexpected end of expression")
        if tok.isdigit():
            return ("num", int(self.eat()))
        if tok == "(":
            self.eat("(")
            e = self.expr()
            self.eat(")")
            return e
        if tok == "typename":
            self.eat()
        name = self.eat()
        if not re.match(r"[A-Za-z_]", name):
            raise TranslateError(f"unexpected token {name!r} in {' '.join(self.t)}")
        while self.peek() == "::":
            self.eat()
            name += "::" + self.eat()
        return ("name", name)


def parse_expr(s):
    p = Parser(tokenize(s))
    e = p.expr()
    if p.peek() is not None:
        raise TranslateError(f"trailing tokens {p.t[p.i:]} in {s!r}")
    return e


def parse_type(s):
    """C++ type expression -> ('T', head, [args], tail) where tail is '::type' etc."""
    s = s.strip()
    s = re.sub(r"^typename\s+", "", s)
    s = re.sub(r"\s+const$", "", s)
    m = re.match(r"([A-Za-z_][\w:]*?)\s*<", s)
    if not m:
        return ("T", re.sub(r"\s+", "", s), [], "")
    j = match(s, m.end() - 1, "<", ">")
    args = [parse_type(a) for a in split_top(s[m.end():j - 1])]
    tail = re.sub(r"\s+", "", s[j:])
    head = m.group(1)
    if tail.startswith("::template") or head.startswith("device_traits"):
        # device_traits<...>::template multiply<value_type>
        mm = re.match(r"::template(\w+)<", tail)
        if mm:
            return ("T", "functor:" + mm.group(1), [], "")
    return ("T", head, args, tail)


# ------------------------------------------------------------------------------------------
# source → rule records
# ------------------------------------------------------------------------------------------
def class_accessors(repo):
    """accessor names (nullary const member functions) per expression class, from the headers"""
    acc = {}
    for f in CLASS_FILES:
        src = strip_comments(open(os.path.join(repo, "include/shark/LinAlg/BLAS", f)).read())
        for m in re.finditer(r"\b(?:class|struct)\s+(\w+)\s*:\s*public", src):
            name = m.group(1)
            b = src.find("{", m.end())
            e = match(src, b, "{", "}")
            body = src[b:e]
            acc[name] = set(re.findall(r"\b(\w+)\s*\(\s*\)\s*const\s*\{", body))
    return acc


def parse_rules(repo):
    path = os.path.join(repo, "include/shark/LinAlg/BLAS/detail/expression_optimizers.hpp")
    raw = open(path).read()
    src = strip_comments(raw)
    rules = []
    for m in re.finditer(r"template\s*<([^{};]*?)>\s*struct\s+(\w+_optimizer)\s*(<|\{|;)", src):
        tparams, name, nxt = m.group(1), m.group(2), m.group(3)
        if nxt == ";":
            continue                      # forward declaration
        line = src.count("\n", 0, m.start()) + 1
        if nxt == "<":
            a = m.end() - 1
            b = match(src, a, "<", ">")
            pattern = [parse_type(x) for x in split_top(src[a + 1:b - 1])]
            k = src.index("{", b)
            if src[b:k].strip():
                raise TranslateError(f"line {line}: unexpected text before body: {src[b:k]!r}")
        else:
            pattern = None                # primary template = default rule
            k = m.end() - 1
        e = match(src, k, "{", "}")
        body = src[k + 1:e - 1]
        rules.append(dict(opt=name, line=line, tparams=[p.strip() for p in split_top(tparams)],
                          pattern=pattern, body=body))
    if name not in OPTIMIZERS:
        pass
    return rules


def parse_body(rule):
    body = rule["body"]
    body = re.sub(r"\b(private|public)\s*:", "", body)
    typedefs = {}
    # create function
    m = re.search(r"static\s+(type(?:\s+const\s*&)?)\s+create\s*\(", body)
    if not m:
        raise TranslateError(f"line {rule['line']}: no create() in {rule['opt']}")
    pa = m.end() - 1
    pb = match(body, pa, "(", ")")
    params = []
    for p in split_top(body[pa + 1:pb - 1]):
        p = p.strip()
        mm = re.match(r"(.*?)(?:\s+|&\s*)(\w+)$", p)
        if mm and not p.endswith(">") and mm.group(2) not in ("t", "const"):
            params.append((mm.group(1).strip().rstrip("&").strip(), mm.group(2)))
        else:
            params.append((p.rstrip("&").strip(), None))   # unnamed parameter
    ba = body.index("{", pb)
    be = match(body, ba, "{", "}")
    code = body[ba + 1:be - 1]
    head = body[:m.start()] + body[be:]
    for t in re.finditer(r"typedef\s+(.*?)\s+(\w+)\s*;", head, flags=re.S):
        typedefs[t.group(2)] = parse_type(re.sub(r"\s+", " ", t.group(1)))
    rest = re.sub(r"typedef\s+.*?;", "", head, flags=re.S).strip()
    if rest:
        raise TranslateError(f"line {rule['line']}: unrecognised member text {rest[:80]!r}")
    stmts = []
    for st in [s.strip() for s in code.split(";") if s.strip()]:
        st = re.sub(r"\s+", " ", st)
        if st.startswith("return "):
            stmts.append(("return", parse_expr(st[7:])))
        elif st.startswith("REMORA_RANGE_CHECK") or st.startswith("REMORA_SIZE_CHECK"):
            stmts.append(("check", parse_expr(st[st.index("(") + 1:st.rindex(")")])))
        else:
            mm = re.match(r"(?:auto|std::size_t)\s+(\w+)\s*=\s*(.*)$", st)
            if not mm:
                raise TranslateError(f"line {rule['line']}: statement not understood: {st!r}")
            stmts.append(("let", mm.group(1), parse_expr(mm.group(2))))
    if not stmts or stmts[-1][0] != "return":
        raise TranslateError(f"line {rule['line']}: create() does not end in return")
    rule.update(typedefs=typedefs, params=params, stmts=stmts)


# ------------------------------------------------------------------------------------------
# Lean rendering
# ------------------------------------------------------------------------------------------
class Val:
    def __init__(self, sort, lean, cls=None, obj=None):
        self.sort, self.lean, self.cls, self.obj = sort, lean, cls, obj


class RuleTranslator:
    def __init__(self, rule, accessors):
        self.r, self.acc = rule, accessors
        self.binders = []        # (name, lean type)
        self.hyps = []           # (name, statement)
        self.env = {}            # C++ identifier -> Val
        self.fresh = 0
        self.tvars = {}          # template parameter -> info (orientation Bool var, bool var)
        self.calls = []          # recursive optimiser calls (for rules.json)
        self.conversions = []    # implicit double<->size_t conversions the C++ compiler inserts

    def bind(self, name, sort):
        base = re.sub(r"\W", "_", name)
        if base in ("end", "at", "from", "fun", "open", "in", "do", "then", "else", "if", "let", "have", "show", "by", "with"):
            base += "_"
        n, k = base, 1
        while any(b[0] == n for b in self.binders):
            k += 1; n = f"{base}{k}"
        self.binders.append((n, LEAN_TYPE[sort]))
        return n

    # ---- the object matched by a pattern: fresh variables for its accessors
    def make_object(self, ty, prefix):
        """ty: parsed type pattern.  Returns Val for an object of that type."""
        _, head, targs, tail = ty
        if head in CLASSES:
            sort, ctor, fields = CLASSES[head]
            vals = {}
            for (a, s) in fields:
                if a.startswith("@"):
                    flag = targs[TEMPLATE_FLAG[head]]
                    vals[a] = self.template_flag(flag, s)
                else:
                    vals[a] = Val(s, self.bind(f"{prefix}_{a}", s))
            lean = None
            if ctor:
                lean = "(" + ctor + " " + " ".join(vals[a].lean for a, _ in fields) + ")"
            return Val(sort, lean, cls=head, obj=vals)
        raise TranslateError(f"line {self.r['line']}: pattern class {head} unknown")

    def template_flag(self, ty, sort):
        name = ty[1]
        if name == "row_major":
            return Val(sort, "true")
        if name == "column_major":
            return Val(sort, "false")
        if name in self.r["tparam_names"]:
            if name not in self.tvars:
                self.tvars[name] = self.bind(name[0].lower() + name[1:], sort)
            return Val(sort, self.tvars[name])
        raise TranslateError(f"line {self.r['line']}: template flag {ty} not understood")

    # ---- types
    def resolve(self, ty, depth=0):
        """resolve typedef names; returns parsed type"""
        _, head, args, tail = ty
        if depth > 20:
            raise TranslateError("typedef cycle")
        if head in self.r["typedefs"] and not args:
            t = self.r["typedefs"][head]
            if tail:
                t = (t[0], t[1], t[2], t[3] + tail)
            return self.resolve(t, depth + 1)
        return ty

    def optimizer_of(self, name):
        """typedef name used as `name::create` -> (optimizer name, resolved type)"""
        if name not in self.r["typedefs"]:
            raise TranslateError(f"line {self.r['line']}: {name}::create but {name} is no typedef")
        t = self.resolve(("T", name, [], ""))
        if t[1] in OPTIMIZERS:
            return t[1], t
        if t[1] in CLASSES:
            raise Uninstantiable(f"`{name}::create(..)` but `{name}` is the expression class {t[1]}, which has no static create")
        raise TranslateError(f"line {self.r['line']}: {name} resolves to {t[1]}, neither optimizer nor class")

    # ---- expressions
    def cast(self, v, sort, what):
        if v.sort == sort:
            return v
        if v.sort == "N" and sort == "I":
            return Val("I", f"(({v.lean} : Nat) : Int)")
        if v.sort == "F1mk" and sort == "F1":
            return Val("F1", v.lean)
        # implicit C++ conversions double <-> size_t (legal C++, almost certainly a slip)
        if v.sort == "S" and sort == "N":
            self.conversions.append(f"{what}: a scalar is passed where a size is expected (implicit double -> size_t)")
            if not any(b[0] == "cxxTrunc" for b in self.binders):
                self.binders.append(("cxxTrunc", "R → Nat"))
            return Val("N", f"(cxxTrunc {v.lean})")
        if v.sort == "N" and sort == "S":
            self.conversions.append(f"{what}: a size is passed where a scalar is expected (implicit size_t -> double)")
            return Val("S", f"(({v.lean} : Nat) : R)")
        raise TranslateError(f"line {self.r['line']}: {what}: expected sort {sort}, got {v.sort} ({v.lean})")

    def ev(self, e):
        k = e[0]
        if k == "num":
            return Val("N", str(e[1]))
        if k == "name":
            n = e[1]
            if n in self.env:
                return self.env[n]
            raise TranslateError(f"line {self.r['line']}: unknown identifier {n}")
        if k == "not":
            v = self.ev(e[1])
            return Val("B", f"(!{v.lean})")
        if k == "binop":
            a, b = self.ev(e[2]), self.ev(e[3])
            op = e[1]
            if op == "==":
                return Val("P", f"{a.lean} = {b.lean}")
            if a.sort == "I" or b.sort == "I":
                a, b = self.cast(a, "I", "operand"), self.cast(b, "I", "operand")
                return Val("I", f"({a.lean} {op} {b.lean})")
            if a.sort != b.sort or a.sort not in ("N", "S"):
                raise TranslateError(f"line {self.r['line']}: operator {op} on sorts {a.sort},{b.sort}")
            return Val(a.sort, f"({a.lean} {op} {b.lean})")
        if k == "member":
            o = self.ev(e[1])
            name, args = e[2], e[3]
            return self.member(o, name, [self.ev(a) for a in args])
        if k == "call":
            f, args = e[1], e[2]
            if f[0] == "name" and f[1] not in self.env:
                return self.call_name(f[1], [self.ev(a) for a in args])
            o = self.ev(f)
            argv = [self.ev(a) for a in args]
            # element access / CRTP self
            if o.sort in ("V", "M") and not argv:
                return o                                   # m() is m
            if o.sort == "V" and len(argv) == 1:
                return Val("S", f"(VExp.get {o.lean} {self.cast(argv[0], 'N', 'index').lean})")
            if o.sort == "M" and len(argv) == 2:
                return Val("S", f"(MExp.get {o.lean} {argv[0].lean} {argv[1].lean})")
            raise TranslateError(f"line {self.r['line']}: call on {o.sort} with {len(argv)} arguments")
        raise TranslateError(f"line {self.r['line']}: expression {e}")

    def member(self, o, name, args):
        if o.sort in ("V", "M", "W") and o.obj is not None and o.cls is not None:
            # accessor of the matched class
            cpp_acc = self.acc.get(o.cls)
            if cpp_acc is None:
                raise TranslateError(f"line {self.r['line']}: class {o.cls} not found in the class headers")
            generic = {"V": {"size"}, "M": {"size1", "size2"}, "W": set()}[o.sort]
            if name not in cpp_acc:
                raise Uninstantiable(f"`.{name}()` is no member of {o.cls} (has: {', '.join(sorted(cpp_acc))})")
            if name in o.obj and not args:
                return o.obj[name]
            if name in generic and not args:
                return Val("N", f"({ {'V': 'VExp', 'M': 'MExp'}[o.sort] }.{name} {o.lean})")
            raise TranslateError(f"line {self.r['line']}: accessor {o.cls}::{name} not in the Lean class table")
        if o.sort in ("V", "M") and not args:
            pre = "VExp" if o.sort == "V" else "MExp"
            ok = {"V": {"size"}, "M": {"size1", "size2"}}[o.sort]
            if name in ok:
                return Val("N", f"({pre}.{name} {o.lean})")
            raise Uninstantiable(f"`.{name}()` on a {'vector' if o.sort == 'V' else 'matrix'} expression")
        raise TranslateError(f"line {self.r['line']}: member {name} on sort {o.sort}")

    def call_name(self, n, args):
        r = self.r
        if n.endswith("::create"):
            tname = n[:-len("::create")]
            opt, ty = self.optimizer_of(tname)
            rs, asorts, spec = OPTIMIZERS[opt]
            if len(args) != len(asorts):
                raise Uninstantiable(f"`{tname}::create` = {opt}::create called with {len(args)} arguments, it takes {len(asorts)}")
            cargs = [self.cast(a, s, f"{opt}::create argument") for a, s in zip(args, asorts)]
            self.fresh += 1
            v = self.bind(f"r{self.fresh}", rs)
            rel = "≈ᵥ" if rs == "V" else "≈ₘ"
            if opt == "fold_vector_set_optimizer":
                raise TranslateError("recursive fold_vector_set call")
            self.hyps.append((f"h{self.fresh}", f"{v} {rel} {spec.format(*[a.lean for a in cargs])}"))
            self.calls.append(dict(opt=opt, args=[a.lean for a in cargs], var=v))
            return Val(rs, v)
        if n in r["typedefs"] or n == "type":
            t = self.resolve(("T", n, [], ""))
            head = t[1]
            if head.startswith("functor:"):
                fn = head[len("functor:"):]
                if fn == "compose":
                    return self.compose(t, args)
                if fn not in FUNCTORS:
                    raise TranslateError(f"line {r['line']}: functor {fn} unknown")
                s, lean = FUNCTORS[fn]
                if s == "F1mk":
                    if len(args) != 1:
                        raise TranslateError("multiply_scalar takes the scalar")
                    return Val("F1", lean.format(self.cast(args[0], "S", "scalar").lean))
                if args:
                    raise TranslateError(f"functor {fn} constructed with arguments")
                return Val(s, lean)
            if head == "device_traits" or "compose" in json.dumps(self.r["typedefs"].get(n, "")):
                pass
            if head in CLASSES:
                return self.construct(t, args)
            if head == "compose":
                return self.compose(t, args)
            raise TranslateError(f"line {r['line']}: constructor call {n} -> {head} not understood")
        if n.endswith("::value_type"):
            if len(args) == 1 and args[0].sort == "N":
                return Val("S", f"({args[0].lean} : R)")
            raise TranslateError("value_type(..) cast")
        if n.endswith("::index_m") or n.endswith("::index_M"):
            tp = n.split("::")[0]
            o = self.template_flag(("T", tp, [], ""), "O")
            a, b = args
            if n.endswith("index_M"):    # row_major: index_M(i,j) = i
                return Val(a.sort, f"(if {o.lean} then {a.lean} else {b.lean})")
            return Val(a.sort, f"(if {o.lean} then {b.lean} else {a.lean})")
        key = (n, len(args))
        if key in FREE_FUNCTIONS:
            rs, asorts, fmt = FREE_FUNCTIONS[key]
            cargs = [self.cast(a, s, n) for a, s in zip(args, asorts)]
            return Val(rs, "(" + fmt.format(*[a.lean for a in cargs]) + ")")
        if any(k[0] == n for k in FREE_FUNCTIONS) or n in ("sum", "max", "min", "norm_1"):
            raise Uninstantiable(f"`{n}` called with {len(args)} arguments; no such overload exists")
        raise TranslateError(f"line {r['line']}: call of {n} not understood")

    def compose(self, t, args):
        # device_traits<..>::template compose<F, G>(f, g) : x ↦ g(f(x)) / (x,y) ↦ g(f(x,y))
        f, g = args
        g = self.cast(g, "F1", "outer functor")
        if f.sort == "F1":
            return Val("F1", f"(fun x => {g.lean} ({f.lean} x))")
        if f.sort == "F2":
            return Val("F2", f"(fun x y => {g.lean} ({f.lean} x y))")
        raise TranslateError("compose of non-functors")

    def construct(self, t, args):
        _, head, targs, tail = t
        sort, ctor, fields = CLASSES[head]
        plain = [(a, s) for a, s in fields if not a.startswith("@")]
        if len(args) != len(plain):
            # default arguments: unit_vector value, scalar_matrix value
            raise TranslateError(f"line {self.r['line']}: {head}(..) with {len(args)} arguments, expected {len(plain)}")
        vals = []
        it = iter(args)
        for a, s in fields:
            if a.startswith("@"):
                vals.append(self.flag_of_type(targs[TEMPLATE_FLAG[head]], s))
            else:
                vals.append(self.cast(next(it), s, f"{head} constructor argument {a}"))
        return Val(sort, "(" + ctor + " " + " ".join(v.lean for v in vals) + ")", cls=None)

    def flag_of_type(self, ty, sort):
        _, head, args, tail = ty
        if head.startswith("!"):
            v = self.flag_of_type(("T", head[1:], args, tail), sort)
            return Val(sort, f"(!{v.lean})")
        if tail == "::transposed_orientation":
            v = self.flag_of_type(("T", head, args, ""), sort)
            return Val(sort, f"(!{v.lean})")
        if head.endswith("::transposed_orientation"):
            v = self.flag_of_type(("T", head[:-len("::transposed_orientation")], args, ""), sort)
            return Val(sort, f"(!{v.lean})")
        return self.template_flag(ty, sort)

    # ---- whole rule
    def translate(self):
        r = self.r
        r["tparam_names"] = [p.split()[-1] for p in r["tparams"]]
        opt = r["opt"]
        rs, asorts, spec = OPTIMIZERS[opt]
        params = r["params"]
        pattern = r["pattern"]
        lhs_args = []
        # the arguments of the specialisation pattern, in order
        if pattern is None:
            pats = [("T", p, [], "") for p in r["tparam_names"]]
        else:
            pats = pattern
        npat = {"matrix_vector_prod_optimizer": 2, "matrix_matrix_prod_optimizer": 2, "fold_vector_set_optimizer": 1}.get(opt, 1)
        # expression arguments come first in `create`
        for idx in range(len(asorts)):
            s = asorts[idx]
            if idx >= len(params):
                raise Uninstantiable(f"create takes {len(params)} parameters, the optimiser interface passes {len(asorts)}")
            pty, pname = params[idx]
            if s in ("V", "M", "W"):
                pat = pats[idx] if idx < len(pats) else None
                declared = parse_type(pty)
                if pat is not None and pat[1] in CLASSES:
                    # the parameter type must be the pattern (or `type` when that is the same class)
                    dres = self.resolve(declared) if declared[1] in r["typedefs"] or declared[1] == "type" else declared
                    if dres[1] != pat[1] or self.type_flags(dres) != self.type_flags(pat):
                        raise Uninstantiable(
                            f"create's parameter is `{pty}` but the specialisation is for `{self.show_type(pat)}`; the call from the proxy function cannot bind")
                    v = self.make_object(pat, pname or f"a{idx}")
                else:
                    v = Val(s, self.bind(pname or f"a{idx}", s))
                if pname:
                    self.env[pname] = v
                lhs_args.append(v)
            else:
                v = Val(s, self.bind(pname or f"a{idx}", s))
                if pname:
                    self.env[pname] = v
                lhs_args.append(v)
        if len(params) != len(asorts):
            raise Uninstantiable(f"create takes {len(params)} parameters, the optimiser interface passes {len(asorts)}")
        # specification (left-hand side)
        if opt == "fold_vector_set_optimizer":
            st = lhs_args[0]
            o = st.obj["@orientation"].lean
            m = st.obj["expression"].lean
            sel = m if o == "true" else f"(MExp.trans {m})" if o == "false" else f"(if {o} then {m} else MExp.trans {m})"
            lhs = f"VExp.rowFold {sel} {lhs_args[1].lean} {lhs_args[2].lean}"
        else:
            lhs = spec.format(*[a.lean for a in lhs_args])
        checks = []
        result = None
        for st in r["stmts"]:
            if st[0] == "let":
                self.env[st[1]] = self.ev(st[2])
            elif st[0] == "check":
                v = self.ev(st[1])
                checks.append(v.lean)
            else:
                result = self.ev(st[1])
        if result.sort != rs:
            raise TranslateError(f"line {r['line']}: create returns sort {result.sort}, optimiser yields {rs}")
        return dict(lhs=lhs, rhs=result.lean, sort=rs, binders=self.binders, hyps=self.hyps, checks=checks,
                    calls=self.calls, conversions=self.conversions, lhs_parts=[a.lean for a in lhs_args],
                    lhs_sorts=asorts)

    def type_flags(self, t):
        head = t[1]
        if head in TEMPLATE_FLAG and len(t[2]) > TEMPLATE_FLAG[head]:
            return t[2][TEMPLATE_FLAG[head]][1]
        return None

    def show_type(self, t):
        _, head, args, tail = t
        return head + ("<" + ",".join(self.show_type(a) for a in args) + ">" if args else "") + tail


def rule_name(rule, used):
    pat = rule["pattern"]
    if pat is None:
        base = f"rule_{rule['opt'].replace('_optimizer', '')}__default"
    else:
        parts = []
        for p in pat:
            n = p[1]
            if n in TEMPLATE_FLAG and len(p[2]) > TEMPLATE_FLAG[n] and p[2][TEMPLATE_FLAG[n]][1] in ("row_major", "column_major"):
                n += "_" + p[2][TEMPLATE_FLAG[n]][1]
            parts.append(n)
        base = f"rule_{rule['opt'].replace('_optimizer', '')}__" + "__".join(parts)
    if len(base) > 62:   # keep the audit line (`AUDIT <name> [axioms]`) on one line
        base = base.replace("matrix_scalar_multiply", "mscal").replace("vector_scalar_multiply", "vscal")
    n, k = base, 1
    while n in used:
        k += 1; n = f"{base}_{k}"
    used.add(n)
    return n


HEADER = """/-
GENERATED by translate/remora_rules.py from
  include/shark/LinAlg/BLAS/detail/expression_optimizers.hpp
on every run of `./check C01` — do not edit.  One theorem per instantiable rewrite rule:
the expression built by `create` denotes the same (size, index ↦ R) as the optimiser's
specification applied to the matched expression; every recursive `X_opt::create(..)` is a
fresh variable `rᵢ` with the induction hypothesis `hᵢ`.  All are closed by the one fixed
tactic `remora_rule` (Lemmas/Remora.lean).  Each rule also gets `rule_*_wf`: the rewritten
expression satisfies the size checks again (closed by `remora_rule_wf`), so that rules compose.
-/
import SharkVerif.Lemmas.Remora
import SharkVerif.Lemmas.RemoraOpt
namespace SharkVerif.Remora.Rules
open SharkVerif.Remora
variable {R : Type} [CommRing R]

"""


OPT_HEADER = """/-
GENERATED by translate/remora_rules.py — do not edit.
An executable optimiser `genOpt` assembled from the rule table (all rules of the proxy,
scalar-multiply and unary families, including those whose recursive calls are nested; the product
families, which match on the literal scalar 1, the primary templates and rules with run-time side
conditions are left to the per-rule lemmas), and the proof that it
is `Sound` — case by case from the generated lemmas of Gen/RemoraRules.lean.  `optimize_sound`
(Props/C01.lean) then gives: rewriting with `genOpt` to any depth preserves the denotation.
-/
import SharkVerif.Lemmas.RemoraOpt
import SharkVerif.Gen.RemoraRules
namespace SharkVerif.Remora.Rules
open SharkVerif.Remora
variable {R : Type} [CommRing R]

"""

FAMILIES = {
    # optimiser: (helper name, lean spec constructor, extra argument names)
    "vector_range_optimizer": ("rangeStep", "VExp.range", ["a1", "a2"]),
    "matrix_row_optimizer": ("rowStep", "VExp.row", ["a1"]),
    "matrix_diagonal_optimizer": ("diagStep", "VExp.diag", []),
    "vector_scalar_multiply_optimizer": ("vscalStep", "VExp.scal", ["a1"]),
    "vector_unary_optimizer": ("vunaryStep", "VExp.unary", ["a1"]),
    "matrix_transpose_optimizer": ("transStep", "MExp.trans", []),
    "matrix_range_optimizer": ("mrangeStep", "MExp.range", ["a1", "a2", "a3", "a4"]),
    "matrix_rows_optimizer": ("rowsStep", "MExp.rows", ["a1", "a2"]),
    "matrix_scalar_multiply_optimizer": ("mscalStep", "MExp.scal", ["a1"]),
    "matrix_unary_optimizer": ("munaryStep", "MExp.unary", ["a1"]),
}
TOP_PATTERN = {"VExp.range": ".range x a1 a2", "VExp.row": ".row x a1", "VExp.diag": ".diag x", "VExp.scal": ".scal x a1",
               "VExp.unary": ".unary x a1", "MExp.trans": ".trans x", "MExp.range": ".range x a1 a2 a3 a4",
               "MExp.rows": ".rows x a1 a2", "MExp.scal": ".scal x a1", "MExp.unary": ".unary x a1"}


def emit_optimizer(translated):
    fam = {}
    for t in translated:
        tr = t["tr"]
        if t["opt"] not in FAMILIES or t["default"] or tr["checks"] or tr["conversions"]:
            continue
        fam.setdefault(t["opt"], []).append(t)
    out = [OPT_HEADER]
    n = 0
    for opt, (helper, ctor, extras) in FAMILIES.items():
        rules = fam.get(opt, [])
        rs, asorts, _ = OPTIMIZERS[opt]
        xsort = LEAN_TYPE[asorts[0]]
        ets = [LEAN_TYPE[srt] for srt in asorts[1:]]
        sig = " ".join(f"({a} : {ty})" for a, ty in zip(extras, ets))
        rel = "≈ᵥ" if rs == "V" else "≈ₘ"
        arms, proofs = [], []
        for t in rules:
            tr = t["tr"]
            parts = tr["lhs_parts"]
            ren = {old: new for old, new in zip(parts[1:], extras)}

            def rn(txt, ren=ren):
                for old, new in ren.items():
                    txt = re.sub(r"(?<![A-Za-z0-9_'.])" + re.escape(old) + r"(?![A-Za-z0-9_'])", new, txt)
                return txt
            rhs = rn(tr["rhs"])
            recs, specs = {}, []

            def sub(txt):
                for var, rep in recs.items():
                    txt = re.sub(r"(?<![A-Za-z0-9_'.])" + re.escape(var) + r"(?![A-Za-z0-9_'])", lambda m, rep=rep: rep, txt)
                return txt
            for c, (hn, hs) in zip(tr["calls"], tr["hyps"]):
                spec = sub(rn(hs.split("≈", 1)[1][1:].strip()))       # earlier results may occur in later calls
                crs = OPTIMIZERS[c["opt"]][0]
                recs[c["var"]] = f"({'recV' if crs == 'V' else 'recM'} ({spec}))"
                specs.append((c["var"], crs, spec))
            rhs = sub(rhs)
            pat = parts[0]
            pat = re.sub(r"\((VExp|MExp)\.", "(.", pat) if pat.startswith("(") else pat
            arms.append(f"  | {pat[1:-1] if pat.startswith('(') else pat} => {rhs}")
            args = []
            for (bn, bt) in tr["binders"]:
                args.append(recs[bn] if bn in recs else rn(bn))
            pvars = re.findall(r"[A-Za-z_][A-Za-z0-9_']*", parts[0])
            pvars = [v for v in pvars if v not in ("VExp", "MExp", "true", "false") and not re.match(r"^(scal|const|unit|unary|add|binary|concat|mvprod|rowFold|rep|outer|mmprod|diagm|lit)$", v)]
            haves = "".join(f"\n    have ih_{var} := {'hV' if crs == 'V' else 'hM'} ({spec}) (by remora_wf)" for var, crs, spec in specs)
            eqs = " ".join(f"ih_{var}.1" for var, _, _ in specs)
            wfs = " ".join(f"ih_{var}.2" for var, _, _ in specs)
            proofs.append(f"  · next {' '.join(pvars)} =>{haves}\n    exact ⟨{t['name']} {' '.join(args)} hwf {eqs},\n      {t['name']}_wf {' '.join(args)} hwf {wfs} {eqs}⟩")
            n += 1
        spec_x = f"{ctor} x {' '.join(extras)}".strip()
        out.append(f"/-- `{opt}`: {len(rules)} rules -/\n"
                   f"def {helper} (recV : VExp R → VExp R) (recM : MExp R → MExp R) (x : {xsort}) {sig} : {LEAN_TYPE[rs]} :=\n"
                   f"  match x with\n" + "\n".join(arms) + f"\n  | x => {spec_x}\n\n")
        out.append(f"theorem {helper}_sound (recV : VExp R → VExp R) (recM : MExp R → MExp R)\n"
                   f"    (hV : ∀ e : VExp R, e.WF → recV e ≈ᵥ e ∧ (recV e).WF) (hM : ∀ m : MExp R, m.WF → recM m ≈ₘ m ∧ (recM m).WF)\n"
                   f"    (x : {xsort}) {sig} (hwf : ({spec_x}).WF) :\n"
                   f"    {helper} recV recM x {' '.join(extras)} {rel} {spec_x} ∧ ({helper} recV recM x {' '.join(extras)}).WF := by\n"
                   f"  unfold {helper}\n  split\n" + "\n".join(proofs) +
                   f"\n  · exact ⟨{'vequiv_refl' if rs == 'V' else 'mequiv_refl'} _, hwf⟩\n\n")
    # the optimiser
    varms = [f"    | {TOP_PATTERN[c]} => {h} recV recM x {' '.join(e)}".rstrip() for o, (h, c, e) in FAMILIES.items() if OPTIMIZERS[o][0] == "V"]
    marms = [f"    | {TOP_PATTERN[c]} => {h} recV recM x {' '.join(e)}".rstrip() for o, (h, c, e) in FAMILIES.items() if OPTIMIZERS[o][0] == "M"]
    out.append("/-- one layer of rewriting with the whole (covered) rule table -/\n"
               "def genStepV (recV : VExp R → VExp R) (recM : MExp R → MExp R) (e : VExp R) : VExp R :=\n  match e with\n"
               + "\n".join(a[2:] for a in varms) + "\n  | e => e\n\n"
               "def genStepM (recV : VExp R → VExp R) (recM : MExp R → MExp R) (e : MExp R) : MExp R :=\n  match e with\n"
               + "\n".join(a[2:] for a in marms) + "\n  | e => e\n\n")
    vproof = "\n".join(f"  · next x {' '.join(e)} => exact {h}_sound recV recM hV hM x {' '.join(e)} hwf".replace("  =>", " =>")
                        for o, (h, c, e) in FAMILIES.items() if OPTIMIZERS[o][0] == "V")
    mproof = "\n".join(f"  · next x {' '.join(e)} => exact {h}_sound recV recM hV hM x {' '.join(e)} hwf".replace("  =>", " =>")
                        for o, (h, c, e) in FAMILIES.items() if OPTIMIZERS[o][0] == "M")
    out.append("theorem genStepV_sound (recV : VExp R → VExp R) (recM : MExp R → MExp R)\n"
               "    (hV : ∀ e : VExp R, e.WF → recV e ≈ᵥ e ∧ (recV e).WF) (hM : ∀ m : MExp R, m.WF → recM m ≈ₘ m ∧ (recM m).WF)\n"
               "    (e : VExp R) (hwf : e.WF) : genStepV recV recM e ≈ᵥ e ∧ (genStepV recV recM e).WF := by\n  unfold genStepV\n  split\n"
               + vproof + "\n  · exact ⟨vequiv_refl _, hwf⟩\n\n")
    out.append("theorem genStepM_sound (recV : VExp R → VExp R) (recM : MExp R → MExp R)\n"
               "    (hV : ∀ e : VExp R, e.WF → recV e ≈ᵥ e ∧ (recV e).WF) (hM : ∀ m : MExp R, m.WF → recM m ≈ₘ m ∧ (recM m).WF)\n"
               "    (e : MExp R) (hwf : e.WF) : genStepM recV recM e ≈ₘ e ∧ (genStepM recV recM e).WF := by\n  unfold genStepM\n  split\n"
               + mproof + "\n  · exact ⟨mequiv_refl _, hwf⟩\n\n")
    out.append(f"/-- number of rewrite rules built into `genStepV` / `genStepM` -/\ndef genOptRuleCount : Nat := {n}\n\n")
    out.append("end SharkVerif.Remora.Rules\n")
    return "".join(out), n


def main():
    ap = argparse.ArgumentParser()
    ap.add_argument("--repo", default="/repo")
    ap.add_argument("--out", default=os.path.join(VERIF, "lean", "SharkVerif", "Gen", "RemoraRules.lean"))
    ap.add_argument("--json", default=os.path.join(VERIF, ".cache", "gen", "C01", "rules.json"))
    a = ap.parse_args()
    acc = class_accessors(a.repo)
    for c in CLASSES:
        if c not in acc:
            raise TranslateError(f"expression class {c} not found in the class headers")
        for (name, s) in CLASSES[c][2]:
            if not name.startswith("@") and name not in acc[c] and name not in ("size", "size1", "size2"):
                raise TranslateError(f"class {c}: accessor {name} of the Lean class table not found in the C++ class")
    rules = parse_rules(a.repo)
    out, table, used = [HEADER], [], set()
    translated = []
    n_ok = n_un = 0
    for r in rules:
        if r["opt"] not in OPTIMIZERS:
            raise TranslateError(f"line {r['line']}: optimiser family {r['opt']} unknown to the translator")
        parse_body(r)
        name = rule_name(r, used)
        pat = "default" if r["pattern"] is None else ", ".join(RuleTranslator(r, acc).show_type(p) for p in r["pattern"])
        try:
            tr = RuleTranslator(r, acc).translate()
        except Uninstantiable as u:
            n_un += 1
            out.append(f"-- UNINSTANTIABLE {r['opt']}<{pat}> (line {r['line']}): {u}\n\n")
            table.append(dict(name=name, opt=r["opt"], pattern=pat, line=r["line"], status="uninstantiable", reason=str(u),
                              ast=dict(tparams=r["tparam_names"], pattern=r["pattern"])))
            print(f"UNINSTANTIABLE {r['opt']}<{pat}> line {r['line']}: {u}")
            continue
        n_ok += 1
        for c in tr["conversions"]:
            print(f"WARNING {r['opt']}<{pat}> line {r['line']}: {c}")
        rel = "≈ᵥ" if tr["sort"] == "V" else "≈ₘ"
        binders = " ".join(f"({n} : {t})" for n, t in tr["binders"])
        hyps = "".join(f"\n    ({n} : {s})" for n, s in tr["hyps"])
        checks = "".join(f"\n    (hc{i+1} : {c})" for i, c in enumerate(tr["checks"]))
        out.append(f"/-- `{r['opt']}<{pat}>` (expression_optimizers.hpp:{r['line']}) -/\n"
                   f"theorem {name} {binders}\n    (hwf : ({tr['lhs']}).WF){checks}{hyps} :\n"
                   f"    {tr['rhs']} {rel} {tr['lhs']} := by\n  remora_rule\n\n")
        wfs = "".join(f"\n    (w{c['var']} : {c['var']}.WF)" for c in tr["calls"])
        out.append(f"/-- … and the rewritten expression is well-formed again (so that rules compose) -/\n"
                   f"theorem {name}_wf {binders}\n    (hwf : ({tr['lhs']}).WF){checks}{wfs}{hyps} :\n"
                   f"    ({tr['rhs']}).WF := by\n  remora_rule_wf\n\n")
        translated.append(dict(name=name, opt=r["opt"], default=r["pattern"] is None, tr=tr))
        table.append(dict(name=name, opt=r["opt"], pattern=pat, line=r["line"], status="translated",
                          lhs=tr["lhs"], rhs=tr["rhs"], calls=tr["calls"], checks=tr["checks"], conversions=tr["conversions"],
                          ast=dict(tparams=r["tparam_names"], pattern=r["pattern"], typedefs=r["typedefs"],
                                   params=[pn for _, pn in r["params"]], stmts=r["stmts"])))
    out.append("end SharkVerif.Remora.Rules\n")
    text = "".join(out)
    os.makedirs(os.path.dirname(a.out), exist_ok=True)
    if not os.path.exists(a.out) or open(a.out).read() != text:
        with open(a.out, "w") as f:
            f.write(text)
    opt_text, n_in_opt = emit_optimizer(translated)
    opt_out = os.path.join(os.path.dirname(a.out), "RemoraOpt.lean")
    if not os.path.exists(opt_out) or open(opt_out).read() != opt_text:
        with open(opt_out, "w") as f:
            f.write(opt_text)
    print(f"remora_rules: generated optimiser Gen/RemoraOpt.lean covers {n_in_opt} rules")
    os.makedirs(os.path.dirname(a.json), exist_ok=True)
    with open(a.json, "w") as f:
        json.dump(dict(rules=table, total=len(rules), translated=n_ok, uninstantiable=n_un,
                       classes={c: [[a, srt] for a, srt in v[2]] for c, v in CLASSES.items()},
                       optimizers={o: v[1] for o, v in OPTIMIZERS.items()}), f, indent=1)
    print(f"remora_rules: {len(rules)} rules parsed, {n_ok} translated to lemmas, {n_un} uninstantiable")


if __name__ == "__main__":
    try:
        main()
    except TranslateError as e:
        print("TRANSLATOR ERROR:", e)
        sys.exit(1)
