#!/usr/bin/env python3
"""C01: regenerates lean/SharkVerif/Gen/RemoraKernelConsts.lean from the blocked dense kernels of remora.

The kernel models of `Model/RemoraKernels.lean` (`packA`, `packB`, `ugemm`, `mgemm`, `denseGemm`,
`assignTransBlocked`; `foldRowsBlocked` of `Model/Remora.lean`) take every blocking constant as a parameter and are
proved correct for all of them.  This translator
  1. reads the constants the C++ uses (`gemm_block_size<T>` for double / float / long double, `blockSize` of the two
     transposing assignment kernels, `BLOCK_SIZE` of the column-major `fold_rows`) and writes them as Lean definitions,
     with generated theorems: all positive, `mr | mc` and `nr | nc` (the packed buffers `A[MC*KC]`, `B[NC*KC]` are
     only large enough when the stripe widths divide the block sizes, see `packedSize_le` in Props/C01.lean);
  2. pins the loop skeleton of every modelled function: the source with comments, whitespace and the constants of (1)
     removed must hash to the recorded value (`translate/remora_kernels.skeleton.json`); a different text means the
     model was written from other code and the tie is broken (re-read the C++, update the model, `--update`).
The values are also compared at run time: the harness prints the constants the compiler sees (`kconsts`).
"""
import argparse, hashlib, json, os, re, sys

V = os.path.dirname(os.path.dirname(os.path.abspath(__file__)))
K = "include/shark/LinAlg/BLAS/kernels/default/"
SIZEOF = {"double": 8, "float": 4, "long double": 16}


def strip_comments(s):
    s = re.sub(r"/\*.*?\*/", " ", s, flags=re.S)
    return re.sub(r"//[^\n]*", "", s)


def body_from(s, i):
    """text from position i up to the end of the first balanced {...} after it"""
    j = s.index("{", i)
    depth = 0
    for k in range(j, len(s)):
        if s[k] == "{": depth += 1
        elif s[k] == "}":
            depth -= 1
            if depth == 0: return s[i:k + 1]
    raise SystemExit("remora_kernels: unbalanced braces")


def ev(expr, env):
    """evaluate an integer constant expression over + - * / ( ) and names of env"""
    expr = expr.strip()
    if not re.fullmatch(r"[\w:\s+\-*/()]+", expr):
        raise SystemExit(f"remora_kernels: cannot evaluate constant expression `{expr}`")
    py = re.sub(r"[A-Za-z_][\w:]*", lambda m: str(env[m.group(0)]) if m.group(0) in env else
                (_ for _ in ()).throw(SystemExit(f"remora_kernels: unknown name `{m.group(0)}` in `{expr}`")), expr)
    return int(eval(py.replace("/", "//"), {"__builtins__": {}}))


def norm(s):
    return re.sub(r"\s+", "", s)


def main():
    ap = argparse.ArgumentParser()
    ap.add_argument("--repo", default="/repo")
    ap.add_argument("--update", action="store_true", help="record the current skeleton hashes")
    a = ap.parse_args()
    rd = lambda f: strip_comments(open(os.path.join(a.repo, K + f)).read())
    simd, dg, mg, ma, fr = rd("simd.hpp"), rd("dense_gemm.hpp"), rd("mgemm.hpp"), rd("matrix_assign.hpp"), rd("fold_rows.hpp")

    # ---- 1. constants
    m = re.search(r"#ifdef\s+__AVX__\s*#define\s+REMORA_VECTOR_LENGTH\s+(\d+)\s*#else\s*#define\s+REMORA_VECTOR_LENGTH\s+(\d+)", simd)
    if not m: raise SystemExit("remora_kernels: REMORA_VECTOR_LENGTH not found in simd.hpp")
    veclen = int(m.group(2))          # the harness is compiled without -mavx; `kconsts` compares the values at run time
    if not re.search(r"max_vector_elements\s*=\s*REMORA_VECTOR_LENGTH\s*/\s*sizeof\(T\)", simd):
        raise SystemExit("remora_kernels: block<T>::max_vector_elements is not REMORA_VECTOR_LENGTH/sizeof(T)")
    blocks, skel_dg = {}, dg
    for T, pat in (("double", r"template\s*<\s*typename\s+T\s*>\s*struct\s+gemm_block_size\s*\{"),
                   ("float", r"template\s*<\s*>\s*struct\s+gemm_block_size\s*<\s*float\s*>\s*\{"),
                   ("long double", r"template\s*<\s*>\s*struct\s+gemm_block_size\s*<\s*long\s+double\s*>\s*\{")):
        mm = re.search(pat, dg)
        if not mm: raise SystemExit(f"remora_kernels: gemm_block_size for {T} not found")
        text = body_from(dg, mm.start())
        env = {"block::max_vector_elements": veclen // SIZEOF[T]}
        decl = dict(re.findall(r"static\s+const\s+unsigned\s+(\w+)\s*=\s*([^;]+);", text))
        if set(decl) != {"mr", "nr", "mc", "kc", "nc"}:
            raise SystemExit(f"remora_kernels: gemm_block_size<{T}> declares {sorted(decl)}, expected mr nr mc kc nc")
        for _ in range(5):
            for k, e in decl.items():
                if k not in env:
                    try: env[k] = ev(e, env)
                    except SystemExit: pass
        if not all(k in env for k in decl):
            raise SystemExit(f"remora_kernels: cannot evaluate the constants of gemm_block_size<{T}>: {decl}")
        blocks[T] = {k: env[k] for k in ("mr", "nr", "mc", "kc", "nc")}
        skel_dg = skel_dg.replace(text, f"<gemm_block_size {T}>")
    if re.search(r"struct\s+gemm_block_size", skel_dg):
        raise SystemExit("remora_kernels: a further gemm_block_size specialisation exists; the model knows three")

    def fn_with(src, head_re, what):
        mm = [x for x in re.finditer(head_re, src, flags=re.S)]
        if len(mm) != 1: raise SystemExit(f"remora_kernels: {what}: expected one definition, found {len(mm)}")
        return body_from(src, mm[0].start())
    t_set = fn_with(ma, r"template<class M, class E>\s*void matrix_assign\(\s*matrix_expression<M, cpu_tag>& m,\s*matrix_expression<E, cpu_tag> const& e,\s*row_major, column_major,dense_tag, dense_tag\s*\)", "transposing matrix_assign")
    t_fun = fn_with(ma, r"template<class F,class M, class E>\s*void matrix_assign_functor\(\s*matrix_expression<M, cpu_tag>& m,\s*matrix_expression<E, cpu_tag> const& e,\s*F f,\s*row_major, column_major,dense_tag, dense_tag\s*\)", "transposing matrix_assign_functor")
    f_col = fn_with(fr, r"template<class F, class G, class M,class V>\s*void fold_rows\(\s*matrix_expression<M, cpu_tag> const& A,\s*vector_expression<V, cpu_tag>& v,\s*F f,\s*G g,\s*column_major\s*\)", "column-major fold_rows")
    consts = {}
    skels = {"mgemm.hpp": norm(mg), "dense_gemm.hpp": norm(skel_dg)}
    for name, text, pat in (("assignTransBlock", t_set, r"std::size_t const blockSize = (\d+);"),
                            ("assignTransFunctorBlock", t_fun, r"std::size_t const blockSize = (\d+);"),
                            ("foldRowsBlock", f_col, r"const std::size_t BLOCK_SIZE = (\d+);")):
        mm = re.findall(pat, text)
        if len(mm) != 1: raise SystemExit(f"remora_kernels: block constant of {name} not found")
        consts[name] = int(mm[0])
        skels[name] = norm(re.sub(pat, "<block>", text))
    shas = {k: hashlib.sha256(v.encode()).hexdigest() for k, v in skels.items()}
    sk_path = os.path.join(V, "translate", "remora_kernels.skeleton.json")
    if a.update:
        json.dump(shas, open(sk_path, "w"), indent=1, sort_keys=True)
    want = json.load(open(sk_path))
    for k in shas:
        if shas[k] != want.get(k):
            raise SystemExit(f"remora_kernels: the text of `{k}` (constants removed) is not the text the model "
                             f"Model/RemoraKernels.lean was written from (sha256 {shas[k][:16]}…, recorded {str(want.get(k))[:16]}…): "
                             f"re-read the kernel, update the model and its proofs, then run with --update")

    def blk(T): b = blocks[T]; return f"⟨{b['mr']}, {b['nr']}, {b['mc']}, {b['kc']}, {b['nc']}⟩"
    out = f"""/- GENERATED by translate/remora_kernels.py from include/shark/LinAlg/BLAS/kernels/default/
(dense_gemm.hpp, simd.hpp, matrix_assign.hpp, fold_rows.hpp) — do not edit.
The blocking constants of the dense kernels; the loop skeletons are pinned by hash
(mgemm {shas['mgemm.hpp'][:12]}… dense_gemm {shas['dense_gemm.hpp'][:12]}… assign {shas['assignTransBlock'][:12]}…/{shas['assignTransFunctorBlock'][:12]}… fold_rows {shas['foldRowsBlock'][:12]}…). -/
import SharkVerif.Model.RemoraKernels
namespace SharkVerif.Gen.RemoraKernelConsts
open SharkVerif.Remora

/-- `gemm_block_size<T>`: mr, nr, mc, kc, nc (REMORA_VECTOR_LENGTH = {veclen} bytes, no AVX) -/
def gemmDouble : GemmBlock := {blk('double')}
def gemmFloat : GemmBlock := {blk('float')}
def gemmLongDouble : GemmBlock := {blk('long double')}
/-- `blockSize` of `matrix_assign(row_major, column_major, dense, dense)` -/
def assignTransBlock : Nat := {consts['assignTransBlock']}
/-- `blockSize` of `matrix_assign_functor(row_major, column_major, dense, dense)` -/
def assignTransFunctorBlock : Nat := {consts['assignTransFunctorBlock']}
/-- `BLOCK_SIZE` of the column-major `fold_rows` -/
def foldRowsBlock : Nat := {consts['foldRowsBlock']}

/-- every constant is positive (the hypothesis of the kernel theorems), and the stripe widths divide the block
sizes (the packed buffers `A[MC*KC]`, `B[NC*KC]` hold `⌈mc/MR⌉*MR*kc` resp. `⌈nc/NR⌉*NR*kc` cells) -/
theorem gemmDouble_ok : gemmDouble.Ok := by decide
theorem gemmFloat_ok : gemmFloat.Ok := by decide
theorem gemmLongDouble_ok : gemmLongDouble.Ok := by decide
theorem assign_blocks_pos : 0 < assignTransBlock ∧ 0 < assignTransFunctorBlock ∧ 0 < foldRowsBlock := by decide

end SharkVerif.Gen.RemoraKernelConsts
"""
    p = os.path.join(V, "lean", "SharkVerif", "Gen", "RemoraKernelConsts.lean")
    if not os.path.exists(p) or open(p).read() != out:
        open(p, "w").write(out)
    print(f"remora_kernels: gemm blocks double={blocks['double']} float={blocks['float']} long double={blocks['long double']}; "
          f"assign {consts['assignTransBlock']}/{consts['assignTransFunctorBlock']}, fold_rows {consts['foldRowsBlock']}; skeletons pinned")


if __name__ == "__main__":
    main()
