#!/usr/bin/env python3
"""T3b — serial_deps_clang.py: cross-check the behaviour-dependency lists of translate/serial_fields.py
(regex reader) against clang's AST.

For every (source file, class) below clang-14 dumps the AST of the declarations of that class
(`-ast-dump-filter`); every `MemberExpr` / `CXXDependentScopeMemberExpr` naming a data member of the class
inside a method called eval / operator() / parameterVector / numberOfParameters / step / inputShape /
outputShape is a member the behaviour functions read DIRECTLY. Each of them must be in the list
`behaviourDeps` the regex reader produced for the class (which additionally follows calls to methods of
the same class). A member clang sees and the regex reader does not is a broken tie (exit 1).

Usage: serial_deps_clang.py --repo /repo [--inc <dir with shark/Core/Shark.h>]
"""
import argparse, hashlib, json, os, re, subprocess, sys, tempfile

HERE = os.path.dirname(os.path.abspath(__file__))
VERIF = os.path.dirname(HERE)
BEHAVIOUR = {"eval", "operator()", "parameterVector", "numberOfParameters", "step", "inputShape", "outputShape"}
TARGETS = [
    ("include/shark/Models/LinearModel.h", "LinearModel"),
    ("include/shark/Models/Normalizer.h", "Normalizer"),
    ("include/shark/Models/ConcatenatedModel.h", "ConcatenatedModel"),
    ("include/shark/Models/ConvolutionalModel.h", "Conv2DModel"),
    ("include/shark/Models/PoolingLayer.h", "PoolingLayer"),
    ("include/shark/Models/Trees/CARTree.h", "CARTree"),
    ("include/shark/Models/Kernels/KernelExpansion.h", "KernelExpansion"),
    ("include/shark/Models/Kernels/GaussianRbfKernel.h", "GaussianRbfKernel"),
    ("include/shark/Models/Kernels/PolynomialKernel.h", "PolynomialKernel"),
    ("include/shark/Models/Kernels/ArdKernel.h", "ARDKernelUnconstrained"),
    ("include/shark/Models/Kernels/ScaledKernel.h", "ScaledKernel"),
    ("include/shark/Models/Kernels/WeightedSumKernel.h", "WeightedSumKernel"),
    ("include/shark/Models/Kernels/ProductKernel.h", "ProductKernel"),
    ("include/shark/Algorithms/GradientDescent/Adam.h", "Adam"),
    ("include/shark/Algorithms/GradientDescent/SteepestDescent.h", "SteepestDescent"),
    ("src/Models/RBFLayer.cpp", "RBFLayer"),
    ("src/Models/CMAC.cpp", "CMACMap"),
    ("src/Models/Centroids.cpp", "Centroids"),
    ("src/Algorithms/GradientDescent/Rprop.cpp", "Rprop"),
    ("src/Algorithms/GradientDescent/AbstractLineSearchOptimizer.cpp", "AbstractLineSearchOptimizer"),
    ("src/Algorithms/DirectSearch/CMSA.cpp", "CMSA"),
    ("src/Algorithms/DirectSearch/CMA.cpp", "CMA"),
    ("src/Algorithms/DirectSearch/ElitistCMA.cpp", "ElitistCMA"),
]
DECL_RE = re.compile(r"^([|` -]*)(\w+Decl) 0x[0-9a-f]+ (.*)$")
METHOD_NAME_RE = re.compile(r"(?:line|col):\d+(?::\d+)? (?:implicit |used |referenced |invalid )*(operator\(\)|~?\w+) '")
MEMBER_RE = re.compile(r"(?:MemberExpr|CXXDependentScopeMemberExpr) 0x[0-9a-f]+ .*?(?:->|\.)((?:m|mp|mep|mpe)_\w+)")


def clang_deps(repo, inc, rel, cls):
    """members named inside the behaviour methods of `cls` (direct references)"""
    with tempfile.NamedTemporaryFile("w", suffix=".cpp", delete=False) as f:
        f.write(f'#include "{os.path.join(repo, rel)}"\n')
        tu = f.name
    try:
        cmd = ["clang++-14", "-std=gnu++11", "-fsyntax-only", "-w", "-fopenmp", "-DNDEBUG", "-I" + inc, "-I" + os.path.join(repo, "include"),
               "-I" + repo, "-Xclang", "-ast-dump", "-Xclang", "-ast-dump-filter=" + cls, tu]
        p = subprocess.run(cmd, capture_output=True, text=True, errors="replace")
    finally:
        os.unlink(tu)
    if p.returncode != 0 and not p.stdout:
        return None, p.stderr[-500:]
    found, methods = set(), set()
    cur_indent, cur_name = None, None
    for line in p.stdout.splitlines():
        m = DECL_RE.match(line)
        if m:
            indent = len(m.group(1))
            if cur_indent is not None and indent <= cur_indent:
                cur_indent, cur_name = None, None
            if m.group(2) in ("CXXMethodDecl", "FunctionDecl") and cur_indent is None:
                nm = METHOD_NAME_RE.search(m.group(3))
                if nm and nm.group(1) in BEHAVIOUR:
                    cur_indent, cur_name = indent, nm.group(1)
                    methods.add(cur_name)
            continue
        if cur_indent is not None:
            mm = MEMBER_RE.search(line)
            if mm:
                found.add(mm.group(1))
    return (found, methods), None


def regex_infos(repo):
    out = subprocess.run([sys.executable, os.path.join(HERE, "serial_fields.py"), "--repo", repo, "--dump"], capture_output=True, text=True).stdout
    dec, i, infos = json.JSONDecoder(), 0, {}
    while i < len(out):
        while i < len(out) and out[i] != "{": i += 1
        if i >= len(out): break
        obj, j = dec.raw_decode(out, i)
        infos[obj["cls"]] = obj; i = j
    return infos


def main():
    ap = argparse.ArgumentParser()
    ap.add_argument("--repo", default="/repo")
    ap.add_argument("--inc", default=os.path.join(VERIF, ".cache", "inc"))
    a = ap.parse_args()
    infos = regex_infos(a.repo)
    bad, checked, members_seen = [], 0, 0
    for rel, cls in TARGETS:
        if cls not in infos:
            bad.append(f"{cls}: not found by serial_fields.py"); continue
        res, err = clang_deps(a.repo, a.inc, rel, cls)
        if res is None:
            bad.append(f"{cls}: clang failed: {err}"); continue
        found, methods = res
        if not methods:
            bad.append(f"{cls}: clang saw no behaviour method in {rel}"); continue
        own = set(infos[cls]["members"])
        direct = found & own
        missing = sorted(direct - set(infos[cls]["deps"]))
        checked += 1; members_seen += len(direct)
        if missing:
            bad.append(f"{cls}: clang sees {missing} referenced in {sorted(methods)} but the regex reader's behaviourDeps are {infos[cls]['deps']}")
    for b in bad:
        print("dependency cross-check: " + b, file=sys.stderr)
    print(f"clang cross-check: classes={checked}/{len(TARGETS)} direct_member_references={members_seen} disagreements={len(bad)}")
    return 1 if bad else 0


if __name__ == "__main__":
    sys.exit(main())
