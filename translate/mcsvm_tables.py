#!/usr/bin/env python3
"""T2 (C16): regenerates lean/SharkVerif/Gen/McTables.lean from
CSvmTrainer::setupMcParameters{WWCS,ATMATS,ADMLLW,MMR}
(include/shark/Algorithms/Trainers/CSvmTrainer.h).

Each of these member functions fills two QpSparseArrays (nu, M) by closed loop
nests over class indices with literal constants.  The translator parses the
function bodies with a small C++ statement/expression parser (fails loudly on
anything outside the subset below) and renders every loop nest as

  * one Lean function `<F>_<A>_row c i1 .. ik : Row α` — the statements of the
    innermost body (setDefaultValue / add / if / local declarations), applied to
    the zero-initialised row;
  * for every loop-carried variable other than the counter (`pp`, `ppv`) its
    value in iteration k as a structurally recursive function mirroring
    "init; (head-update; body; increment)*";
  * the array itself as the list of rows in iteration order
    (`List.range`/`flatMap`/`map`), which is row order because the translator
    checks that the row index is a counter that starts at 0 and is incremented
    exactly once per innermost iteration (or is the counter of a single loop).

Numbers: `QpFloatType`/`double` expressions become expressions over the
polymorphic scalar `α` (literals as scientific literals, `(double)classes` as
a `Nat` cast); `unsigned int`/`size_t` expressions become `Nat` expressions with
C++ wrap-around subtraction (`usub32`/`usub64`).

Accepted subset: see `Parser` below.  Everything else raises `Reject`.
"""
import argparse, os, re, sys

V = os.path.dirname(os.path.dirname(os.path.abspath(__file__)))
SRC = "include/shark/Algorithms/Trainers/CSvmTrainer.h"
FUNCS = ["WWCS", "ATMATS", "ADMLLW", "MMR"]


class Reject(Exception):
    pass


def strip_comments(s):
    s = re.sub(r"/\*.*?\*/", " ", s, flags=re.S)
    return re.sub(r"//[^\n]*", "", s)


TOKRE = re.compile(r"\s*(std::size_t|[A-Za-z_]\w*|\d+\.\d*(?:[eE][-+]?\d+)?|\.\d+|\d+|\+\+|--|==|!=|<=|>=|&&|\|\||[-+*/%<>=?:(){};,.!])")
INT_TYPES = {"unsigned", "int", "std::size_t", "size_t"}
FLOAT_TYPES = {"QpFloatType", "double"}


def tokenize(s):
    out, i = [], 0
    s = s.strip()
    while i < len(s):
        m = TOKRE.match(s, i)
        if not m:
            if s[i:].strip() == "":
                break
            raise Reject(f"cannot tokenize at {s[i:i+40]!r}")
        out.append(m.group(1)); i = m.end()
    return out


class Parser:
    """statements: block, for, if/else, declaration with initialiser, `x++;`,
    `obj.method(args);`.  expressions: ?:, ||, &&, == !=, < > <= >=, + -, * /,
    unary -, C casts `(T)e`, functional casts `T(e)`, literals, identifiers."""

    def __init__(self, toks):
        self.t, self.i = toks, 0

    def peek(self, k=0):
        return self.t[self.i + k] if self.i + k < len(self.t) else None

    def eat(self, x=None):
        tok = self.peek()
        if tok is None or (x is not None and tok != x):
            raise Reject(f"expected {x!r}, got {tok!r} near {' '.join(self.t[max(0,self.i-8):self.i+8])}")
        self.i += 1
        return tok

    # ---- types
    def at_type(self, k=0):
        return self.peek(k) in INT_TYPES or self.peek(k) in FLOAT_TYPES

    def type_(self):
        tok = self.eat()
        if tok == "unsigned":
            self.eat("int"); return "u32"
        if tok == "int":
            raise Reject("signed int declarations are not in the subset")
        if tok in ("std::size_t", "size_t"):
            return "u64"
        if tok in FLOAT_TYPES:
            return "f"
        raise Reject(f"unknown type {tok}")

    # ---- statements
    def block_items(self):
        self.eat("{"); items = []
        while self.peek() != "}":
            items.append(self.stmt())
        self.eat("}")
        return items

    def stmt(self):
        tok = self.peek()
        if tok == "{":
            return ("block", self.block_items())
        if tok == "for":
            self.eat(); self.eat("(")
            ty = self.type_(); inits = []
            while True:
                name = self.eat(); self.eat("="); inits.append((ty, name, self.expr()))
                if self.peek() == ",": self.eat(); continue
                break
            self.eat(";"); cond = self.expr(); self.eat(";")
            incs = []
            while True:
                name = self.eat(); self.eat("++"); incs.append(name)
                if self.peek() == ",": self.eat(); continue
                break
            self.eat(")")
            return ("for", inits, cond, incs, self.stmt())
        if tok == "if":
            self.eat(); self.eat("("); c = self.expr(); self.eat(")")
            th = self.stmt(); el = None
            if self.peek() == "else":
                self.eat(); el = self.stmt()
            return ("if", c, th, el)
        if self.at_type():
            ty = self.type_(); name = self.eat(); self.eat("="); e = self.expr(); self.eat(";")
            return ("decl", ty, name, e)
        if re.match(r"[A-Za-z_]\w*$", tok or ""):
            name = self.eat()
            if self.peek() == "++":
                self.eat(); self.eat(";"); return ("inc", name)
            if self.peek() == ".":
                self.eat(); meth = self.eat(); self.eat("("); args = []
                if self.peek() != ")":
                    while True:
                        args.append(self.expr())
                        if self.peek() == ",": self.eat(); continue
                        break
                self.eat(")"); self.eat(";")
                return ("call", name, meth, args)
        raise Reject(f"statement not in the subset near {' '.join(self.t[self.i:self.i+10])}")

    # ---- expressions
    def expr(self):
        c = self.lor()
        if self.peek() == "?":
            self.eat(); a = self.expr(); self.eat(":"); b = self.expr()
            return ("cond", c, a, b)
        return c

    def lor(self):
        e = self.land()
        while self.peek() == "||":
            self.eat(); e = ("bin", "||", e, self.land())
        return e

    def land(self):
        e = self.eq()
        while self.peek() == "&&":
            self.eat(); e = ("bin", "&&", e, self.eq())
        return e

    def eq(self):
        e = self.rel()
        while self.peek() in ("==", "!="):
            op = self.eat(); e = ("bin", op, e, self.rel())
        return e

    def rel(self):
        e = self.add()
        while self.peek() in ("<", ">", "<=", ">="):
            op = self.eat(); e = ("bin", op, e, self.add())
        return e

    def add(self):
        e = self.mul()
        while self.peek() in ("+", "-"):
            op = self.eat(); e = ("bin", op, e, self.mul())
        return e

    def mul(self):
        e = self.unary()
        while self.peek() in ("*", "/"):
            op = self.eat(); e = ("bin", op, e, self.unary())
        return e

    def unary(self):
        if self.peek() == "-":
            self.eat(); return ("neg", self.unary())
        if self.peek() == "(" and self.at_type(1):
            self.eat("("); ty = self.type_(); self.eat(")")
            return ("cast", ty, self.unary())
        return self.primary()

    def primary(self):
        tok = self.eat()
        if tok == "(":
            e = self.expr(); self.eat(")"); return e
        if tok in FLOAT_TYPES and self.peek() == "(":
            self.eat("("); e = self.expr(); self.eat(")")
            return ("cast", "f", e)
        if re.match(r"\d+$", tok):
            return ("int", tok)
        if re.match(r"(\d+\.\d*|\.\d+)", tok):
            return ("flt", tok)
        if re.match(r"[A-Za-z_]\w*$", tok):
            return ("var", tok)
        raise Reject(f"unexpected token {tok!r}")


# ---------------------------------------------------------------------------
# typed rendering of expressions
# ---------------------------------------------------------------------------
class Env:
    def __init__(self):
        self.ty = {"classes": "u64"}      # C++ name -> u32 | u64 | f
        self.ren = {"classes": "c"}

    def copy(self):
        e = Env(); e.ty = dict(self.ty); e.ren = dict(self.ren); return e


def is_float(e, env):
    k = e[0]
    if k == "flt": return True
    if k == "int": return False
    if k == "var":
        if e[1] not in env.ty: raise Reject(f"unknown identifier {e[1]}")
        return env.ty[e[1]] == "f"
    if k == "neg": return is_float(e[1], env)
    if k == "cast": return e[1] == "f"
    if k == "cond": return is_float(e[2], env) or is_float(e[3], env)
    if k == "bin":
        if e[1] in ("+", "-", "*", "/"): return is_float(e[2], env) or is_float(e[3], env)
        return False
    raise Reject(f"bad expression {e}")


def width(e, env):
    """u64 if a size_t variable occurs, else u32"""
    k = e[0]
    if k == "var": return env.ty[e[1]]
    if k in ("int", "flt"): return "u32"
    if k == "neg" or k == "cast": return width(e[-1], env)
    if k == "cond": return max(width(e[2], env), width(e[3], env))
    if k == "bin": return max(width(e[2], env), width(e[3], env))
    return "u32"


def fl(e, env):
    """render as an expression of the scalar type α"""
    k = e[0]
    if k == "flt":
        t = e[1]
        if t.endswith("."): t += "0"
        return f"({t} : α)"
    if k == "int":
        return f"({e[1]}.0 : α)"
    if k == "var":
        if env.ty.get(e[1]) == "f": return env.ren.get(e[1], e[1])
        if e[1] in env.ty: return f"(({env.ren.get(e[1], e[1])} : Nat) : α)"
        raise Reject(f"unknown identifier {e[1]}")
    if k == "neg": return f"(-{fl(e[1], env)})"
    if k == "cast":
        if e[1] == "f":
            inner = e[2]
            return fl(inner, env) if is_float(inner, env) or inner[0] in ("int", "neg", "cond", "var") else fl(inner, env)
        raise Reject("integer cast inside a floating expression")
    if k == "cond":
        return f"(if {cond(e[1], env)} then {fl(e[2], env)} else {fl(e[3], env)})"
    if k == "bin" and e[1] in ("+", "-", "*", "/"):
        return f"({fl(e[2], env)} {e[1]} {fl(e[3], env)})"
    raise Reject(f"cannot render {e} as a floating expression")


def nat(e, env):
    k = e[0]
    if k == "int": return e[1]
    if k == "var":
        if env.ty.get(e[1]) in ("u32", "u64"): return env.ren.get(e[1], e[1])
        raise Reject(f"{e[1]} is not an integer variable")
    if k == "cond":
        return f"(if {cond(e[1], env)} then {nat(e[2], env)} else {nat(e[3], env)})"
    if k == "bin" and e[1] in ("+", "*"):
        return f"({nat(e[2], env)} {e[1]} {nat(e[3], env)})"
    if k == "bin" and e[1] == "-":
        if is_float(e, env): raise Reject("float in integer expression")
        return f"(usub{'64' if width(e, env) == 'u64' else '32'} {nat(e[2], env)} {nat(e[3], env)})"
    raise Reject(f"cannot render {e} as an unsigned integer expression")


def cond(e, env):
    if e[0] == "bin" and e[1] in ("==", "!=", "<", ">", "<=", ">="):
        if is_float(e[2], env) or is_float(e[3], env):
            raise Reject("floating-point comparison in a table loop")
        op = {"==": "=", "!=": "≠", "<": "<", ">": ">", "<=": "≤", ">=": "≥"}[e[1]]
        return f"({nat(e[2], env)} {op} {nat(e[3], env)})"
    if e[0] == "bin" and e[1] in ("&&", "||"):
        return f"({cond(e[2], env)} {'∧' if e[1] == '&&' else '∨'} {cond(e[3], env)})"
    raise Reject(f"condition not in the subset: {e}")


def free_vars(e):
    if e[0] == "var": return {e[1]}
    if e[0] in ("int", "flt"): return set()
    s = set()
    for x in e[1:]:
        if isinstance(x, tuple): s |= free_vars(x)
    return s


# ---------------------------------------------------------------------------
# loop nests
# ---------------------------------------------------------------------------
def as_items(st):
    return st[1] if st[0] == "block" else [st]


def assigned(items):
    """names incremented anywhere in a statement list"""
    out = set()
    for st in items:
        if st[0] == "inc": out.add(st[1])
        elif st[0] == "block": out |= assigned(st[1])
        elif st[0] == "if":
            out |= assigned(as_items(st[2]))
            if st[3]: out |= assigned(as_items(st[3]))
        elif st[0] == "for": out |= set(st[3]) | assigned(as_items(st[4]))
    return out


class Nest:
    """analysis + rendering of one `for` nest that fills array `arr`"""

    def __init__(self, fname, arr, prelude, loop, env):
        self.fname, self.arr, self.prelude = fname, arr, prelude
        self.env = env.copy()
        self.levels = []       # dict(counter, bound, recs=[(name, init, inc?, heads)], lets=[decl])
        self.rowvar = None
        self.defs = []
        self.analyse(loop)

    def analyse(self, loop):
        rowcands = {}
        st = loop
        depth = 0
        while True:
            if st[0] != "for": raise Reject("expected a for loop")
            _, inits, c, incs, body = st
            if not (c[0] == "bin" and c[1] == "<" and c[2][0] == "var"):
                raise Reject(f"loop condition must be `counter < bound`: {c}")
            counter = c[2][1]; bound = c[3]
            if free_vars(bound) - {"classes"}:
                raise Reject(f"loop bound depends on {free_vars(bound)}")
            names = [n for _, n, _ in inits]
            if counter not in names or counter not in incs:
                raise Reject(f"counter {counter} must be declared in the loop header and incremented there")
            for ty, n, e in inits:
                if ty not in ("u32", "u64"): raise Reject("loop variables must be unsigned integers")
                if e != ("int", "0"): raise Reject(f"loop variable {n} must start at 0")
                self.env.ty[n] = ty
            items = as_items(body)
            # head updates `if (cond) x++;`
            heads = []
            k = 0
            while k < len(items) and items[k][0] == "if" and items[k][3] is None and \
                    as_items(items[k][2]) and all(s[0] == "inc" for s in as_items(items[k][2])) and \
                    len(as_items(items[k][2])) == 1:
                heads.append((items[k][1], as_items(items[k][2])[0][1])); k += 1
            rest = items[k:]
            body_assigned = assigned(rest)
            others = [n for n in names if n != counter]
            recs = []
            for n in others:
                headed = [h for h in heads if h[1] == n]
                in_inc = n in incs
                if headed or in_inc:
                    if n in body_assigned: raise Reject(f"{n} is modified inside the loop body")
                    recs.append((n, in_inc, [h[0] for h in headed]))
                else:
                    rowcands[n] = depth
            for h in heads:
                if h[1] not in others: raise Reject(f"head update of {h[1]} which is not declared in this loop header")
            if counter in body_assigned: raise Reject("loop counter modified in the body")
            extra_incs = [n for n in incs if n != counter and n not in [r[0] for r in recs]]
            lets = [s for s in rest if s[0] == "decl"]
            nonlets = [s for s in rest if s[0] != "decl"]
            level = dict(counter=counter, bound=bound, recs=recs, lets=[], extra_incs=extra_incs)
            self.levels.append(level)
            if len(nonlets) == 1 and nonlets[0][0] == "for":
                if rest[-1][0] != "for": raise Reject("declarations after an inner loop")
                if extra_incs: raise Reject(f"{extra_incs} incremented in a non-innermost loop header")
                level["lets"] = lets
                for d in lets: self.env.ty[d[2]] = d[1]
                st = nonlets[0]; depth += 1
                continue
            # innermost level
            self.leaf = rest
            for n in extra_incs:
                if n not in rowcands or rowcands[n] != 0:
                    raise Reject(f"{n}++ in the innermost header but {n} is not declared (=0) in the outermost loop header")
            if any(s[0] == "for" for s in nonlets): raise Reject("loop mixed with other statements")
            break
        inner_incs = self.levels[-1]["extra_incs"]
        if len(inner_incs) == 1:
            self.rowvar = inner_incs[0]
        elif not inner_incs and len(self.levels) == 1:
            self.rowvar = self.levels[0]["counter"]       # single loop: row index is the counter itself
        else:
            raise Reject("cannot identify the row counter of the loop nest")
        unused = set(rowcands) - {self.rowvar}
        if unused: raise Reject(f"unclassified loop variables {unused}")
        if assigned(self.leaf) : raise Reject(f"variables {assigned(self.leaf)} modified in the innermost body")

    # ---- rendering
    def ctrs(self):
        return [l["counter"] for l in self.levels]

    def render(self):
        base = f"{self.fname}_{self.arr}"
        env = self.env
        L = []
        # recurrence variables
        rec_lets = []
        outer = []
        for lv in self.levels:
            for (n, in_inc, heads) in lv["recs"]:
                params = " ".join(f"({v} : Nat)" for v in ["c"] + outer)
                pargs = " ".join(["c"] + outer)
                ctr = lv["counter"]
                def head_chain(indent):
                    s = ""
                    for hc in heads:
                        s += f"{indent}let {n} := if {cond(hc, env)} then {n} + 1 else {n}\n"
                    return s + f"{indent}{n}\n"
                L.append(f"/-- value of `{n}` in the body of iteration `{ctr}` of the `{ctr}`-loop of `{base}` "
                         f"(init 0; per iteration: head update(s), body{', `'+n+'++`' if in_inc else ''}) -/")
                L.append(f"def {base}_{n} {params} : Nat → Nat")
                L.append(f"  | 0 =>\n    let {ctr} := 0\n    let {n} := 0\n" + head_chain("    ").rstrip("\n"))
                L.append(f"  | k + 1 =>\n    let {ctr} := k + 1\n    let {n} := {base}_{n} {pargs} k\n" +
                         (f"    let {n} := {n} + 1\n" if in_inc else "") + head_chain("    ").rstrip("\n"))
                L.append("")
                rec_lets.append(f"  let {n} := {base}_{n} {pargs} {ctr}")
            outer.append(lv["counter"])
        # row function
        params = " ".join(f"({v} : Nat)" for v in ["c"] + self.ctrs())
        L.append(f"/-- the row written by iteration ({', '.join(self.ctrs())}) of the loop nest filling `{self.arr}` in "
                 f"`setupMcParameters{self.fname}` -/")
        L.append(f"def {base}_row {params} : Row α :=")
        L += rec_lets
        for d in self.prelude:
            L.append(self.decl(d, env, "  "))
        for lv in self.levels:
            for d in lv["lets"]:
                L.append(self.decl(d, env, "  "))
        L.append("  let row : Row α := Row.empty")
        L.append(self.block(self.leaf, env.copy(), "  "))
        L.append("")
        return L, base

    def decl(self, d, env, ind):
        _, ty, name, e = d
        env.ty[name] = ty
        if ty == "f": return f"{ind}let {name} : α := {fl(e, env)}"
        return f"{ind}let {name} : Nat := {nat(e, env)}"

    def block(self, items, env, ind):
        out = []
        for st in items:
            if st[0] == "decl":
                out.append(self.decl(st, env, ind))
            elif st[0] == "call":
                _, obj, meth, args = st
                if obj != self.arr: raise Reject(f"loop nest for {self.arr} touches {obj}")
                if not args or args[0] != ("var", self.rowvar):
                    raise Reject(f"{obj}.{meth} does not address the row counter {self.rowvar}")
                if meth == "setDefaultValue" and len(args) == 2:
                    out.append(f"{ind}let row := row.setDefault {fl(args[1], env)}")
                elif meth == "add" and len(args) == 3:
                    out.append(f"{ind}let row := row.add {nat(args[1], env)} {fl(args[2], env)}")
                else:
                    raise Reject(f"unknown call {obj}.{meth}/{len(args)}")
            elif st[0] == "if":
                th = self.block(as_items(st[2]), env.copy(), ind + "    ")
                el = self.block(as_items(st[3]), env.copy(), ind + "    ") if st[3] else f"{ind}    row"
                out.append(f"{ind}let row :=\n{ind}  if {cond(st[1], env)} then\n{th}\n{ind}  else\n{el}")
            elif st[0] == "block":
                out.append(f"{ind}let row :=\n" + self.block(st[1], env.copy(), ind + "  "))
            else:
                raise Reject(f"statement {st[0]} not allowed in an innermost body")
        out.append(f"{ind}row")
        return "\n".join(out)

    def rows_expr(self):
        base = f"{self.fname}_{self.arr}"
        e = f"{base}_row c {' '.join(self.ctrs())}"
        n = len(self.levels)
        for k in range(n - 1, -1, -1):
            lv = self.levels[k]
            comb = "map" if k == n - 1 else "flatMap"
            e = f"(List.range {nat(lv['bound'], self.env)}).{comb} fun {lv['counter']} =>\n      {e}"
        return e


def extract_function(text, name):
    m = re.search(r"void\s+setupMcParameters" + name + r"\s*\(\s*QpSparseArray<QpFloatType>\s*&\s*nu\s*,\s*QpSparseArray<QpFloatType>\s*&\s*M\s*,"
                  r"\s*std::size_t\s+classes\s*\)\s*const\s*\{", text)
    if not m: raise Reject(f"setupMcParameters{name}: signature not found")
    depth, j = 0, m.end() - 1
    while True:
        if text[j] == "{": depth += 1
        elif text[j] == "}":
            depth -= 1
            if depth == 0: break
        j += 1
    return text[m.end() - 1:j + 1]


def translate_function(name, body):
    items = Parser(tokenize(body)).block_items()
    env = Env()
    out, tables = [], []
    k = 0
    while k < len(items):
        st = items[k]
        if not (st[0] == "call" and st[2] == "resize" and len(st[3]) == 3 and st[1] in ("nu", "M")):
            raise Reject(f"{name}: expected `<array>.resize(h,w,space)`, got {st[0]} {st[1:3]}")
        arr = st[1]; dims = [nat(a, env) for a in st[3]]
        k += 1
        prelude = []
        while k < len(items) and items[k][0] == "decl":
            if items[k][1] != "f": raise Reject("only floating declarations between resize and the loop nest")
            if free_vars(items[k][3]) - set(env.ty) - {d[2] for d in prelude}:
                raise Reject(f"unknown identifier in {items[k]}")
            prelude.append(items[k]); k += 1
        if k >= len(items) or items[k][0] != "for":
            raise Reject(f"{name}: expected the loop nest filling {arr}")
        e2 = env.copy()
        nest = Nest(name, arr, prelude, items[k], e2)
        k += 1
        L, base = nest.render()
        out += L
        out.append(f"/-- `{arr}` as built by `setupMcParameters{name}(nu, M, c)`: `resize({', '.join(dims)})`, rows in iteration order -/")
        out.append(f"def {base} (c : Nat) : Sparse α :=")
        out.append(f"  {{ height := {dims[0]}, width := {dims[1]}, space := {dims[2]},")
        out.append(f"    rows := {nest.rows_expr()} }}")
        out.append("")
        tables.append((arr, base, len(nest.levels)))
    if sorted(t[0] for t in tables) != ["M", "nu"]:
        raise Reject(f"{name}: expected exactly the two arrays nu and M, got {[t[0] for t in tables]}")
    return out, tables



# ---------------------------------------------------------------------------
# dispatch logic of CSvmTrainer::train / LinearCSvmTrainer::train
# ---------------------------------------------------------------------------
def match_braces(text, i):
    depth = 0
    for j in range(i, len(text)):
        if text[j] == "{": depth += 1
        elif text[j] == "}":
            depth -= 1
            if depth == 0: return j + 1
    raise Reject("unbalanced braces")


def translate_dispatch(text):
    """Parses `enum class McSvm`, the body of `CSvmTrainer::train(KernelClassifier&, LabeledData const&)` and of
    `LinearCSvmTrainer::train` and renders the decision logic (which solver path a (class count, formulation)
    pair takes) as Lean definitions.  The recognised shape is exactly:
        if(classes == 2){ ... trainBinary(...); ... return; }
        if(m_McSvmType == McSvm::OVA){ trainOVA(...); return; }
        switch (m_McSvmType){ case McSvm::X: sumToZero = B; simplex = B; setupMcParametersF(nu,M, classes); break; ... }
        ... if(simplex) solveMcSimplex(...) else solveMcBox(...)
    anything else is rejected."""
    m = re.search(r"enum\s+class\s+McSvm\s*\{([^}]*)\}", text)
    if not m: raise Reject("enum class McSvm not found")
    enum = [e.strip() for e in m.group(1).split(",") if e.strip()]
    if not all(re.match(r"[A-Za-z]\w*$", e) for e in enum): raise Reject(f"enum McSvm: {enum}")
    # --- kernel trainer
    m = re.search(r"void\s+train\s*\(\s*KernelClassifier<InputType>\s*&\s*svm\s*,\s*LabeledData<InputType,\s*unsigned int>\s*const&\s*dataset\s*\)\s*\{", text)
    if not m: raise Reject("CSvmTrainer::train not found")
    body = text[m.end() - 1:match_braces(text, m.end() - 1)]
    m2 = re.search(r"if\s*\(\s*classes\s*==\s*2\s*\)\s*\{", body)
    if not m2: raise Reject("train: `if(classes == 2)` not found")
    blk = body[m2.end() - 1:match_braces(body, m2.end() - 1)]
    if not re.search(r"trainBinary\s*\(", blk) or not re.search(r"return\s*;\s*\}\s*$", blk):
        raise Reject("train: the two-class block must call trainBinary and return")
    if re.search(r"setupMcParameters|solveMc|trainOVA|switch", body[:m2.start()] + blk):
        raise Reject("train: multi-class code reachable before/inside the two-class block")
    rest = body[m2.end() - 1 + len(blk):]
    m3 = re.match(r"\s*if\s*\(\s*m_McSvmType\s*==\s*McSvm::OVA\s*\)\s*\{\s*trainOVA\s*\(\s*svm\s*,\s*dataset\s*\)\s*;\s*return\s*;\s*\}", rest)
    if not m3: raise Reject("train: OVA special case not found directly after the two-class block")
    rest = rest[m3.end():]
    m4 = re.search(r"switch\s*\(\s*m_McSvmType\s*\)\s*\{", rest)
    if not m4 or re.search(r"solveMc|return", rest[:m4.start()]): raise Reject("train: switch not found")
    sw = rest[m4.end() - 1:match_braces(rest, m4.end() - 1)]
    cases = {}
    for cm in re.finditer(r"case\s+McSvm::(\w+)\s*:(.*?)break\s*;", sw, flags=re.S):
        name, cb = cm.group(1), cm.group(2)
        if name == "OVA":
            if cb.strip(): raise Reject("train: OVA case of the switch is not empty")
            continue
        mm = re.fullmatch(r"\s*sumToZero\s*=\s*(true|false)\s*;\s*simplex\s*=\s*(true|false)\s*;\s*setupMcParameters(\w+)\s*\(\s*nu\s*,\s*M\s*,\s*classes\s*\)\s*;\s*", cb)
        if not mm: raise Reject(f"train: case {name} not of the form `sumToZero=..; simplex=..; setupMcParametersF(nu,M,classes);`: {cb!r}")
        if mm.group(3) not in FUNCS: raise Reject(f"train: unknown table family {mm.group(3)}")
        cases[name] = (mm.group(3), mm.group(1), mm.group(2))
    if set(cases) | {"OVA"} != set(enum): raise Reject(f"train: switch cases {sorted(cases)} do not cover enum {enum}")
    after = rest[m4.end() - 1 + len(sw):]
    if not re.search(r"if\s*\(\s*simplex\s*\)\s*solveMcSimplex\s*\([^;]*;\s*else\s*solveMcBox\s*\(", after):
        raise Reject("train: `if(simplex) solveMcSimplex(..) else solveMcBox(..)` not found")
    # --- linear trainer
    m = re.search(r"void\s+train\s*\(\s*LinearClassifier<InputType>\s*&\s*model\s*,\s*LabeledData<InputType,\s*unsigned int>\s*const&\s*dataset\s*\)\s*\{", text)
    if not m: raise Reject("LinearCSvmTrainer::train not found")
    lbody = text[m.end() - 1:match_braces(text, m.end() - 1)]
    if not re.search(r"if\s*\(\s*classes\s*==\s*2\s*\)\s*\{\s*trainBinary\s*\(\s*model\s*,\s*dataset\s*\)\s*;\s*return\s*;\s*\}\s*switch\s*\(\s*m_McSvmType\s*\)", lbody):
        raise Reject("LinearCSvmTrainer::train: `if(classes == 2){trainBinary; return;} switch` not found")
    lcases = {}
    for cm in re.finditer(r"case\s+McSvm::(\w+)\s*:(.*?)break\s*;", lbody, flags=re.S):
        name, cb = cm.group(1), re.sub(r"\s+", "", cm.group(2))
        mm = re.fullmatch(r"trainMc<(QpMcLinear\w+)<InputType>>\(model,dataset,classes\);", cb)
        if mm: lcases[name] = mm.group(1)
        elif cb == "trainOVA(model,dataset,classes);": lcases[name] = "OVA"
        else: raise Reject(f"LinearCSvmTrainer::train: case {name}: {cb}")
    if set(lcases) != set(enum): raise Reject(f"LinearCSvmTrainer::train: cases {sorted(lcases)} vs enum {enum}")
    L = ["/-! ### decision logic of `CSvmTrainer::train` and `LinearCSvmTrainer::train` -/",
         "/-- `enum class McSvm` -/",
         "inductive McSvm where", "  " + " ".join(f"| {e}" for e in enum), "  deriving DecidableEq, Repr", "",
         "/-- which solver a training call ends in -/",
         "inductive TrainPath where",
         "  | binary                                              -- trainBinary (CSVMProblem, QpSolver)",
         "  | ova                                                 -- trainOVA: one binary machine per class",
         "  | mc (family : String) (sumToZero simplex : Bool)     -- solveMcBox / solveMcSimplex with the family's nu, M",
         "  deriving DecidableEq, Repr", "",
         "/-- `CSvmTrainer::train(KernelClassifier&, LabeledData const&)` as a function of `numberOfClasses(dataset)` and `m_McSvmType` -/",
         "def dispatch (classes : Nat) (t : McSvm) : TrainPath :=",
         "  if classes = 2 then .binary",
         "  else if t = .OVA then .ova",
         "  else match t with"]
    for e in enum:
        if e == "OVA": L.append("    | .OVA => .ova")
        else:
            f, stz, sx = cases[e]
            L.append(f"    | .{e} => .mc \"{f}\" {stz} {sx}")
    L += ["",
          "/-- the dedicated solver `LinearCSvmTrainer::train` ends in: \"QpBoxLinear\" (binary), \"OVA\" (QpBoxLinear per class) or a `QpMcLinear*` class -/",
          "def linearDispatch (classes : Nat) (t : McSvm) : String :=",
          "  if classes = 2 then \"QpBoxLinear\"",
          "  else match t with"]
    for e in enum:
        L.append(f"    | .{e} => \"{lcases[e]}\"")
    L.append("")
    return L

def main():
    ap = argparse.ArgumentParser(); ap.add_argument("--repo", default="/repo"); ap.add_argument("--out", default=None)
    a = ap.parse_args()
    out = a.out or os.path.join(V, "lean/SharkVerif/Gen/McTables.lean")
    text = strip_comments(open(os.path.join(a.repo, SRC)).read())
    L = ["/- GENERATED by translate/mcsvm_tables.py from include/shark/Algorithms/Trainers/CSvmTrainer.h",
         "   (CSvmTrainer::setupMcParameters{WWCS,ATMATS,ADMLLW,MMR}) on every run — do not edit. -/",
         "import SharkVerif.Model.McSparse",
         "namespace SharkVerif.Gen.McTables",
         "open SharkVerif.Mc",
         "set_option linter.unusedVariables false",
         "variable {α : Type} [Add α] [Sub α] [Mul α] [Div α] [Neg α] [NatCast α] [OfScientific α]",
         ""]
    names = []
    try:
        for f in FUNCS:
            body = extract_function(text, f)
            lines, tables = translate_function(f, body)
            L.append(f"/-! ### setupMcParameters{f} -/")
            L += lines
            names += [b for _, b, _ in tables]
        L += translate_dispatch(text)
    except Reject as e:
        print(f"mcsvm_tables: REJECTED: {e}", file=sys.stderr)
        sys.exit(3)
    L.append("/-- all generated tables by name (for the driver) -/")
    L.append("def table (name : String) (c : Nat) : Option (Sparse α) :=")
    L.append("  match name with")
    for n in names:
        L.append(f"  | \"{n}\" => some ({n} c)")
    L.append("  | _ => none")
    L.append("")
    L.append("end SharkVerif.Gen.McTables")
    new = "\n".join(L) + "\n"
    old = open(out).read() if os.path.exists(out) else None
    if old != new:
        with open(out, "w") as fh:
            fh.write(new)
    print(f"mcsvm_tables: {len(names)} tables ({', '.join(names)}) from {SRC}; {'rewritten' if old != new else 'unchanged'}")


if __name__ == "__main__":
    main()
