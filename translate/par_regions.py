#!/usr/bin/env python3
"""T4 (C20): regenerates lean/SharkVerif/Gen/ParRegions.lean from the C++ source.

1. Thread-range arithmetic: every block of the form
       std::size_t batchesPerThread = E1;  std::size_t leftOver = E2;
       ... std::size_t start = E3;  std::size_t end = E4;
   (ErrorFunction.inl x2, NegativeLogLikelihood.h) becomes Lean definitions over Nat
   plus the obligation `tile_<site>` (ranges are consecutive and cover [0,numBatches)),
   closed by one fixed tactic.
2. Inventory of all parallel regions (SHARK_PARALLEL_FOR / #pragma omp) under include/
   and src/ (remora's own kernels excluded): file, ordinal, normalised-text hash,
   whether it contains a critical section, and a light syntactic classification of what
   the body assigns to.  The inventory is compared with the reviewed table
   translate/par_summaries.json; a region that is new, gone or whose text changed is
   reported on stdout as `UNREVIEWED <file>#<n>` and makes the translator exit 3.
3. Generated access summaries (lean/SharkVerif/Gen/ParSummaries.lean): for every in-scope region the variables
   written in the body are extracted and classified mechanically (local / indexed by the loop variable / indexed by
   the thread id / inside SHARK_CRITICAL_REGION / read-only / shared-and-unprotected); what the token-level
   analysis cannot decide is taken from the reviewed allow-list translate/par_allow.json (entries pinned to the text
   of the callee they talk about).  Each summary carries the obligation `r<k>_race_free`, proved by instantiating
   the generic theorem `summary_race_free`; the inventory of mutable members / const_casts / static locals of
   pluggable components carries `mutable_members_reviewed`.  The extractor runs a self-test on synthetic regions
   on every invocation.  `--propose` prints the undecided accesses as allow-list candidates.
"""
import argparse, hashlib, json, os, re, sys
sys.path.insert(0, os.path.dirname(os.path.abspath(__file__)))
from cexpr import to_lean, ParseError

V = os.path.dirname(os.path.dirname(os.path.abspath(__file__)))
RANGE_FILES = ["include/shark/ObjectiveFunctions/Impl/ErrorFunction.inl",
               "include/shark/ObjectiveFunctions/NegativeLogLikelihood.h"]


def strip_comments(s):
    s = re.sub(r"/\*.*?\*/", " ", s, flags=re.S)
    return re.sub(r"//[^\n]*", "", s)


def match_brace(s, i):
    """s[i] == '{' -> index after the matching '}'"""
    depth = 0
    for j in range(i, len(s)):
        if s[j] == "{": depth += 1
        elif s[j] == "}":
            depth -= 1
            if depth == 0: return j + 1
    raise SystemExit("unbalanced braces")


def regions(text):
    """yield (header, body) of every parallel-for region"""
    t = strip_comments(text)
    for m in re.finditer(r"SHARK_PARALLEL_FOR\s*\(", t):
        # header up to matching ')'
        depth, j = 0, m.end() - 1
        while True:
            if t[j] == "(": depth += 1
            elif t[j] == ")":
                depth -= 1
                if depth == 0: break
            j += 1
        header = t[m.end():j]
        k = j + 1
        while t[k].isspace(): k += 1
        if t[k] == "{":
            e = match_brace(t, k); body = t[k:e]
        else:
            e = t.index(";", k) + 1; body = t[k:e]
        yield header, body


def norm(s):
    return re.sub(r"\s+", " ", s).strip()


def classify(header, body):
    """light syntactic summary of the writes of a region body"""
    loopvar = re.match(r"\s*(?:unsigned\s+)?(?:int|std::size_t|size_t)\s+(\w+)", header)
    lv = loopvar.group(1) if loopvar else "?"
    b = body
    crit = "SHARK_CRITICAL_REGION" in b
    # remove critical blocks for the analysis of unsynchronised writes
    nb = b
    while True:
        m = re.search(r"SHARK_CRITICAL_REGION\s*\{", nb)
        if not m: break
        e = match_brace(nb, m.end() - 1)
        nb = nb[:m.start()] + " " + nb[e:]
    declared = set(re.findall(r"(?:^|[;{}(,])\s*(?:const\s+)?(?:[\w:<>,\s\*&]+?)[\s&\*]+(\w+)\s*(?:=|\(|;|\[)", nb))
    writes = []
    for m in re.finditer(r"([A-Za-z_]\w*)((?:\s*(?:\[[^\]]*\]|\([^()]*(?:\([^()]*\))?[^()]*\)|\.\w+|->\w+))*)\s*(?:[-+*/|&]?=)(?!=)", nb):
        base, rest = m.group(1), norm(m.group(2))
        if base in declared or base in ("int", "double", "auto", "std", "size_t", "noalias"):
            if base != "noalias":
                continue
            inner = re.match(r"\(\s*(\w+)", rest)
            base = inner.group(1) if inner else base
            if base in declared: continue
        indexed = lv in re.findall(r"\w+", rest) or "SHARK_THREAD_NUM" in rest
        writes.append((base + rest, "indexed-by-iteration" if indexed else "SHARED-UNINDEXED"))
    return {"loopvar": lv, "critical": crit, "unsync_writes": writes}


# ---------------------------------------------------------------------------------------------
# mechanical extraction of the written variables of a region body
# ---------------------------------------------------------------------------------------------
KEYWORDS = {"if", "for", "while", "return", "else", "continue", "break", "switch", "case", "do", "sizeof", "new", "delete",
            "typename", "const", "auto", "static_cast", "int", "double", "unsigned", "bool", "std", "size_t", "template"}
WRAPPERS = {"noalias", "row", "column", "subrange", "trans", "diag", "columns", "rows"}
NOT_TYPES = {"return", "else", "delete", "new", "case", "goto", "using", "throw"}
DECL = re.compile(r"(?:^|(?<=[;{}(]))\s*((?:const\s+)?(?:typename\s+)?[A-Za-z_][\w:]*(?:\s*<[^;{}]*?>)?(?:::\w+)*(?:\s+const)?\s*[&*]?)\s*"
                  r"\b([A-Za-z_]\w*)\s*(=|\(|;|\{|:)")


def strip_critical(body):
    nb, crit = body, []
    while True:
        m = re.search(r"SHARK_CRITICAL_REGION\s*\{", nb)
        if not m: break
        e = match_brace(nb, m.end() - 1)
        crit.append(nb[m.end():e - 1])
        nb = nb[:m.start()] + " ; " + nb[e:]
    return nb, crit


def initializer(text, pos):
    """text of the initialiser starting at pos up to the ';' (or ')' closing a for-header / ':' of a range-for) at depth 0"""
    depth = 0
    for j in range(pos, len(text)):
        c = text[j]
        if c in "([{": depth += 1
        elif c in ")]}":
            if depth == 0: return text[pos:j]
            depth -= 1
        elif c == ";" and depth == 0:
            return text[pos:j]
    return text[pos:]


def idents(t):
    return set(re.findall(r"[A-Za-z_]\w*", t))


def root_of(lhs):
    """(root identifier, index/selector text) of an lvalue expression"""
    toks = re.findall(r"[A-Za-z_]\w*", lhs)
    toks = [t for t in toks if t not in WRAPPERS]
    if not toks: return None, ""
    root = toks[0]
    return root, lhs


def call_args(text, open_pos):
    """text between the parenthesis at open_pos and its match"""
    depth = 0
    for j in range(open_pos, len(text)):
        if text[j] == "(": depth += 1
        elif text[j] == ")":
            depth -= 1
            if depth == 0: return text[open_pos + 1:j]
    return text[open_pos + 1:]


def split_top(args):
    out, depth, cur = [], 0, ""
    for c in args:
        if c in "([{<" and not (c == "<" and False): depth += 1 if c != "<" else 0
        if c in ")]}": depth -= 1
        if c == "," and depth == 0:
            out.append(cur); cur = ""
        else:
            cur += c
    if cur.strip(): out.append(cur)
    return out


def shared_args(args, decls, lv):
    """shared variables handed to a callee as a whole (`x`, `*x`, `*x[i]`, `x[i]`): the callee could write through them"""
    res = []
    for a in split_top(args):
        m = re.fullmatch(r"\s*\*?\s*([A-Za-z_]\w*)\s*(?:\[[^\]]*\])?\s*", a)
        if not m: continue
        n = m.group(1)
        if n in decls or n == lv or n in KEYWORDS or re.fullmatch(r"[A-Z_0-9]+", n): continue
        if n not in res: res.append(n)
    return res


def extract(header, body, allow, rid, pure, const_methods, used):
    """summary of a region: list of {var, access, class, why}"""
    lvm = re.match(r"\s*(?:unsigned\s+)?(?:int|std::size_t|size_t)\s+(\w+)", header)
    lv = lvm.group(1) if lvm else "?"
    nb, crit = strip_critical(body)
    # --- declarations inside the body (incl. the critical blocks: a local declared there is local)
    decls = {}
    for m in DECL.finditer(nb):
        typ, name = norm(m.group(1)), m.group(2)
        if typ.split()[0] in NOT_TYPES or name in KEYWORDS or typ in ("else",): continue
        init = initializer(nb, m.end() - 1) if m.group(3) != ";" else ""
        const_alias = ("&" in typ or "*" in typ) and "const" in typ
        alias = (not const_alias) and ("&" in typ or "*" in typ or typ.endswith("iterator") or
                                       (typ.startswith("auto") and re.search(r"\.begin\(\)|^\s*=\s*&", init) is not None))
        decls.setdefault(name, {"type": typ, "init": init, "alias": alias, "const_alias": const_alias})
    # --- taint by the loop variable / the thread id (fixpoint over the local initialisers)
    it, th = {lv}, set()
    changed = True
    while changed:
        changed = False
        for n, d in decls.items():
            ids = idents(d["init"])
            if n not in it and ids & it: it.add(n); changed = True
            if n not in th and ("SHARK_THREAD_NUM" in ids or ids & th): th.add(n); changed = True
    out, seen = [], set()

    def emit(var, access, cls, why):
        k = (var, norm(access), cls)
        if k in seen: return
        seen.add(k); out.append({"var": var, "access": norm(access)[:90], "class": cls, "why": why})

    def allowed(access):
        a = allow.get((rid, norm(access))) or allow.get(("*", norm(access)))
        if a: used.add((a["region"], a["access"]))
        return a

    def classify_write(rootname, access, in_crit):
        d = decls.get(rootname)
        if d and not d["alias"]:
            if d["const_alias"]:
                emit(rootname, access, "shared", "write through a const alias?"); return
            emit(rootname, access, "local", "declared inside the region body"); return
        if in_crit:
            emit(rootname, access, "critical", "inside SHARK_CRITICAL_REGION"); return
        ids = idents(access)
        if d and d["alias"] and not re.search(r"->|\*|\[|\(", access.replace("++", "").replace("--", "")):
            emit(rootname, access, "local", "the region-local iterator/pointer itself is moved"); return
        if d and d["alias"]:
            targets = sorted(x for x in idents(d["init"]) if x not in decls and x not in KEYWORDS and not re.match(r"^(begin|end|std)$", x))
            tname = (targets[0] if targets else rootname) + "<-" + rootname
            if rootname in th: emit(tname, access, "threadIndexed", "alias into a shared container derived from SHARK_THREAD_NUM"); return
            if rootname in it:
                a = allowed(access)
                if a and a["verdict"] == "iter-indexed": emit(tname, access, "iterIndexed", "allow-list: " + a["reason"]); return
                emit(tname, access, "shared", "alias derived from the loop variable; injectivity not decidable (needs allow entry)"); return
            emit(tname, access, "shared", "alias into shared storage, not indexed by iteration or thread"); return
        if lv in ids:
            emit(rootname, access, "iterIndexed", "selector contains the loop variable"); return
        if ids & th or "SHARK_THREAD_NUM" in ids:
            emit(rootname, access, "threadIndexed", "selector derived from SHARK_THREAD_NUM"); return
        if ids & it:
            a = allowed(access)
            if a and a["verdict"] == "iter-indexed": emit(rootname, access, "iterIndexed", "allow-list: " + a["reason"]); return
            emit(rootname, access, "shared", "selector derived from the loop variable through locals; injectivity not decidable (needs allow entry)"); return
        a = allowed(access)
        if a and a["verdict"] == "read-only": emit(rootname, access, "readOnly", "allow-list: " + a["reason"]); return
        emit(rootname, access, "shared", "shared variable written without protection")

    def scan(text, in_crit):
        # assignments
        for m in re.finditer(r"(?<![=!<>+\-*/|&%^])([-+*/|&%^]?=)(?![=])", text):
            j = m.start() - 1; depth = 0
            while j >= 0:
                c = text[j]
                if c in ")]": depth += 1
                elif c in "([":
                    if depth == 0: break
                    depth -= 1
                elif c in ";{}" and depth == 0: break
                elif c == "," and depth == 0: break
                j -= 1
            lhs = text[j + 1:m.start()].strip()
            if not lhs: continue
            dm = DECL.match(lhs + " =")
            if dm and norm(dm.group(1)).split()[0] not in NOT_TYPES:      # a declaration with initialiser
                continue
            root, sel = root_of(lhs)
            if root is None or root in KEYWORDS: continue
            classify_write(root, lhs + (" " + m.group(1) if in_crit else ""), in_crit)
        for m in re.finditer(r"(?:\+\+|--)\s*([A-Za-z_]\w*(?:(?:->|\.)\w+)*)|([A-Za-z_]\w*(?:(?:->|\.)\w+)*)\s*(?:\+\+|--)", text):
            e = m.group(1) or m.group(2); root = re.match(r"\w+", e).group(0)
            if root == lv or root in KEYWORDS: continue
            classify_write(root, e + "++", in_crit)
        # method calls on objects that are not region-local values
        for m in re.finditer(r"(\(\s*\*\s*([A-Za-z_]\w*)\s*\)|([A-Za-z_]\w*))\s*(?:\(\s*\))?\s*(\.|->)\s*([A-Za-z_]\w*)\s*\(", text):
            obj = m.group(2) or m.group(3); meth = m.group(5)
            if obj in KEYWORDS or obj == "std": continue
            d = decls.get(obj)
            if d and not d["alias"] and not d["const_alias"]:
                continue                                    # method of a region-local value
            if d and d["const_alias"]:
                continue                                    # through a const reference
            sa = shared_args(call_args(text, m.end() - 1), decls, lv)
            acc = f"{obj}{m.group(4)}{meth}(...)" + (f" [shared args: {','.join(sa)}]" if sa else "")
            if meth in const_methods and not sa:
                emit(obj, acc, "readOnly", "const method: " + const_methods[meth]); continue
            if in_crit:
                emit(obj, acc, "critical", "inside SHARK_CRITICAL_REGION"); continue
            a = allowed(acc)
            if a and a["verdict"] == "read-only": emit(obj, acc, "readOnly", "allow-list: " + a["reason"]); continue
            if a and a["verdict"] == "thread-indexed": emit(obj, acc, "threadIndexed", "allow-list: " + a["reason"]); continue
            emit(obj, acc, "shared", "call of a method not known to be const on a shared object (needs allow entry)")
        # free functions / functors called in the region
        for m in re.finditer(r"(?<![\w.>:])((?:[A-Za-z_]\w*::)*[A-Za-z_]\w*)\s*\(", text):
            fn = m.group(1)
            base = fn.split("::")[-1]
            if fn in KEYWORDS or base in KEYWORDS or fn in WRAPPERS or fn in pure or base == lv: continue
            if re.match(r"^(SHARK_\w+)$", fn): continue
            pre = text[:m.start()].rstrip()
            if pre.endswith((".", "->")): continue          # method call, handled above
            d = decls.get(fn)
            if d is not None and not d["alias"]: continue    # constructor-style declaration / local functor
            if DECL.match(";" + text[max(0, m.start() - 60):m.end()][-(len(fn) + 61):]) and False: pass
            # `Type name(args)` declarations: the callee token is the declared name
            if fn in decls: continue
            tm = re.search(r"([A-Za-z_][\w:]*(?:<[^;{}]*?>)?)\s*$", pre)
            sa = shared_args(call_args(text, m.end() - 1), decls, lv)
            acc = f"{fn}(...)" + (f" [shared args: {','.join(sa)}]" if sa else "")
            if in_crit:
                emit(fn, acc, "critical", "inside SHARK_CRITICAL_REGION"); continue
            if fn in pure and False: continue
            a = allowed(acc)
            if a and a["verdict"] == "read-only": emit(fn, acc, "readOnly", "allow-list: " + a["reason"]); continue
            if a and a["verdict"] == "thread-indexed": emit(fn, acc, "threadIndexed", "allow-list: " + a["reason"]); continue
            if a and a["verdict"] == "iter-indexed": emit(fn, acc, "iterIndexed", "allow-list: " + a["reason"]); continue
            if a and a["verdict"] == "local": emit(fn, acc, "local", "allow-list: " + a["reason"]); continue
            emit(fn, acc, "shared", "call whose effect on shared state the extractor cannot decide (needs allow entry)")

    for m in re.finditer(r"\b(?:static|thread_local)\s+(?!_cast)[^;=(){}]*?\b([A-Za-z_]\w*)\s*(?:=|;|\(|\{)", nb + " ".join(crit)):
        if "static_cast" in m.group(0): continue
        emit(m.group(1), "static local " + m.group(1), "shared", "a function-local static is one object shared by all threads")
    scan(nb, False)
    for c in crit:
        if "SHARK_CRITICAL_REGION" in c or "SHARK_PARALLEL_FOR" in c:
            emit("<nested>", "nested critical/parallel region", "shared", "nested critical sections on the one global lock would deadlock")
        scan(c, True)
    return {"loopvar": lv, "critical": bool(crit), "vars": out,
            "locals": sorted(decls), "iter_derived": sorted(it - {lv}), "thread_derived": sorted(th)}


def region_kind(sm):
    """which theorem family a summarised region falls under, from the extracted accesses alone"""
    crit = [v for v in sm["vars"] if v["class"] == "critical"]
    if any(v["class"] == "threadIndexed" for v in sm["vars"]): return "thread-indexed"
    if not crit: return "disjoint"
    assigns = [v for v in crit if not v["access"].endswith("(...)") and "(...) [" not in v["access"]]
    calls = [v for v in crit if v not in assigns]
    if any(not v["access"].endswith("+=") for v in assigns):
        return "critical-overwrite"              # `x = v` under the lock: last writer wins, schedule dependent — no theorem
    if calls: return "critical-collect"          # container growth (push_back / emplace_back / addModel): commute up to permutation
    return "critical-reduction"                  # only `acc += x` under the lock: commuting updates


def block_hash(repo, file, anchor):
    try:
        t = strip_comments(open(os.path.join(repo, file), errors="replace").read())
    except OSError:
        return "missing"
    m = re.search(anchor, t)
    if not m: return "anchor-not-found"
    k = t.find("{", m.end())
    if k < 0: return "anchor-not-found"
    return hashlib.sha256(norm(t[m.start():match_brace(t, k)]).encode()).hexdigest()[:16]


MUTABLE_DIRS = ["include/shark/Models", "include/shark/ObjectiveFunctions/Loss", "include/shark/Algorithms/DirectSearch/Operators/Hypervolume",
                "include/shark/Algorithms/NearestNeighbors", "include/shark/LinAlg", "include/shark/Core/utility", "include/shark/Algorithms/Trainers/Impl"]


def mutable_inventory(repo, dirs=None):
    """`mutable` members, `const_cast`s and static data (function-local or class-level) in the headers below `dirs`
    (directories or single files, relative to the repo; default: the component families of C20)"""
    res = []
    for d in (MUTABLE_DIRS if dirs is None else dirs):
        full = os.path.join(repo, d)
        walk = [(os.path.dirname(full), [], [os.path.basename(full)])] if os.path.isfile(full) else os.walk(full)
        for dp, dn, fn in walk:
            if "LinAlg/BLAS" in dp: continue
            for x in sorted(fn):
                if not x.endswith((".h", ".hpp", ".inl", ".tpp")): continue
                p = os.path.join(dp, x); rel = os.path.relpath(p, repo)
                for line in strip_comments(open(p, errors="replace").read()).splitlines():
                    if re.search(r"\bmutable\b|\bconst_cast\b|\bstatic\s+(?!const|inline|constexpr|bool\s+\w+\(|[\w:<>\s\*&]+\()[\w:<>]+\s+\w+\s*[;=]", line):
                        res.append({"file": rel, "decl": norm(line)})
    res.sort(key=lambda r: (r["file"], r["decl"]))
    return res


def lean_str(x):
    return '"' + x.replace("\\", "\\\\").replace('"', '\\"') + '"'


# ---------------------------------------------------------------------------------------------
# self-test of the extractor on synthetic regions (run on every invocation: a regression of the
# token-level analysis must not silently turn shared writes into local ones)
# ---------------------------------------------------------------------------------------------
SELFTEST = [
    # (header, body, {variable-prefix: expected class})
    ("int i = 0; i < n; ++i", "{ tmp = f(i); out[i] = tmp; }", {"tmp": "shared", "out": "iterIndexed"}),
    ("int i = 0; i < n; ++i", "{ double tmp = g(i); out[i] = tmp; }", {"tmp": None, "out": "iterIndexed"}),
    ("int i = 0; i < n; ++i", "{ double v = h(i); SHARK_CRITICAL_REGION{ acc += v; list.push_back(v); } }", {"acc": "critical", "list": "critical"}),
    ("int b = 0; b < nb; ++b", "{ std::size_t slot = p*T+SHARK_THREAD_NUM; heaps[slot] = 1; }", {"heaps": "threadIndexed"}),
    ("int i = 0; i < n; ++i", "{ double* q = &buf[0]; *q = 1.0; }", {"buf<-q": "shared"}),
    ("int i = 0; i < n; ++i", "{ std::size_t s = start[i]; noalias(subrange(m(),s,s+1)) = x; }", {"m": "shared"}),
    ("int i = 0; i < n; ++i", "{ m_counter++; out[i] = 0; }", {"m_counter": "shared"}),
    ("int i = 0; i < n; ++i", "{ model->eval(in[i], out2, *state); }", {"model": "shared"}),
    ("int i = 0; i < n; ++i", "{ boost::shared_ptr<State> state = model->createState(); RealMatrix out2; scratch.resize(3); }", {"scratch": "shared"}),
    ("int i = 0; i < n; ++i", "{ SHARK_CRITICAL_REGION{ SHARK_CRITICAL_REGION{ a += 1; } } }", {"<nested>": "shared"}),
    ("int i = 0; i < n; ++i", "{ static std::vector<double> tmp; tmp.resize(3); out[i] = 0; }", {"tmp": "shared"}),
    ("int i = 0; i < n; ++i", "{ std::size_t t = static_cast<std::size_t>(i); out[t] = 0; }", {"out": "shared"}),
]


KIND_SELFTEST = [
    ("int i = 0; i < n; ++i", "{ double v = h(i); SHARK_CRITICAL_REGION{ acc += v; noalias(der) += w; } }", "critical-reduction"),
    ("int i = 0; i < n; ++i", "{ double v = h(i); SHARK_CRITICAL_REGION{ best = v; } }", "critical-overwrite"),
    ("int i = 0; i < n; ++i", "{ double v = h(i); SHARK_CRITICAL_REGION{ res.emplace_back(v,i); } }", "critical-collect"),
    ("int i = 0; i < n; ++i", "{ out[i] = h(i); }", "disjoint"),
]


def extractor_selftest():
    bad = []
    for k, (h, b, want) in enumerate(KIND_SELFTEST):
        got = region_kind(extract(h, b, {}, f"kindtest#{k}", {"h": ""}, {}, set()))
        if got != want: bad.append(f"kindtest#{k}: expected kind {want}, got {got}")
    for k, (h, b, want) in enumerate(SELFTEST):
        got = extract(h, b, {}, f"selftest#{k}", {"f": "", "g": "", "h": ""}, {"createState": "const factory"}, set())
        for var, cls in want.items():
            rows = [v for v in got["vars"] if v["var"] == var or v["var"].startswith(var + " ") or v["var"] == var]
            if cls is None:
                if any(v["class"] == "shared" for v in rows): bad.append(f"selftest#{k}: {var} must not be shared: {rows}")
            elif not any(v["class"] == cls for v in rows):
                bad.append(f"selftest#{k}: expected {var} -> {cls}, got {[(v['var'], v['access'], v['class']) for v in got['vars']]}")
    return bad


def main():
    ap = argparse.ArgumentParser(); ap.add_argument("--repo", default="/repo"); ap.add_argument("--out", default=None); ap.add_argument("--propose", action="store_true")
    a = ap.parse_args()
    st = extractor_selftest()
    if st:
        print("\n".join(st))
        raise SystemExit("par_regions: extractor self-test failed")
    out = a.out or os.path.join(V, "lean/SharkVerif/Gen/ParRegions.lean")
    L = ["/- GENERATED by translate/par_regions.py from the C++ source on every run — do not edit. -/",
         "namespace SharkVerif.Gen.ParRegions", ""]
    # ---- 1. thread ranges
    sites = 0
    for f in RANGE_FILES:
        t = strip_comments(open(os.path.join(a.repo, f)).read())
        pat = re.compile(r"std::size_t\s+batchesPerThread\s*=\s*([^;]+);\s*std::size_t\s+leftOver\s*=\s*([^;]+);"
                         r"(.*?)std::size_t\s+start\s*=\s*([^;]+);\s*std::size_t\s+end\s*=\s*([^;]+);", re.S)
        for m in pat.finditer(t):
            sites += 1
            try:
                bpt, i1 = to_lean(m.group(1)); lo, i2 = to_lean(m.group(2))
                st, i3 = to_lean(m.group(4)); en, i4 = to_lean(m.group(5))
            except ParseError as e:
                raise SystemExit(f"par_regions: cannot translate range arithmetic in {f}: {e}")
            allowed = {"numBatches", "numThreads", "batchesPerThread", "leftOver", "t"}
            bad = set(i1 + i2 + i3 + i4) - allowed
            if bad:
                raise SystemExit(f"par_regions: unexpected identifiers {bad} in range arithmetic of {f}")
            ns = f"Site{sites}"
            L += [f"/- {f}, occurrence {sites}: `batchesPerThread = {norm(m.group(1))}`, `leftOver = {norm(m.group(2))}`,",
                  f"`start = {norm(m.group(4))}`, `end = {norm(m.group(5))}` -/",
                  f"namespace {ns}",
                  f"def batchesPerThread (numBatches numThreads : Nat) : Nat := {bpt}",
                  f"def leftOver (numBatches numThreads : Nat) : Nat :=",
                  f"  let batchesPerThread := batchesPerThread numBatches numThreads",
                  f"  {lo}",
                  f"def start (numBatches numThreads t : Nat) : Nat :=",
                  f"  let batchesPerThread := batchesPerThread numBatches numThreads",
                  f"  let leftOver := leftOver numBatches numThreads",
                  f"  {st}",
                  f"def stop (numBatches numThreads t : Nat) : Nat :=",
                  f"  let batchesPerThread := batchesPerThread numBatches numThreads",
                  f"  let leftOver := leftOver numBatches numThreads",
                  f"  {en}",
                  f"end {ns}",
                  f"/-- obligation: the thread ranges of site {sites} are consecutive and tile `[0, numBatches)` -/",
                  f"theorem tile_{ns} (B T : Nat) (hT : 1 ≤ T) :",
                  f"    {ns}.start B T 0 = 0 ∧ {ns}.stop B T (T-1) = B ∧",
                  f"    (∀ t, {ns}.stop B T t = {ns}.start B T (t+1)) ∧ (∀ t, {ns}.start B T t ≤ {ns}.stop B T t) := by",
                  f"  have h0 := Nat.div_add_mod B T",
                  f"  have h1 := Nat.mod_lt B (show T > 0 by omega)",
                  f"  have hs : T - 1 + 1 = T := by omega",
                  f"  refine ⟨?_, ?_, ?_, ?_⟩",
                  f"  · simp [{ns}.start]",
                  f"  · simp only [{ns}.stop, {ns}.leftOver, {ns}.batchesPerThread, hs]",
                  f"    generalize B / T = q at *",
                  f"    have hc : q * T = T * q := Nat.mul_comm _ _",
                  f"    rw [hc]; omega",
                  f"  · intro t; rfl",
                  f"  · intro t",
                  f"    simp only [{ns}.start, {ns}.stop, {ns}.leftOver, {ns}.batchesPerThread]",
                  f"    generalize B / T = q at *",
                  f"    rw [Nat.add_mul, Nat.one_mul]",
                  f"    omega",
                  ""]
    if sites == 0:
        raise SystemExit("par_regions: no thread-range arithmetic found (source layout changed)")
    L += [f"def numSites : Nat := {sites}", ""]
    # ---- 2. inventory
    inv = []
    for root in ("include", "src"):
        for dp, dn, fn in os.walk(os.path.join(a.repo, root)):
            if "LinAlg/BLAS" in dp: continue
            for x in sorted(fn):
                if not x.endswith((".h", ".hpp", ".inl", ".cpp", ".tpp")): continue
                p = os.path.join(dp, x); rel = os.path.relpath(p, a.repo)
                if rel == "include/shark/Core/OpenMP.h": continue
                txt = open(p, errors="replace").read()
                if "SHARK_PARALLEL_FOR" not in txt and "pragma omp" not in txt: continue
                if re.search(r"#\s*pragma\s+omp", strip_comments(txt)):
                    inv.append({"id": rel + "#pragma", "hash": hashlib.sha256(norm(strip_comments(txt)).encode()).hexdigest()[:16],
                                "summary": {"raw_pragma": True}})
                for n, (h, b) in enumerate(regions(txt), 1):
                    inv.append({"id": f"{rel}#{n}", "hash": hashlib.sha256(norm(h + b).encode()).hexdigest()[:16],
                                "summary": classify(h, b)})
    inv.sort(key=lambda r: r["id"])
    # ---- 3. generated access summaries
    allow_path = os.path.join(V, "translate", "par_allow.json")
    aj = json.load(open(allow_path)) if os.path.exists(allow_path) else {"entries": [], "pure_functions": {}, "const_methods": {}, "mutable_members": []}
    allow = {}
    stale = []
    for e in aj["entries"]:
        okdep = True
        for dpd in e.get("depends", []):
            h = block_hash(a.repo, dpd["file"], dpd["anchor"])
            if h != dpd["hash"]:
                okdep = False; stale.append(f'{e["region"]} | {e["access"]} (callee {dpd["file"]} changed: {h})')
        if okdep:
            allow[(e["region"], norm(e["access"]))] = e
    used = set()
    bodies = {}
    for root in ("include", "src"):
        for dp, dn, fn in os.walk(os.path.join(a.repo, root)):
            if "LinAlg/BLAS" in dp: continue
            for x in sorted(fn):
                if not x.endswith((".h", ".hpp", ".inl", ".cpp", ".tpp")): continue
                pth = os.path.join(dp, x); rel = os.path.relpath(pth, a.repo)
                if rel == "include/shark/Core/OpenMP.h": continue
                txt = open(pth, errors="replace").read()
                if "SHARK_PARALLEL_FOR" not in txt: continue
                for n, (h, b) in enumerate(regions(txt), 1):
                    bodies[f"{rel}#{n}"] = (h, b)
    table1 = {r["id"]: r for r in json.load(open(os.path.join(V, "translate", "par_summaries.json")))["regions"]}
    for r in inv:
        r["class"] = table1.get(r["id"], {}).get("class", "UNREVIEWED")
        if r["id"] in bodies and table1.get(r["id"], {}).get("class") != "out-of-scope":
            h, b = bodies[r["id"]]
            r["summary"] = extract(h, b, allow, r["id"], aj.get("pure_functions", {}), aj.get("const_methods", {}), used)
    # mechanical kind of every summarised region, compared with the reviewed class (which names the theorem it falls under)
    kind_mismatch = []
    for r in inv:
        sm = r.get("summary")
        if not sm or "vars" not in sm: continue
        crit = [v for v in sm["vars"] if v["class"] == "critical"]
        kind = region_kind(sm)
        sm["kind"] = kind
        if r.get("class") not in (kind, "UNREVIEWED"):
            kind_mismatch.append(f'{r["id"]}: extracted kind {kind}, reviewed class {r.get("class")}')
    muts = mutable_inventory(a.repo)
    reviewed_mut = {(m["file"], norm(m["decl"])) for m in aj.get("mutable_members", [])}
    if a.propose:
        prop = []
        for r in inv:
            for v in r.get("summary", {}).get("vars", []):
                if v["class"] == "shared":
                    prop.append({"region": r["id"], "access": v["access"], "verdict": "?", "reason": v["why"]})
        json.dump({"undecided": prop, "mutable": [m for m in muts if (m["file"], m["decl"]) not in reviewed_mut]}, sys.stdout, indent=1)
        print()
    table_path = os.path.join(V, "translate", "par_summaries.json")
    table = {r["id"]: r for r in json.load(open(table_path))["regions"]} if os.path.exists(table_path) else {}
    unrev = []
    for r in inv:
        tr = table.get(r["id"])
        if tr is None or tr["hash"] != r["hash"]:
            unrev.append(r["id"])
    gone = sorted(set(table) - {r["id"] for r in inv})
    L += ["/-- inventory of parallel regions: (id, text hash, class) -/",
          "def regions : List (String × String × String) := ["]
    rows = []
    for r in inv:
        cls = table.get(r["id"], {}).get("class", "UNREVIEWED")
        rows.append(f'  ("{r["id"]}", "{r["hash"]}", "{cls}")')
    L += [",\n".join(rows), "]", "", "end SharkVerif.Gen.ParRegions", ""]
    # ---- Gen/ParSummaries.lean
    table0 = {r["id"]: r for r in json.load(open(table_path))["regions"]} if os.path.exists(table_path) else {}
    S = ["/- GENERATED by translate/par_regions.py from the C++ source on every run — do not edit.",
         "   One access summary per SHARK_PARALLEL_FOR region (variables written in the body, classified mechanically;",
         "   `readOnly` entries whose reason starts with `allow-list:` come from the reviewed translate/par_allow.json)",
         "   and its race-freedom obligation, discharged by the generic theorem `summary_race_free`. -/",
         "import SharkVerif.Lemmas.ParSummary", "namespace SharkVerif.Gen.ParSummaries", "open SharkVerif.Par", ""]
    k = 0
    for r in inv:
        sm = r.get("summary")
        if not sm or "vars" not in sm: continue
        k += 1
        cls = table0.get(r["id"], {}).get("class", "UNREVIEWED")
        r["class"] = cls
        S += [f"/-- {r['id']} (loop variable `{sm['loopvar']}`, reviewed class: {cls}) -/",
              f"def r{k} : Summary := {{ id := {lean_str(r['id'])}, hash := {lean_str(r['hash'])}, vars := ["]
        rows = [f"    ({lean_str(v['var'] + ' @ ' + v['access'])}, WClass.{v['class']})  -- {v['why'][:110]}" for v in sm["vars"]]
        S += [",\n".join(x.split("  -- ")[0] + ("" if False else "") for x in rows) if False else
              "\n".join((x.split("  -- ")[0] + ("," if i + 1 < len(rows) else "") + "  -- " + x.split("  -- ")[1]) for i, x in enumerate(rows))]
        S += ["  ] }",
              f"theorem r{k}_race_free : RaceFree r{k} := summary_race_free r{k} (by decide)", ""]
    S += ["/-- `mutable` members, `const_cast`s and function-local statics of the component families that can be plugged into a",
          "parallel region (models, kernels, losses, hypervolume algorithms, kernel matrices): each must be reviewed -/",
          "def mutableMembers : List MutableMember := ["]
    S += [",\n".join(f"  {{ file := {lean_str(m['file'])}, decl := {lean_str(m['decl'][:160])}, reviewed := {'true' if (m['file'], m['decl']) in reviewed_mut else 'false'} }}" for m in muts)]
    S += ["]", "theorem mutable_members_reviewed : (mutableMembers.filter fun m => !m.reviewed) = [] := by decide", "",
          f"def numSummaries : Nat := {k}", "", "end SharkVerif.Gen.ParSummaries", ""]
    out2 = os.path.join(os.path.dirname(out), "ParSummaries.lean")
    news = "\n".join(S)
    if not os.path.exists(out2) or open(out2).read() != news:
        open(out2, "w").write(news)
    nshared = sum(1 for r in inv for v in r.get("summary", {}).get("vars", []) if v["class"] == "shared")
    unrev_mut = [m for m in muts if (m["file"], m["decl"]) not in reviewed_mut]
    new = "\n".join(L)
    if not os.path.exists(out) or open(out).read() != new:
        open(out, "w").write(new)
    json.dump({"regions": inv, "allow_used": len(used), "mutable_members": len(muts), "stale_allow": stale}, open(os.path.join(V, ".cache", "par_inventory.json"), "w"), indent=1) if os.path.isdir(os.path.join(V, ".cache")) else None
    print(f"par_regions: {sites} thread-range sites, {len(inv)} parallel regions, {len(unrev)} unreviewed, {len(gone)} gone")
    print(f"par_regions: {k} generated summaries, {nshared} shared-unprotected accesses, {len(used)} allow entries used, "
          f"{len(stale)} stale allow entries, {len(muts)} mutable members ({len(unrev_mut)} unreviewed)")
    for km in kind_mismatch: print("KIND-MISMATCH", km)
    for st in stale: print("STALE-ALLOW", st)
    for m in unrev_mut: print("UNREVIEWED-MUTABLE", m["file"], m["decl"])
    for r in inv:
        for v in r.get("summary", {}).get("vars", []):
            if v["class"] == "shared": print("SHARED-UNPROTECTED", r["id"], "|", v["access"], "|", v["why"])
    for u in unrev: print("UNREVIEWED", u)
    for g in gone: print("GONE", g)
    sys.exit(3 if (unrev or gone or kind_mismatch) else 0)


if __name__ == "__main__":
    main()
