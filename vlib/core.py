"""Orchestrator shared by all property checks (see DESIGN.md §2, §5).

A check script (checks/cXX.py) defines `run(ctx)`; `./check CXX --tier quick`
creates the Ctx, calls it and finishes with evidence + exit status.
"""
import fcntl, hashlib, json, os, re, subprocess, sys, time, shutil

VERIF = os.path.dirname(os.path.dirname(os.path.abspath(__file__)))
REPO = os.environ.get("VERIF_REPO", "/repo")
CACHE = os.path.join(VERIF, ".cache")
LEAN = os.path.join(VERIF, "lean")
GUARD = "SHARK_ML_SHARK_VERIF"

ALLOWED_AXIOMS = {"propext", "Classical.choice", "Quot.sound"}
FORBIDDEN_RE = re.compile(
    r"\bsorry\b|\badmit\b|^\s*axiom\s|\bnative_decide\b|\bbv_decide\b|implemented_by|\bunsafe\s|maxHeartbeats\s+0\b",
    re.M)


def sh(cmd, cwd=None, timeout=None, input=None, env=None):
    """run a command, return (rc, stdout+stderr)"""
    p = subprocess.run(cmd, cwd=cwd, timeout=timeout, input=input, env=env,
                       stdout=subprocess.PIPE, stderr=subprocess.STDOUT,
                       shell=isinstance(cmd, str), text=True, errors="replace")
    return p.returncode, p.stdout


def sha(data):
    if isinstance(data, str):
        data = data.encode()
    return hashlib.sha256(data).hexdigest()


def file_sha(path):
    try:
        with open(path, "rb") as f:
            return hashlib.sha256(f.read()).hexdigest()
    except OSError:
        return "missing"


class SplitMix64:
    """the single PRNG every generator derives its choices from"""
    M = (1 << 64) - 1

    def __init__(self, seed):
        self.s = seed & self.M

    def next(self):
        self.s = (self.s + 0x9E3779B97F4A7C15) & self.M
        z = self.s
        z = ((z ^ (z >> 30)) * 0xBF58476D1CE4E5B9) & self.M
        z = ((z ^ (z >> 27)) * 0x94D049BB133111EB) & self.M
        return z ^ (z >> 31)

    def below(self, n):
        return self.next() % n if n > 0 else 0

    def range(self, lo, hi):
        """inclusive"""
        return lo + self.below(hi - lo + 1)

    def choice(self, xs):
        return xs[self.below(len(xs))]

    def chance(self, num, den):
        return self.below(den) < num

    def fork(self, tag):
        return SplitMix64(self.next() ^ int(sha(str(tag))[:16], 16))


class lock:
    """file lock around lake invocations (several checks may run at once)"""

    def __init__(self, name):
        os.makedirs(CACHE, exist_ok=True)
        self.path = os.path.join(CACHE, name + ".lock")

    def __enter__(self):
        self.f = open(self.path, "w")
        fcntl.flock(self.f, fcntl.LOCK_EX)

    def __exit__(self, *a):
        fcntl.flock(self.f, fcntl.LOCK_UN)
        self.f.close()


def strip_lean_comments(src):
    out, i, depth, n = [], 0, 0, len(src)
    while i < n:
        if src.startswith("/-", i):
            depth += 1; i += 2; continue
        if depth and src.startswith("-/", i):
            depth -= 1; i += 2; continue
        if depth:
            if src[i] == "\n": out.append("\n")
            i += 1; continue
        if src.startswith("--", i):
            while i < n and src[i] != "\n": i += 1
            continue
        if src[i] == '"':  # string literal
            j = i + 1
            while j < n and src[j] != '"':
                j += 2 if src[j] == "\\" else 1
            out.append('""'); i = j + 1; continue
        out.append(src[i]); i += 1
    return "".join(out)


class Ctx:
    def __init__(self, pid, tier, seed):
        self.pid, self.tier, self.seed = pid, tier, seed
        self.t0 = time.time()
        self.rng = SplitMix64(seed)
        self.breaks = []        # broken obligations / correspondences: dict(kind,name,detail)
        self.violations = []    # (replay_path, found_input: bool)
        self.known_hits = []
        self.obligations = []   # names of theorems checked
        self.discharged = 0
        self.axioms = {}
        self.cov = {"samples": []}
        self.assumptions = []
        self.trusted = ["Lean 4.33.0 kernel"]
        self.log_lines = []
        self.findings = self._load_findings()
        os.makedirs(CACHE, exist_ok=True)
        os.makedirs(os.path.join(VERIF, "replays"), exist_ok=True)
        os.makedirs(os.path.join(VERIF, "evidence"), exist_ok=True)

    # ------------------------------------------------------------------ util
    def log(self, *a):
        msg = " ".join(str(x) for x in a)
        self.log_lines.append(msg)
        print(f"[{self.pid} {time.time()-self.t0:6.1f}s] {msg}", flush=True)

    @property
    def quick(self):
        return self.tier == "quick"

    def count(self, key, n=1):
        self.cov[key] = self.cov.get(key, 0) + n

    def hist(self, key, bucket, n=1):
        h = self.cov.setdefault(key, {})
        h[str(bucket)] = h.get(str(bucket), 0) + n

    def sample(self, obj, limit=6):
        if len(self.cov["samples"]) < limit:
            self.cov["samples"].append(obj)

    def _load_findings(self):
        p = os.path.join(VERIF, "known_findings.json")
        try:
            with open(p) as f:
                data = json.load(f)
        except OSError:
            return []
        return [e for e in data.get("findings", []) if e.get("property") == self.pid]

    # --------------------------------------------------------------- lean side
    def translate(self, script, *args):
        """run a translator; a translator that rejects its source is a broken tie"""
        cmd = [sys.executable, os.path.join(VERIF, "translate", script), "--repo", REPO, *args]
        rc, out = sh(cmd, cwd=VERIF, timeout=600)
        if rc != 0:
            self.log(f"translator {script} failed:\n{out[-3000:]}")
            self.broken("translator", script, out[-3000:])
            return False
        for l in out.strip().splitlines()[-5:]:
            self.log(f"{script}: {l}")
        return True

    def lake(self, targets, timeout=3000):
        with lock("lake"):
            rc, out = sh(["lake", "build", *targets], cwd=LEAN, timeout=timeout)
        return rc, out

    def prove(self, modules, extra_grep=()):
        """lake build + forbidden-token grep + axiom audit of the theorems of `modules`.
        Every theorem declared in these modules is an obligation."""
        t = time.time()
        rc, out = self.lake(modules)
        if rc != 0:
            failed = self._failed_theorems(out)
            self.log("lake build FAILED:\n" + out[-4000:])
            for name, detail in failed:
                self.broken("theorem", name, detail)
            if not failed:
                self.broken("build", ",".join(modules), out[-3000:])
            return False
        # forbidden tokens in the sources of the whole library (comments stripped)
        bad = []
        for root, _, files in os.walk(os.path.join(LEAN, "SharkVerif")):
            for fn in files:
                if fn.endswith(".lean"):
                    p = os.path.join(root, fn)
                    src = strip_lean_comments(open(p).read())
                    for m in FORBIDDEN_RE.finditer(src):
                        bad.append(f"{os.path.relpath(p, LEAN)}: {m.group(0).strip()}")
        if bad:
            self.broken("audit", "forbidden-token", "; ".join(bad[:10]))
        ok = self._audit(modules)
        self.cov["prove_s"] = round(time.time() - t, 1)
        return ok and not bad

    def _failed_theorems(self, out):
        res = []
        for m in re.finditer(r"error: ([^\s:]+\.lean):(\d+):(\d+): (.*)", out):
            path, line, msg = m.group(1), int(m.group(2)), m.group(4)
            full = path if os.path.isabs(path) else os.path.join(LEAN, path)
            name = f"{os.path.basename(path)}:{line}"
            try:
                src = open(full).read().splitlines()
                for k in range(min(line, len(src)) - 1, -1, -1):
                    mm = re.match(r"\s*(?:private\s+|protected\s+)?(?:theorem|lemma|def|instance|example)\s+(\S+)", src[k])
                    if mm:
                        name = f"{os.path.basename(path)}:{mm.group(1)}"
                        break
            except OSError:
                pass
            if not any(n == name for n, _ in res):
                res.append((name, msg))
        return res

    def _audit(self, modules):
        os.makedirs(os.path.join(CACHE, "audit"), exist_ok=True)
        f = os.path.join(CACHE, "audit", f"Audit_{self.pid}.lean")
        with open(f, "w") as fh:
            fh.write("import SharkVerif.Audit\n")
            for m in modules:
                fh.write(f"import {m}\n")
            for m in modules:
                fh.write(f"#audit_module {m}\n")
        self.lake(["SharkVerif.Audit"])
        rc, out = sh(["lake", "env", "lean", f], cwd=LEAN, timeout=1200)
        thms = 0
        okall = True
        for l in out.splitlines():
            m = re.match(r".*AUDIT (\S+) \[(.*)\]", l)
            if not m:
                continue
            name, axs = m.group(1), [a.strip() for a in m.group(2).split(",") if a.strip()]
            thms += 1
            self.obligations.append(name)
            extra = [a for a in axs if a not in ALLOWED_AXIOMS]
            for a in axs:
                self.axioms[a] = self.axioms.get(a, 0) + 1
            if extra:
                okall = False
                self.broken("audit", name, f"depends on axioms {extra}")
            else:
                self.discharged += 1
        if rc != 0 or thms == 0:
            self.broken("audit", ",".join(modules), out[-2000:])
            return False
        self.log(f"audit: {thms} theorems in {modules}, axioms used: {sorted(self.axioms)}")
        return okall

    def leanchecker(self, modules):
        for m in modules:
            rc, out = sh(["lake", "env", "leanchecker", m], cwd=LEAN, timeout=3000)
            self.cov.setdefault("leanchecker", {})[m] = rc
            if rc != 0:
                self.broken("leanchecker", m, out[-2000:])

    def driver(self, name):
        rc, out = self.lake([name])
        if rc != 0:
            self.log(out[-3000:])
            self.broken("build", name, out[-3000:])
            return None
        return os.path.join(LEAN, ".lake", "build", "bin", name)

    # ------------------------------------------------------------ harness side
    def shark_h(self):
        """Shark.h generated from the repo's Shark.h.in with the pinned options"""
        inc = os.path.join(CACHE, "inc")
        os.makedirs(os.path.join(inc, "shark", "Core"), exist_ok=True)
        src = open(os.path.join(REPO, "include/shark/Core/Shark.h.in")).read()
        on = {"SHARK_USE_CBLAS", "SHARK_USE_LAPACK", "SHARK_USE_OPENMP"}
        def repl(m):
            return f"#define {m.group(1)}" if m.group(1) in on else f"/* #undef {m.group(1)} */"
        src = re.sub(r"^\s*#cmakedefine\s+(\w+)", repl, src, flags=re.M)
        for k, v in (("MAJOR", "4"), ("MINOR", "0"), ("PATCH", "0")):
            src = src.replace(f"@SHARK_VERSION_{k}@", v)
        dst = os.path.join(inc, "shark", "Core", "Shark.h")
        if not os.path.exists(dst) or open(dst).read() != src:
            with open(dst, "w") as f:
                f.write(src)
        return inc

    BASE_FLAGS = ["-std=c++11", "-O1", "-g", "-DNDEBUG", "-w", "-fopenmp",
                  "-ffp-contract=off", "-D" + GUARD]
    SAN_FLAGS = ["-fsanitize=address,undefined", "-fno-sanitize-recover=all"]
    LIBS = ["-lboost_serialization", "-lboost_system", "-lboost_filesystem", "-lopenblas"]

    def harness(self, name, sources, flags=(), san=True, libs=None, repo_sources=()):
        """compile harness/<sources> (+ repo_sources, paths relative to the repo)
        against the repo's working tree; cached by hash of all dependencies."""
        inc = self.shark_h()
        if REPO != "/repo" and sha(REPO)[:8] not in name and sha(os.path.abspath(REPO))[:8] not in name:
            # one cached binary / object set per checked tree: a scratch worktree (VERIF_REPO) neither evicts
            # the /repo build nor races with a concurrent check of another tree
            name = f"{name}-{sha(os.path.abspath(REPO))[:8]}"
        exe = os.path.join(CACHE, "bin", name)
        os.makedirs(os.path.join(CACHE, "bin"), exist_ok=True)
        os.makedirs(os.path.join(CACHE, "obj"), exist_ok=True)
        allflags = self.BASE_FLAGS + (self.SAN_FLAGS if san else []) + list(flags) + \
            ["-I" + inc, "-I" + os.path.join(REPO, "include"), "-I" + os.path.join(VERIF, "harness")]
        srcs = [os.path.join(VERIF, "harness", s) for s in sources] + \
               [os.path.join(REPO, s) for s in repo_sources]
        objs, procs = [], []
        rebuilt = False
        for s in srcs:
            tag = sha(name + "|" + s)[:12]
            obj = os.path.join(CACHE, "obj", f"{name}-{tag}.o")
            dep = obj + ".d"
            key = obj + ".key"
            objs.append(obj)
            want = self._depkey(s, dep, allflags)
            if want and os.path.exists(obj) and os.path.exists(key) and open(key).read() == want:
                continue
            rebuilt = True
            if os.path.exists(key):
                os.unlink(key)
            t0 = time.time()
            p = subprocess.Popen(["g++", *allflags, "-MD", "-MF", dep, "-c", s, "-o", obj],
                                 stdout=subprocess.PIPE, stderr=subprocess.STDOUT, text=True)
            procs.append((p, s, obj, dep, key, t0))
        for p, s, obj, dep, key, t0 in procs:
            out, _ = p.communicate()
            if p.returncode != 0:
                self.log(f"harness compile failed for {s}:\n{out[-4000:]}")
                self.broken("harness-build", name, out[-3000:])
                return None
            # a dependency edited while the compiler ran would make a stale object look fresh
            if self._deps_newer_than(s, dep, t0):
                self.log(f"harness: {s} or a dependency changed during the compile; not cached")
                continue
            with open(key, "w") as f:
                f.write(self._depkey(s, dep, allflags))
        if rebuilt or not os.path.exists(exe):
            rc, out = sh(["g++", *allflags, *objs, "-o", exe, *(libs if libs is not None else self.LIBS)])
            if rc != 0:
                self.log(out[-4000:])
                self.broken("harness-build", name, out[-3000:])
                return None
        self.cov.setdefault("harness_rebuilt", {})[name] = rebuilt
        return exe

    def _deps_newer_than(self, src, depfile, t0):
        files = [src]
        if os.path.exists(depfile):
            txt = open(depfile).read().replace("\\\n", " ")
            txt = txt.split(":", 1)[1] if ":" in txt else ""
            files += [f for f in txt.split() if not f.startswith("/usr/")]
        for f in files:
            try:
                if os.path.getmtime(f) > t0:
                    return True
            except OSError:
                return True
        return False

    def _depkey(self, src, depfile, flags):
        files = [src]
        if os.path.exists(depfile):
            txt = open(depfile).read().replace("\\\n", " ")
            txt = txt.split(":", 1)[1] if ":" in txt else ""
            files = sorted(set([src] + [f for f in txt.split() if not f.startswith("/usr/")]))
        elif os.path.exists(depfile[:-2]):
            return None
        h = hashlib.sha256(" ".join(flags).encode())
        for f in files:
            h.update(f.encode()); h.update(file_sha(f).encode())
        return h.hexdigest()

    def run_pair(self, harness_cmd, driver_cmd, ops_text, timeout=600, env=None):
        """run implementation and model on the same op lines; returns
        (impl_lines, model_lines, impl_rc, impl_stderr_tail)"""
        e = dict(os.environ)
        e.setdefault("ASAN_OPTIONS", "detect_leaks=0:abort_on_error=0")
        e.setdefault("UBSAN_OPTIONS", "print_stacktrace=1")
        if env: e.update(env)
        try:
            ph = subprocess.run(harness_cmd, input=ops_text, stdout=subprocess.PIPE, stderr=subprocess.PIPE,
                                text=True, errors="replace", timeout=timeout, env=e)
            hrc, hout, herr = ph.returncode, ph.stdout, ph.stderr
        except subprocess.TimeoutExpired as ex:
            hrc, hout, herr = -99, (ex.stdout or b"").decode(errors="replace") if isinstance(ex.stdout, bytes) else (ex.stdout or ""), "TIMEOUT"
        pd = subprocess.run(driver_cmd, input=ops_text, stdout=subprocess.PIPE, stderr=subprocess.PIPE,
                            text=True, errors="replace", timeout=timeout)
        return hout.splitlines(), pd.stdout.splitlines(), hrc, herr[-3000:]

    @staticmethod
    def first_diff(a, b):
        for i, (x, y) in enumerate(zip(a, b)):
            if x != y:
                return i
        if len(a) != len(b):
            return min(len(a), len(b))
        return None

    # --------------------------------------------------------------- reporting
    def broken(self, kind, name, detail=""):
        """a proof obligation or a correspondence no longer checks"""
        self.breaks.append({"kind": kind, "name": name, "detail": str(detail)[:4000], "resolved": False})
        return self.breaks[-1]

    def known(self, key):
        """is a concrete failing input (identified by `key`) a listed known finding?"""
        for f in self.findings:
            if f.get("status", "open") == "open" and re.fullmatch(f["key"], key):
                return f
        return None

    def violation(self, key, replay, found_input=True, what=""):
        """report a failing input (found_input) or an unproved property (not found)"""
        if found_input:
            f = self.known(key)
            if f is not None:
                if f["id"] not in self.known_hits:
                    self.known_hits.append(f["id"])
                    print(f"KNOWN-FINDING: property={self.pid} {f['what']}", flush=True)
                return
        h = sha(json.dumps(replay, sort_keys=True, default=str))[:10]
        path = os.path.join(VERIF, "replays", f"{self.pid}-{h}.json")
        replay = dict(replay)
        replay.update({"property": self.pid, "key": key, "seed": self.seed, "tier": self.tier,
                       "failing_input_found": found_input, "what": what})
        with open(path, "w") as fh:
            json.dump(replay, fh, indent=1, default=str)
        self.violations.append((path, found_input))
        tail = "" if found_input else " no-failing-input-found"
        print(f"VIOLATION property={self.pid} replay={path}{tail}", flush=True)

    def finish(self, level="proof", rule="", checker_cmd=None, extra_cov=None):
        # every break that no search turned into a concrete violation/known finding is reported as unproved
        for b in self.breaks:
            if not b["resolved"]:
                self.violation(f"broken:{b['kind']}:{b['name']}",
                               {"broken": b}, found_input=False,
                               what=f"{b['kind']} {b['name']} no longer checks")
        cov = self.cov
        cov["obligations"] = len(self.obligations)
        cov["discharged"] = self.discharged
        cov["obligation_names"] = self.obligations[:400]
        cov["axioms_used"] = self.axioms
        cov["checker_cmd"] = checker_cmd or f"cd {LEAN} && lake build SharkVerif.Props.{self.pid} && lake env lean ../.cache/audit/Audit_{self.pid}.lean"
        cov["trusted_base"] = self.trusted
        cov["rule"] = rule
        cov["known_findings_hit"] = self.known_hits
        cov["breaks"] = [{k: b[k] for k in ("kind", "name")} for b in self.breaks]
        if extra_cov: cov.update(extra_cov)
        if not cov["samples"]:
            cov["samples"] = [{"obligation": n} for n in self.obligations[:5]] or ["none"]
        ev = {"property_id": self.pid, "tier": self.tier, "seed": self.seed, "level": level,
              "coverage": cov, "assumptions": self.assumptions,
              "wall_s": round(time.time() - self.t0, 2), "violations": len(self.violations)}
        # evidence/ holds runs against /repo itself only; runs pointed elsewhere (VERIF_REPO) go to the cache
        evdir = os.path.join(VERIF, "evidence") if REPO == "/repo" else os.path.join(CACHE, "evidence-scratch")
        os.makedirs(evdir, exist_ok=True)
        ev["repo"] = REPO
        with open(os.path.join(evdir, f"{self.pid}.json"), "w") as f:
            json.dump(ev, f, indent=1, default=str)
        self.log(f"done: obligations={cov['obligations']} discharged={cov['discharged']} "
                 f"violations={len(self.violations)} known={self.known_hits} wall={ev['wall_s']}s")
        return 1 if self.violations else 0


def shrink_ops(ops, fails, keep_prefix=1, max_rounds=200):
    """delta debugging on an op list; `fails(ops)->bool`. The first `keep_prefix` ops are kept."""
    head, body = ops[:keep_prefix], ops[keep_prefix:]
    n, rounds = 2, 0
    while len(body) >= 2 and rounds < max_rounds:
        chunk = max(1, len(body) // n)
        reduced = False
        for i in range(0, len(body), chunk):
            cand = body[:i] + body[i + chunk:]
            rounds += 1
            if cand != body and fails(head + cand):
                body, n, reduced = cand, max(n - 1, 2), True
                break
        if not reduced:
            if chunk == 1: break
            n = min(n * 2, len(body))
    return head + body


# ---------------------------------------------------------------------------
# generic batched correspondence: many cases, each a list of op lines
# ---------------------------------------------------------------------------
from concurrent.futures import ThreadPoolExecutor


class CaseResult:
    __slots__ = ("ok", "crash", "oracle", "diff_at", "impl", "model", "stderr")

    def __init__(self):
        self.ok, self.crash, self.oracle, self.diff_at = True, False, [], None
        self.impl, self.model, self.stderr = [], [], ""


def run_case(ctx, hcmd, dcmd, ops, env=None, timeout=120, crash_is_failure=True, cmp=None):
    r = CaseResult()
    text = "\n".join(ops) + "\n"
    r.impl, r.model, rc, r.stderr = ctx.run_pair(hcmd, dcmd, text, timeout=timeout, env=env)
    if rc != 0:
        r.crash, r.ok = True, False
    r.oracle = [l for l in r.impl if "!oracle" in l]
    if r.oracle:
        r.ok = False
    impl_cmp = [l.split(" !oracle")[0] for l in r.impl]
    if cmp is not None:
        # custom line comparison (e.g. toleranced fields): replace matching model lines by the impl text
        model_cmp = [a if (a == b or cmp(a, b)) else b for a, b in zip(impl_cmp, r.model)] + r.model[len(impl_cmp):]
        d = Ctx.first_diff(impl_cmp, model_cmp)
    else:
        d = Ctx.first_diff(impl_cmp, r.model)
    if d is not None:
        r.diff_at, r.ok = d, False
    return r


def correspond(ctx, name, cases, hcmd, dcmd, classify, env=None, max_report=4, keep_prefix=1,
               crash_counts=True, timeout=600, cmp=None):
    """Run every case on implementation and model, compare, shrink and report failures.
    `classify(ops, result) -> (key, what)` names a concrete failing input for known-findings.
    Returns number of failing cases."""
    t = time.time()
    all_ops = [l for c in cases for l in c]
    big = run_case(ctx, hcmd, dcmd, all_ops, env=env, timeout=timeout, cmp=cmp)
    ctx.count("traces_validated_against_impl", len(cases))
    ctx.count("ops_compared", len(all_ops))
    if big.ok:
        ctx.log(f"{name}: {len(cases)} cases / {len(all_ops)} ops agree ({time.time()-t:.1f}s)")
        return 0
    # something failed: run the cases one by one to find which
    def one(c):
        return run_case(ctx, hcmd, dcmd, c, env=env, timeout=120, cmp=cmp)
    with ThreadPoolExecutor(max_workers=14) as ex:
        results = list(ex.map(one, cases))
    failing = [(c, r) for c, r in zip(cases, results) if not r.ok]
    if not failing:
        # only the concatenation fails (state leaking between cases): report as is
        failing = [(all_ops, big)]
    ctx.log(f"{name}: {len(failing)} of {len(cases)} cases FAIL")
    # group by the (coarse) classification of the unshrunk case; groups with a concrete failing
    # input (oracle / sanitizer / named finding) first; shrink one shortest case per group
    groups = {}
    for c, r in failing:
        k0 = tuple(classify(c, r)[0].split(":")[:2])
        groups.setdefault(k0, []).append((c, r))
    ctx.cov.setdefault("failing_groups", {})[name] = {":".join(k): len(v) for k, v in groups.items()}
    ordered = sorted(groups.items(), key=lambda kv: 0 if (kv[0][0] in ("oracle", "crash") or kv[0][0][:1] in ("K", "F")) else 1)
    seen = set()
    for k0, lst in ordered[:max_report]:
        c, r = min(lst, key=lambda cr: len(cr[0]))
        def fails(ops):
            x = run_case(ctx, hcmd, dcmd, ops, env=env, timeout=60, cmp=cmp)
            return (not x.ok) and tuple(classify(ops, x)[0].split(":")[:2]) == k0
        small = shrink_ops(c, fails, keep_prefix=keep_prefix, max_rounds=120) if len(c) > keep_prefix + 1 else c
        rs = run_case(ctx, hcmd, dcmd, small, env=env, timeout=60, cmp=cmp)
        if rs.ok:
            small, rs = c, r
        key, what = classify(small, rs)
        if key in seen:
            continue
        seen.add(key)
        found = bool(rs.oracle) or (rs.crash and crash_counts)
        b = ctx.broken("correspondence", f"{name}:{key}", what)
        b["resolved"] = True
        replay = {"harness_cmd": hcmd, "driver_cmd": dcmd, "ops": small,
                  "impl_output": rs.impl[-20:], "model_output": rs.model[-20:],
                  "first_diff_line": rs.diff_at, "oracle": rs.oracle[:5],
                  "crash": rs.crash, "stderr_tail": rs.stderr[-1500:], "env": env or {},
                  "cases_in_group": len(lst)}
        ctx.violation(key, replay, found_input=found, what=what)
    return len(failing)


def oracle_only(ctx, name, cases, hcmd, classify, env=None, max_report=4, timeout=600):
    """Run the implementation alone (no model available) and report oracle failures / crashes as
    concrete failing inputs.  Used after a proof obligation or the driver build broke."""
    e = dict(os.environ); e.setdefault("ASAN_OPTIONS", "detect_leaks=0"); e.update(env or {})
    seen, found = set(), 0
    for c in cases:
        p = subprocess.run(hcmd, input="\n".join(c) + "\n", capture_output=True, text=True, errors="replace", env=e, timeout=timeout)
        r = CaseResult(); r.impl = p.stdout.splitlines(); r.stderr = p.stderr[-2000:]
        r.crash = p.returncode != 0; r.oracle = [l for l in r.impl if "!oracle" in l]
        ctx.count("oracle_only_cases")
        if not (r.crash or r.oracle):
            continue
        key, what = classify(c, r)
        if key in seen:
            continue
        seen.add(key); found += 1
        ctx.violation(key, {"harness_cmd": hcmd, "ops": c, "impl_output": r.impl[-10:], "oracle": r.oracle[:5],
                            "crash": r.crash, "stderr_tail": r.stderr}, found_input=True, what=what)
        if len(seen) >= max_report:
            break
    if found:
        for b in ctx.breaks:
            b["resolved"] = True
    ctx.log(f"{name}: {found} failing inputs found by the oracle alone")
    return found
