import SharkVerif.Props.C08
import SharkVerif.Lemmas.Bias
namespace SharkVerif.C07x
open SharkVerif.Qp SharkVerif.Smo SharkVerif.SvmTrainer

theorem lit1 : (1.0 : Rat) = 1 := by norm_num

/-- gradient accumulated by the `SvmProblem` constructor for a non-zero start vector -/
theorem initWith_grad (K : Nat → Nat → Rat) (lin a0 : Nat → Rat) : ∀ m (a : Nat),
    (List.range m).foldl (fun (gr : Nat → Rat) i =>
      if a0 i == (0.0 : Rat) then gr else fun k => gr k - K i k * a0 i) lin a
      = lin a - rsum (fun i => K i a * a0 i) m := by
  intro m
  induction m with
  | zero => intro a; simp
  | succ m ih =>
    intro a
    rw [List.range_succ, List.foldl_append, rsum_succ]
    simp only [List.foldl_cons, List.foldl_nil]
    split
    · rename_i h0
      rw [beq_iff_eq, lit0] at h0
      rw [ih a, h0]; ring
    · show (List.range m).foldl _ lin a - K m a * a0 m = _
      rw [ih a]; ring

/-- **the problem constructed with a non-zero start vector satisfies the invariant** provided the start vector lies in
the box and every coefficient that sits at a bound is zero (`m_gradientEdge` is initialised with `linear`); this is the
situation of `BoxedSVMProblem` in the one-class trainer (`alpha = 1/n` strictly inside `[0, 1/(nu n)]`, `nu < 1`). -/
theorem initWith_inv (n : Nat) (K : Nat → Nat → Rat) (eqc sh : Bool) (lin L U a0 : Nat → Rat)
    (hsym : ∀ x y, K x y = K y x) (hbox : ∀ k, k < n → L k ≤ a0 k ∧ a0 k ≤ U k)
    (hedge : ∀ k, k < n → (a0 k = L k ∨ a0 k = U k) → a0 k = 0) :
    Inv (State.initWith n K eqc sh lin L U a0) := by
  refine { sym := hsym, act_le := Nat.le_refl _, noshrink := fun _ => rfl, perm_lt := fun k hk => hk,
           perm_inj := fun a b _ _ e => e, diag := fun k _ => rfl, box := hbox, flo := ?_, fup := ?_,
           grad := ?_, edge := ?_, shrunk := ?_ }
  · intro k _; simp only [State.initWith, beq_iff_eq]
  · intro k _; simp only [State.initWith, beq_iff_eq]
  · intro a _
    show (List.range n).foldl _ lin a = lin a - Kalpha (State.initWith n K eqc sh lin L U a0) a
    rw [initWith_grad]
    simp only [Kalpha, State.initWith]
    congr 1; apply rsum_congr; intro i _; rw [hsym]
  · intro _ a _
    show lin a = lin a - KalphaEdge (State.initWith n K eqc sh lin L U a0) a
    have : KalphaEdge (State.initWith n K eqc sh lin L U a0) a = 0 := by
      have e : KalphaEdge (State.initWith n K eqc sh lin L U a0) a = rsum (fun _ => 0) n := by
        unfold KalphaEdge
        apply rsum_congr; intro b hb
        split
        · rename_i hbd
          have hz : a0 b = 0 := hedge b hb hbd
          show K a b * a0 b = 0
          rw [hz, mul_zero]
        · rfl
      rw [e, rsum_const_zero]
    rw [this, sub_zero]
  · intro k hk1 hk2; exact absurd hk2 (Nat.not_lt.mpr hk1)

/-- the C-SVM problem with class-specific `C` and per-example weights starts in a state satisfying the invariant -/
theorem csvmInit2_inv (n : Nat) (K : Nat → Nat → Rat) (y : Nat → Bool) (Cn Cp : Rat) (w : Nat → Rat) (bias sh : Bool)
    (hsym : ∀ x y, K x y = K y x) (hCn : 0 ≤ Cn) (hCp : 0 ≤ Cp) (hw : ∀ k, k < n → 0 ≤ w k) :
    Inv (csvmInit2 n K y Cn Cp w bias sh) := by
  apply C08.init_inv _ _ _ _ _ _ _ hsym
  intro k hk
  have h1 := mul_nonneg hCn (hw k hk)
  have h2 := mul_nonneg hCp (hw k hk)
  cases y k <;> simp only [lit0, Bool.false_eq_true, if_false, if_true] <;> constructor <;> linarith

/-- the ε-regression problem (2n variables over the block matrix) starts in a state satisfying the invariant -/
theorem epsInit_inv (n : Nat) (K : Nat → Nat → Rat) (y : Nat → Rat) (C tube : Rat) (sh : Bool)
    (hsym : ∀ x y, K x y = K y x) (hC : 0 ≤ C) : Inv (epsInit n K y C tube sh) := by
  apply C08.init_inv _ _ _ _ _ _ _ (fun a b => hsym _ _)
  intro k _
  split <;> simp only [lit0] <;> constructor <;> linarith

/-- the one-class problem (`alpha = 1/n`, box `[0, 1/(nu n)]`, `0 < nu < 1`) starts in a state satisfying the invariant
with coefficient sum 1 -/
theorem oneClassInit_inv (n : Nat) (K : Nat → Nat → Rat) (nu : Rat) (sh : Bool)
    (hsym : ∀ x y, K x y = K y x) (hn : 0 < n) (hnu0 : 0 < nu) (hnu1 : nu < 1) :
    Inv (oneClassInit n K nu (n : Rat) sh) ∧ alphaSum (oneClassInit n K nu (n : Rat) sh) = 1 := by
  have hnq : (0 : Rat) < (n : Rat) := by exact_mod_cast hn
  have hlt : (1 : Rat) / (n : Rat) < 1 / (nu * (n : Rat)) := by
    rw [div_lt_div_iff₀ hnq (mul_pos hnu0 hnq)]
    nlinarith
  have hpos : (0 : Rat) < 1 / (n : Rat) := div_pos one_pos hnq
  constructor
  · unfold oneClassInit
    apply initWith_inv _ _ _ _ _ _ _ _ hsym
    · intro k _; simp only [lit0, lit1]; constructor <;> linarith
    · intro k _ hb; simp only [lit0, lit1] at hb ⊢
      rcases hb with hb | hb <;> linarith
  · simp only [alphaSum, oneClassInit, State.initWith, lit1]
    have : ∀ m : Nat, rsum (fun _ => (1 : Rat) / (n : Rat)) m = (m : Rat) / (n : Rat) := by
      intro m
      induction m with
      | zero => simp
      | succ m ih => rw [rsum_succ, ih]; push_cast; ring
    rw [this n]; exact div_self (ne_of_gt hnq)

end SharkVerif.C07x
