import SharkVerif.Lemmas.Bias
namespace SharkVerif.C07x
open SharkVerif.Qp SharkVerif.Smo SharkVerif.SvmTrainer

/-- `Σ_{a<2n} f a` splits into the two halves -/
theorem rsum_two_mul (f : Nat → Rat) (n : Nat) : rsum f (2 * n) = rsum f n + rsum (fun k => f (n + k)) n := by
  have h : ∀ m, rsum f (n + m) = rsum f n + rsum (fun k => f (n + k)) m := by
    intro m
    induction m with
    | zero => simp
    | succ m ih => rw [← Nat.add_assoc, rsum_succ, ih, rsum_succ]; ring
  rw [two_mul]; exact h n

/-- the 2×2 block matrix `[[Q,Q],[Q,Q]]` of the ε-regression dual is PSD when `Q` is -/
theorem psd_block {n : Nat} {Q : Nat → Nat → Rat} (h : PSD n Q) : PSD (2 * n) (fun a b => Q (a % n) (b % n)) := by
  intro v
  have key : bil (2 * n) (fun a b => Q (a % n) (b % n)) v v
      = bil n Q (fun k => v k + v (n + k)) (fun k => v k + v (n + k)) := by
    unfold bil
    have inner : ∀ a, rsum (fun b => Q (a % n) (b % n) * v b) (2 * n)
        = rsum (fun l => Q (a % n) l * (v l + v (n + l))) n := by
      intro a
      rw [rsum_two_mul, ← rsum_add]
      apply rsum_congr; intro l hl
      rw [Nat.add_mod_left, Nat.mod_eq_of_lt hl]; ring
    rw [rsum_two_mul, ← rsum_add]
    apply rsum_congr; intro k hk
    rw [inner k, inner (n + k), Nat.add_mod_left, Nat.mod_eq_of_lt hk]; ring
  rw [key]; exact h _

end SharkVerif.C07x
