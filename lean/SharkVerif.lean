-- Root of the `SharkVerif` library: models, generated definitions, lemmas, property theorems.
import SharkVerif.Model.Cache
