import SharkVerif.Model.GradOpt
import Mathlib.Tactic.Linarith
import Mathlib.Tactic.Positivity
import Mathlib.Tactic.FieldSimp
import Mathlib.Tactic.Ring
import Mathlib.Tactic.SplitIfs
import Mathlib.Algebra.BigOperators.Group.List.Basic
import Mathlib.Algebra.BigOperators.Ring.List
namespace SharkVerif.Opt.LSOpt.Box
open SharkVerif.Opt

theorem zero_eq' : (Scalar.zero : Rat) = 0 := rfl
theorem one_eq' : (Scalar.one : Rat) = 1 := rfl

theorem smin_le_left (a b : Rat) : Scalar.min a b ≤ a := by
  unfold Scalar.min; split <;> linarith
theorem smin_le_right (a b : Rat) : Scalar.min a b ≤ b := by
  unfold Scalar.min; split <;> linarith
theorem smin_pos (a b : Rat) (ha : 0 < a) (hb : 0 < b) : 0 < Scalar.min a b := by
  unfold Scalar.min; split <;> assumption

variable (pt d : BoxCoord Rat → Rat)

theorem clipStep_pos (alpha : Rat) (c : BoxCoord Rat) (h : 0 < alpha) : 0 < clipStep pt d alpha c := by
  unfold clipStep
  by_cases h1 : (!c.act || Scalar.beq (d c) Scalar.zero) = true
  · rw [if_pos h1]; exact h
  · rw [if_neg h1]
    by_cases h2 : (Scalar.zero : Rat) < (c.u - pt c) / d c <;> by_cases h3 : (Scalar.zero : Rat) < (c.l - pt c) / d c
    · simp only [if_pos h2, if_pos h3]; exact smin_pos _ _ (smin_pos _ _ h h3) h2
    · simp only [if_pos h2, if_neg h3]; exact smin_pos _ _ h h2
    · simp only [if_neg h2, if_pos h3]; exact smin_pos _ _ h h3
    · simp only [if_neg h2, if_neg h3]; exact h

theorem clipStep_le (alpha : Rat) (c : BoxCoord Rat) : clipStep pt d alpha c ≤ alpha := by
  unfold clipStep
  by_cases h1 : (!c.act || Scalar.beq (d c) Scalar.zero) = true
  · rw [if_pos h1]
  · rw [if_neg h1]
    by_cases h2 : (Scalar.zero : Rat) < (c.u - pt c) / d c <;> by_cases h3 : (Scalar.zero : Rat) < (c.l - pt c) / d c
    · simp only [if_pos h2, if_pos h3]; exact le_trans (smin_le_left _ _) (smin_le_left _ _)
    · simp only [if_pos h2, if_neg h3]; exact smin_le_left _ _
    · simp only [if_neg h2, if_pos h3]; exact smin_le_left _ _
    · simp only [if_neg h2, if_neg h3]; exact le_refl _

theorem clip_pos (cs : List (BoxCoord Rat)) : ∀ a0 : Rat, 0 < a0 → 0 < clip pt d cs a0 := by
  induction cs with
  | nil => intro a0 h; exact h
  | cons c cs ih => intro a0 h; exact ih _ (clipStep_pos pt d a0 c h)

theorem clip_le (cs : List (BoxCoord Rat)) : ∀ a0 : Rat, clip pt d cs a0 ≤ a0 := by
  induction cs with
  | nil => intro a0; exact le_refl _
  | cons c cs ih => intro a0; exact le_trans (ih _) (clipStep_le pt d a0 c)

theorem beq_zero_false (a : Rat) (h : a ≠ 0) : Scalar.beq a (Scalar.zero : Rat) = false := by
  show (decide (a ≤ (0:Rat)) && decide ((0:Rat) ≤ a)) = false
  rcases lt_or_gt_of_ne h with h' | h'
  · have : ¬ (0:Rat) ≤ a := not_le.mpr h'
    simp [this]
  · have : ¬ a ≤ (0:Rat) := not_le.mpr h'
    simp [this]

theorem clipStep_bound (alpha : Rat) (c : BoxCoord Rat) (hact : c.act = true) (hd : d c ≠ 0) :
    ((0 : Rat) < (c.u - pt c) / d c → clipStep pt d alpha c ≤ (c.u - pt c) / d c) ∧
    ((0 : Rat) < (c.l - pt c) / d c → clipStep pt d alpha c ≤ (c.l - pt c) / d c) := by
  unfold clipStep
  have h1 : ¬ ((!c.act || Scalar.beq (d c) Scalar.zero) = true) := by
    simp [hact, beq_zero_false (d c) hd]
  rw [if_neg h1]
  by_cases h2 : (Scalar.zero : Rat) < (c.u - pt c) / d c <;> by_cases h3 : (Scalar.zero : Rat) < (c.l - pt c) / d c
  · simp only [if_pos h2, if_pos h3]
    exact ⟨fun _ => smin_le_right _ _, fun _ => le_trans (smin_le_left _ _) (smin_le_right _ _)⟩
  · simp only [if_pos h2, if_neg h3]
    exact ⟨fun _ => smin_le_right _ _, fun h => absurd h h3⟩
  · simp only [if_neg h2, if_pos h3]
    exact ⟨fun h => absurd h h2, fun _ => smin_le_right _ _⟩
  · simp only [if_neg h2, if_neg h3]
    exact ⟨fun h => absurd h h2, fun h => absurd h h3⟩

theorem clip_bound (cs : List (BoxCoord Rat)) : ∀ (a0 : Rat) (c : BoxCoord Rat), c ∈ cs → c.act = true → d c ≠ 0 →
    ((0 : Rat) < (c.u - pt c) / d c → clip pt d cs a0 ≤ (c.u - pt c) / d c) ∧
    ((0 : Rat) < (c.l - pt c) / d c → clip pt d cs a0 ≤ (c.l - pt c) / d c) := by
  induction cs with
  | nil => intro a0 c hc; cases hc
  | cons c' cs ih =>
    intro a0 c hc hact hd
    rcases List.mem_cons.mp hc with rfl | hc'
    · have hb := clipStep_bound pt d a0 c hact hd
      have hle : clip pt d (c :: cs) a0 ≤ clipStep pt d a0 c := clip_le pt d cs _
      exact ⟨fun h => le_trans hle (hb.1 h), fun h => le_trans hle (hb.2 h)⟩
    · exact ih _ c hc' hact hd

/-- moving from `pt` along `d` by the clipped step length stays inside `[l, u]` -/
theorem clip_move_feasible (cs : List (BoxCoord Rat)) (c : BoxCoord Rat) (hc : c ∈ cs)
    (hl : c.l ≤ pt c) (hu : pt c ≤ c.u) (h0 : c.act = false → d c = 0)
    (hroomU : c.act = true → 0 < d c → pt c < c.u) (hroomL : c.act = true → d c < 0 → c.l < pt c) :
    c.l ≤ pt c + clip pt d cs 1 * d c ∧ pt c + clip pt d cs 1 * d c ≤ c.u := by
  have hpos : 0 < clip pt d cs 1 := clip_pos pt d cs 1 (by norm_num)
  cases hact : c.act with
  | false => rw [h0 hact]; constructor <;> linarith
  | true =>
    rcases lt_trichotomy (d c) 0 with hd | hd | hd
    · have hb := (clip_bound pt d cs 1 c hc hact (ne_of_lt hd)).2
      have hroom := hroomL hact hd
      have hq : 0 < (c.l - pt c) / d c := div_pos_of_neg_of_neg (by linarith) hd
      have h1 := hb hq
      have h2 : clip pt d cs 1 * d c ≥ (c.l - pt c) / d c * d c := mul_le_mul_of_nonpos_right h1 (le_of_lt hd)
      rw [div_mul_cancel₀ _ (ne_of_lt hd)] at h2
      have h3 : clip pt d cs 1 * d c ≤ 0 := mul_nonpos_of_nonneg_of_nonpos (le_of_lt hpos) (le_of_lt hd)
      constructor <;> linarith
    · rw [hd]; constructor <;> linarith
    · have hb := (clip_bound pt d cs 1 c hc hact (ne_of_gt hd)).1
      have hroom := hroomU hact hd
      have hq : 0 < (c.u - pt c) / d c := div_pos (by linarith) hd
      have h1 := hb hq
      have h2 : clip pt d cs 1 * d c ≤ (c.u - pt c) / d c * d c := mul_le_mul_of_nonneg_right h1 (le_of_lt hd)
      rw [div_mul_cancel₀ _ (ne_of_gt hd)] at h2
      have h3 : 0 ≤ clip pt d cs 1 * d c := mul_nonneg (le_of_lt hpos) (le_of_lt hd)
      constructor <;> linarith

/-! ### the direction, coordinate by coordinate -/

/-- component of `direction pBp cs` belonging to the coordinate record `c` -/
def dirCoord (pBp : Rat) (cs : List (BoxCoord Rat)) (c : BoxCoord Rat) : Rat :=
  if Scalar.beq (Vec.normSqr (cs.map (·.p0))) Scalar.zero then c.p0
  else if !(cs.any stepInfeasibleAt) then c.step
  else if clip (·.x) (cauchy pBp) cs Scalar.one < Scalar.one then clip (·.x) (cauchy pBp) cs Scalar.one * cauchy pBp c
  else cauchy pBp c +
    clip (fun c => c.x + cauchy pBp c) (fun c => c.step - cauchy pBp c) cs Scalar.one * (c.step - cauchy pBp c)

theorem direction_eq_map (pBp : Rat) (cs : List (BoxCoord Rat)) :
    direction pBp cs = cs.map (dirCoord pBp cs) := by
  unfold direction dirCoord
  by_cases h1 : Scalar.beq (Vec.normSqr (cs.map (·.p0))) (Scalar.zero : Rat) = true
  · simp only [if_pos h1]
  · simp only [if_neg h1]
    by_cases h2 : (!(cs.any stepInfeasibleAt)) = true
    · simp only [if_pos h2]
    · simp only [if_neg h2]
      by_cases h3 : clip (·.x) (cauchy pBp) cs Scalar.one < (Scalar.one : Rat)
      · simp only [if_pos h3]
      · simp only [if_neg h3]

/-! ### sums -/

theorem dot_map_map (cs : List (BoxCoord Rat)) (f g : BoxCoord Rat → Rat) :
    Vec.dot (cs.map f) (cs.map g) = (cs.map fun c => f c * g c).sum := by
  unfold Vec.dot
  have : ∀ (l : List Rat) (a : Rat), l.foldl (· + ·) a = a + l.sum := by
    intro l; induction l with
    | nil => intro a; simp
    | cons x xs ih => intro a; simp only [List.foldl_cons, List.sum_cons, ih]; ring
  rw [this]
  have hz : List.zipWith (· * ·) (cs.map f) (cs.map g) = cs.map fun c => f c * g c := by
    induction cs with
    | nil => rfl
    | cons c cs ih => simp only [List.map_cons, List.zipWith_cons_cons, ih]
  rw [hz]; show (0 : Rat) + _ = _; ring

theorem sumsq_nonneg (cs : List (BoxCoord Rat)) (f : BoxCoord Rat → Rat) : 0 ≤ (cs.map fun c => f c * f c).sum := by
  induction cs with
  | nil => simp
  | cons c cs ih => simp only [List.map_cons, List.sum_cons]; nlinarith [mul_self_nonneg (f c)]

theorem sumsq_zero (cs : List (BoxCoord Rat)) (f : BoxCoord Rat → Rat) (h : (cs.map fun c => f c * f c).sum = 0) :
    ∀ c ∈ cs, f c = 0 := by
  induction cs with
  | nil => intro c hc; cases hc
  | cons c' cs ih =>
    simp only [List.map_cons, List.sum_cons] at h
    have h1 := sumsq_nonneg cs f
    have h2 := mul_self_nonneg (f c')
    have h3 : f c' * f c' = 0 := by linarith
    have h4 : (cs.map fun c => f c * f c).sum = 0 := by linarith
    intro c hc
    rcases List.mem_cons.mp hc with rfl | hc'
    · exact mul_self_eq_zero.mp h3
    · exact ih h4 c hc'

theorem beq_zero_true (a : Rat) (h : Scalar.beq a (Scalar.zero : Rat) = true) : a = 0 := by
  by_contra hne
  rw [beq_zero_false a hne] at h
  cases h

/-! ### hypotheses -/

/-- what the split into movable and blocked variables guarantees for a point with `l ≤ x ≤ u`:
a blocked variable has `p0 = step = 0`; a movable one that wants to decrease is strictly above its lower
bound (by at least `eps`), one that wants to increase is strictly below its upper bound -/
structure CoordOK (c : BoxCoord Rat) : Prop where
  lx : c.l ≤ c.x
  xu : c.x ≤ c.u
  blocked0 : c.act = false → c.p0 = 0 ∧ c.step = 0
  roomL : c.act = true → c.p0 < 0 → c.l < c.x
  roomU : c.act = true → 0 < c.p0 → c.x < c.u

/-- no movable coordinate has its Cauchy point exactly on the bound that `step - cauchy` points to -/
def NoTouch (pBp : Rat) (c : BoxCoord Rat) : Prop :=
  c.act = true → (0 < c.step - cauchy pBp c → c.x + cauchy pBp c < c.u) ∧
                 (c.step - cauchy pBp c < 0 → c.l < c.x + cauchy pBp c)

theorem eps_pos : (0 : Rat) < (eps : Rat) := by
  show (0 : Rat) < 1 / 10000000000000
  norm_num

theorem cauchy_sign (pBp : Rat) (hB : 0 < pBp) (c : BoxCoord Rat) :
    (0 < cauchy pBp c ↔ 0 < c.p0) ∧ (cauchy pBp c < 0 ↔ c.p0 < 0) ∧ (c.p0 = 0 → cauchy pBp c = 0) := by
  unfold cauchy
  refine ⟨?_, ?_, ?_⟩
  · constructor
    · intro h; by_contra hn; have : c.p0 / pBp ≤ 0 := div_nonpos_of_nonpos_of_nonneg (not_lt.mp hn) (le_of_lt hB); linarith
    · intro h; exact div_pos h hB
  · constructor
    · intro h; by_contra hn; have : 0 ≤ c.p0 / pBp := div_nonneg (not_lt.mp hn) (le_of_lt hB); linarith
    · intro h; exact div_neg_of_neg_of_pos h hB
  · intro h; rw [h]; simp

/-- the Cauchy stage: `x + clip·cauchy` stays in the box -/
theorem cauchy_stage_feasible (pBp : Rat) (hB : 0 < pBp) (cs : List (BoxCoord Rat)) (hok : ∀ c ∈ cs, CoordOK c)
    (c : BoxCoord Rat) (hc : c ∈ cs) :
    c.l ≤ c.x + clip (·.x) (cauchy pBp) cs 1 * cauchy pBp c ∧
    c.x + clip (·.x) (cauchy pBp) cs 1 * cauchy pBp c ≤ c.u := by
  have ok := hok c hc
  have hs := cauchy_sign pBp hB c
  exact clip_move_feasible (·.x) (cauchy pBp) cs c hc ok.lx ok.xu
    (fun h => hs.2.2 (ok.blocked0 h).1)
    (fun h hd => ok.roomU h (hs.1.mp hd))
    (fun h hd => ok.roomL h (hs.2.1.mp hd))

/-- **box_direction_feasible_partial.**  For a point inside the box, `x + direction` is inside the box,
provided no movable coordinate has its Cauchy point exactly on the bound the dog-leg moves towards
(`NoTouch`; without it the statement is false: `box_direction_touching_witness`). -/
theorem box_direction_feasible_partial (pBp : Rat) (hB : 0 < pBp) (cs : List (BoxCoord Rat))
    (hok : ∀ c ∈ cs, CoordOK c) (hnt : ∀ c ∈ cs, NoTouch pBp c) (c : BoxCoord Rat) (hc : c ∈ cs) :
    c.l ≤ c.x + dirCoord pBp cs c ∧ c.x + dirCoord pBp cs c ≤ c.u := by
  have ok := hok c hc
  unfold dirCoord
  by_cases h1 : Scalar.beq (Vec.normSqr (cs.map (·.p0))) (Scalar.zero : Rat) = true
  · simp only [if_pos h1]
    have hz := beq_zero_true _ h1
    unfold Vec.normSqr at hz
    rw [dot_map_map] at hz
    have := sumsq_zero cs (·.p0) hz c hc
    rw [this]; constructor <;> linarith [ok.lx, ok.xu]
  · simp only [if_neg h1]
    by_cases h2 : (!(cs.any stepInfeasibleAt)) = true
    · simp only [if_pos h2]
      have hnone : stepInfeasibleAt c = false := by
        by_contra hne
        have : cs.any stepInfeasibleAt = true := List.any_eq_true.mpr ⟨c, hc, by simpa using hne⟩
        simp [this] at h2
      cases hact : c.act with
      | false => rw [(ok.blocked0 hact).2]; constructor <;> linarith [ok.lx, ok.xu]
      | true =>
        unfold stepInfeasibleAt at hnone
        simp only [hact, Bool.true_and, Bool.or_eq_false_iff, decide_eq_false_iff_not, not_lt] at hnone
        have he := eps_pos
        constructor <;> linarith [hnone.1, hnone.2]
    · simp only [if_neg h2]
      have hle : clip (·.x) (cauchy pBp) cs (1 : Rat) ≤ 1 := clip_le _ _ cs 1
      by_cases h3 : clip (·.x) (cauchy pBp) cs Scalar.one < (Scalar.one : Rat)
      · simp only [if_pos h3]
        exact cauchy_stage_feasible pBp hB cs hok c hc
      · simp only [if_neg h3]
        have h1' : clip (·.x) (cauchy pBp) cs (1 : Rat) = 1 := le_antisymm hle (not_lt.mp h3)
        have hcp := cauchy_stage_feasible pBp hB cs hok c hc
        rw [h1', one_mul] at hcp
        have hs := cauchy_sign pBp hB c
        have hm := clip_move_feasible (fun c => c.x + cauchy pBp c) (fun c => c.step - cauchy pBp c) cs c hc hcp.1 hcp.2
          (fun h => by
            have hb := ok.blocked0 h
            show c.step - cauchy pBp c = 0
            rw [hb.2, hs.2.2 hb.1]; ring)
          (fun h hd => (hnt c hc h).1 hd)
          (fun h hd => (hnt c hc h).2 hd)
        constructor
        · have := hm.1; show c.l ≤ c.x + (cauchy pBp c + clip _ _ cs 1 * (c.step - cauchy pBp c)); linarith
        · have := hm.2; show c.x + (cauchy pBp c + clip _ _ cs 1 * (c.step - cauchy pBp c)) ≤ c.u; linarith

/-- **box_direction_descent.**  Whenever the projected gradient is non-zero (`Σ p0ᵢ² > 0`), and the two
implicit matrices are positive on `p0` (`p0ᵀBp0 > 0`, `p0ᵀB⁻¹p0 > 0`), the returned direction `d` satisfies
`Σ p0ᵢ·dᵢ > 0`, i.e. `gᵀd < 0` (`p0 = -g` on the movable coordinates and `d = 0` on the blocked ones):
it is a descent direction.  No feasibility hypothesis is needed: the clipped step lengths are positive
because the loop only ever takes minima with positive numbers. -/
theorem box_direction_descent (pBp : Rat) (hB : 0 < pBp) (cs : List (BoxCoord Rat))
    (hp : 0 < (cs.map fun c => c.p0 * c.p0).sum) (hs : 0 < (cs.map fun c => c.p0 * c.step).sum) :
    0 < (cs.map fun c => c.p0 * dirCoord pBp cs c).sum := by
  unfold dirCoord
  by_cases h1 : Scalar.beq (Vec.normSqr (cs.map (·.p0))) (Scalar.zero : Rat) = true
  · simp only [if_pos h1]; exact hp
  · simp only [if_neg h1]
    by_cases h2 : (!(cs.any stepInfeasibleAt)) = true
    · simp only [if_pos h2]; exact hs
    · simp only [if_neg h2]
      by_cases h3 : clip (·.x) (cauchy pBp) cs Scalar.one < (Scalar.one : Rat)
      · simp only [if_pos h3]
        have hpos : 0 < clip (·.x) (cauchy pBp) cs (1 : Rat) := clip_pos _ _ cs 1 (by norm_num)
        set a := clip (·.x) (cauchy pBp) cs (Scalar.one : Rat) with ha
        have hfun : (fun c : BoxCoord Rat => c.p0 * (a * cauchy pBp c)) = fun c => (a / pBp) * (c.p0 * c.p0) := by
          funext c; unfold cauchy; field_simp
        rw [hfun, List.sum_map_mul_left]
        have : 0 < a / pBp := div_pos hpos hB
        positivity
      · simp only [if_neg h3]
        set a2 := clip (fun c => c.x + cauchy pBp c) (fun c => c.step - cauchy pBp c) cs (Scalar.one : Rat) with ha2
        have hpos : 0 < a2 := clip_pos _ _ cs 1 (by norm_num)
        have hle : a2 ≤ 1 := clip_le _ _ cs 1
        have hfun : (fun c : BoxCoord Rat => c.p0 * (cauchy pBp c + a2 * (c.step - cauchy pBp c)))
            = fun c => ((1 - a2) / pBp) * (c.p0 * c.p0) + a2 * (c.p0 * c.step) := by
          funext c; unfold cauchy; field_simp; ring
        rw [hfun, List.sum_map_add, List.sum_map_mul_left, List.sum_map_mul_left]
        have h4 : 0 ≤ (1 - a2) / pBp := div_nonneg (by linarith) (le_of_lt hB)
        have h5 : 0 ≤ (1 - a2) / pBp * (cs.map fun c => c.p0 * c.p0).sum := mul_nonneg h4 (le_of_lt hp)
        have h6 : 0 < a2 * (cs.map fun c => c.p0 * c.step).sum := mul_pos hpos hs
        linarith

/-- **box_direction_nonzero.**  Under the same hypotheses the returned direction is not the zero vector
(the statement a clipping test `u_alpha >= 0` instead of `> 0` falsifies: a variable sitting exactly on its
upper bound and pushed inward then gives `alpha = 0` and the optimizer freezes at a non-optimal point). -/
theorem box_direction_nonzero (pBp : Rat) (hB : 0 < pBp) (cs : List (BoxCoord Rat))
    (hp : 0 < (cs.map fun c => c.p0 * c.p0).sum) (hs : 0 < (cs.map fun c => c.p0 * c.step).sum) :
    ∃ d ∈ direction pBp cs, d ≠ 0 := by
  by_contra hall
  have hall' : ∀ d ∈ direction pBp cs, d = 0 := by
    intro d hd; by_contra hne; exact hall ⟨d, hd, hne⟩
  have hd := box_direction_descent pBp hB cs hp hs
  have hz : (cs.map fun c => c.p0 * dirCoord pBp cs c).sum = 0 := by
    apply List.sum_eq_zero
    intro x hx
    obtain ⟨c, hc, rfl⟩ := List.mem_map.mp hx
    have : dirCoord pBp cs c = 0 := hall' _ (by rw [direction_eq_map]; exact List.mem_map.mpr ⟨c, hc, rfl⟩)
    rw [this]; ring
  linarith

/-! ### the records built by `coords` satisfy `CoordOK` for a point inside the box -/

theorem mem_zipWith_exists {β γ δ : Type} (f : β → γ → δ) : ∀ (A : List β) (B : List γ) (c : δ),
    c ∈ List.zipWith f A B → ∃ a ∈ A, ∃ b ∈ B, c = f a b := by
  intro A
  induction A with
  | nil => intro B c h; simp at h
  | cons a A ih =>
    intro B c h
    cases B with
    | nil => simp at h
    | cons b B =>
      simp only [List.zipWith_cons_cons, List.mem_cons] at h
      rcases h with rfl | h
      · exact ⟨a, List.mem_cons_self, b, List.mem_cons_self, rfl⟩
      · obtain ⟨a', ha', b', hb', rfl⟩ := ih B c h
        exact ⟨a', List.mem_cons_of_mem _ ha', b', List.mem_cons_of_mem _ hb', rfl⟩

theorem blocked_false_room (l u x p : Rat) (h : blocked l u x p = false) :
    (p < 0 → l < x) ∧ (0 < p → x < u) := by
  unfold blocked at h
  have he := eps_pos
  simp only [Bool.or_eq_false_iff, Bool.and_eq_false_iff, decide_eq_false_iff_not, not_lt] at h
  constructor
  · intro hp
    rcases h.1 with h1 | h1
    · linarith
    · exact absurd hp (not_lt.mpr h1)
  · intro hp
    rcases h.2 with h1 | h1
    · linarith
    · exact absurd hp (not_lt.mpr h1)

/-- **coords_ok.**  For a point with `l ≤ x ≤ u` (coordinate-wise), every record produced by the active-set
split of `getBoxConstrainedDirection` satisfies `CoordOK` — whatever `multBInv` returns. -/
theorem coords_ok (binv : Vec Rat → Vec Rat) (l u x g : Vec Rat)
    (hbox : ∀ t ∈ List.zip l (List.zip u x), t.1 ≤ t.2.2 ∧ t.2.2 ≤ t.2.1) :
    ∀ c ∈ coords binv l u x g, CoordOK c := by
  intro c hc
  unfold coords at hc
  obtain ⟨a, ha, b, _, rfl⟩ := mem_zipWith_exists _ _ _ c hc
  have hb := hbox a ha
  cases hblk : blocked a.1 a.2.1 a.2.2 (-b.1) with
  | true =>
    refine ⟨hb.1, hb.2, ?_, ?_, ?_⟩
    · intro _; simp [hblk, zero_eq']
    · intro h; simp [hblk] at h
    · intro h; simp [hblk] at h
  | false =>
    have hr := blocked_false_room _ _ _ _ hblk
    refine ⟨hb.1, hb.2, ?_, ?_, ?_⟩
    · intro h; simp [hblk] at h
    · intro _ hp; simp only [hblk] at hp; exact hr.1 (by simpa using hp)
    · intro _ hp; simp only [hblk] at hp; exact hr.2 (by simpa using hp)

/-- **box_direction_touching_witness.**  The hypothesis `NoTouch` of `box_direction_feasible_partial` cannot be
dropped: `B = I`, `x = (0,0)`, `g = (-1,-1)`, box `[-1,1/2] × [-1,10]`.  The quasi-Newton step `(1,1)` is infeasible,
the Cauchy point `(1/2,1/2)` lies exactly on the upper bound of the first variable, the dog-leg stage skips that
bound (`u_alpha = 0` is not `> 0`) and returns `(1,1)`: `x + d` leaves the box (finding F-C10-12). -/
theorem box_direction_touching_witness :
    let cs : List (BoxCoord Rat) := [⟨-1, 1/2, 0, true, 1, 1⟩, ⟨-1, 10, 0, true, 1, 1⟩]
    (∀ c ∈ cs, CoordOK c) ∧ direction (2 : Rat) cs = [1, 1] ∧ ¬ ((0 : Rat) + 1 ≤ 1/2) := by
  intro cs
  refine ⟨?_, ?_, by norm_num⟩
  · intro c hc
    simp only [cs, List.mem_cons, List.not_mem_nil, or_false] at hc
    rcases hc with rfl | rfl <;> exact ⟨by norm_num, by norm_num, by simp, by norm_num, by norm_num⟩
  · norm_num [cs, direction, Vec.normSqr, Vec.dot, Scalar.beq, Scalar.zero, Scalar.one, Scalar.ofRat, stepInfeasibleAt,
      eps, clip, clipStep, cauchy, Scalar.min]

/-- non-vacuity of the three theorems: first step of a run (empty history, `B = bdiag·I` with `bdiag = 2`),
`x = (0, 1)`, box `[0,1]²`, `g = (-4, -1)`: the second variable is blocked (on its upper bound, pushed outward), the
quasi-Newton step `(2, 0)` is infeasible, the Cauchy step `(4,0)/32` is feasible, the dog-leg returns `(1, 0)` -/
example :
    let cs := coords (fun p => p.map (· / 2)) [0, 0] [1, 1] [0, 1] [-4, -1]
    (∀ c ∈ cs, CoordOK c) ∧ (∀ c ∈ cs, NoTouch (32 : Rat) c) ∧ 0 < (cs.map fun c => c.p0 * c.p0).sum ∧
      0 < (cs.map fun c => c.p0 * c.step).sum ∧ direction (32 : Rat) cs = [1, 0] := by
  intro cs
  have hcs : cs = [⟨0, 1, 0, true, 4, 2⟩, ⟨0, 1, 1, false, 0, 0⟩] := by
    norm_num [cs, coords, p0, blocked, eps, Scalar.zero, Scalar.ofRat]
  refine ⟨coords_ok _ _ _ _ _ (by norm_num), ?_, ?_, ?_, ?_⟩
  · intro c hc
    rw [hcs] at hc
    simp only [List.mem_cons, List.not_mem_nil, or_false] at hc
    rcases hc with rfl | rfl <;> norm_num [NoTouch, cauchy]
  · rw [hcs]; norm_num
  · rw [hcs]; norm_num
  · rw [hcs]
    norm_num [direction, Vec.normSqr, Vec.dot, Scalar.beq, Scalar.zero, Scalar.one, Scalar.ofRat, stepInfeasibleAt,
      eps, clip, clipStep, cauchy, Scalar.min]

end SharkVerif.Opt.LSOpt.Box
