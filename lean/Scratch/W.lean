import SharkVerif.Model.GradOpt
import Mathlib.Tactic.NormNum
namespace SharkVerif.Opt.LSOpt.Box
open SharkVerif.Opt
def wcs : List (BoxCoord Rat) := [⟨-1, 1/2, 0, true, 1, 1⟩, ⟨-1, 10, 0, true, 1, 1⟩]
example : direction (2 : Rat) wcs = [1, 1] := by
  norm_num [direction, wcs, Vec.normSqr, Vec.dot, Scalar.beq, Scalar.zero, Scalar.one, Scalar.ofRat, stepInfeasibleAt, eps, clip, clipStep, cauchy, Scalar.min]
end SharkVerif.Opt.LSOpt.Box
