/-
C03, section J: WIDTH OF THE INDEX FIELDS.

The models of `Model/Dataset.lean` keep every index, position and size in unbounded `Nat`.  The C++ keeps them in
integer members of fixed width; `Gen/IndexTypes.lean` (regenerated from the headers on every run by
translate/index_types.py) lists every integer-typed declaration of Dataset.h / Impl/Dataset.inl / DataView.h /
WeightedDataset.h with its width and carries the obligation `index_fields_are_size_t`.

This file states what the width means for `DataView`, whose per-element table `DataView::Index{batch, positionInBatch,
datasetIndex}` is the one place where an index is *stored* per element (and therefore the place a maintainer is tempted
to pack):  `ofDatasetPacked wb wp wi d` is the table the constructor `DataView(dataset)` builds when the three fields
have `wb`, `wp`, `wi` bits (a store into an unsigned field of w bits keeps the value modulo 2^w).

  * `view_packed_faithful`: the packed table IS the table of the model -- for every dataset with at most 2^wb batches,
    batch sizes at most 2^wp and at most 2^wi elements; so every theorem about `View.ofDataset` holds for the C++
    on those datasets;
  * `view_faithful_at_source_widths`: with the widths regenerated from DataView.h the hypothesis is
    "fewer than 2^64 elements" -- the only assumption the C03 theorems make about index width.  The proof needs the
    three regenerated widths to be ≥ 64, so narrowing a field of `DataView::Index` breaks this theorem as well as
    `index_fields_are_size_t`;
  * `view_packed_narrow_aliases` (witness): below the required width the table is wrong -- with 2-bit positions the
    fifth element of a batch aliases the first (`view[4] = view[0] ≠ dataset.element(4)`), exactly the behaviour of a
    16-bit field at position 65536;
  * `iterator_positions_at_source_widths`: the three positions of `DataElementIterator` and the position of the view
    iterator are 64 bits wide in the regenerated source.
-/
import SharkVerif.Model.Dataset
import SharkVerif.Gen.IndexTypes
namespace SharkVerif.C03Index
open SharkVerif.Dataset SharkVerif.Gen.IndexTypes

variable {ι κ : Type}

/-- a store into three unsigned fields of `wb`, `wp`, `wi` bits -/
def packIndex (wb wp wi : Nat) (x : ViewIndex) : ViewIndex :=
  ⟨x.batch % 2 ^ wb, x.positionInBatch % 2 ^ wp, x.datasetIndex % 2 ^ wi⟩

/-- `DataView(dataset)` with an `Index` struct of the given field widths -/
def ofDatasetPacked (wb wp wi : Nat) (d : LabeledData ι κ) : View ι κ :=
  ⟨d, (View.ofDataset d).indices.map (packIndex wb wp wi)⟩

/-- every entry of the table of the model: batch below the batch count, position below the size of some batch, dataset
index below the element count -/
theorem go_bounds (sizes : List Nat) (b idx : Nat) :
    ∀ x ∈ View.ofDataset.go sizes b idx,
      x.batch < b + sizes.length ∧ (∃ s ∈ sizes, x.positionInBatch < s) ∧ x.datasetIndex < idx + sizes.sum := by
  induction sizes generalizing b idx with
  | nil => intro x hx; simp [View.ofDataset.go] at hx
  | cons s rest ih =>
    intro x hx
    simp only [View.ofDataset.go, List.mem_append, List.mem_map, List.mem_range] at hx
    rcases hx with ⟨j, hj, rfl⟩ | hx
    · refine ⟨?_, ⟨s, List.mem_cons_self, hj⟩, ?_⟩
      · simp only [List.length_cons]; omega
      · simp only [List.sum_cons]; omega
    · obtain ⟨h1, ⟨s', hs', h2⟩, h3⟩ := ih (b + 1) (idx + s) x hx
      refine ⟨?_, ⟨s', List.mem_cons_of_mem _ hs', h2⟩, ?_⟩
      · simp only [List.length_cons]; omega
      · simp only [List.sum_cons]; omega

/-- SUFFICIENT WIDTH: the packed table equals the table of the model -/
theorem view_packed_faithful (wb wp wi : Nat) (d : LabeledData ι κ)
    (hb : d.partitioning.length ≤ 2 ^ wb) (hp : ∀ s ∈ d.partitioning, s ≤ 2 ^ wp)
    (hn : d.numberOfElements ≤ 2 ^ wi) :
    ofDatasetPacked wb wp wi d = View.ofDataset d := by
  have hmap : (View.ofDataset d).indices.map (packIndex wb wp wi) = (View.ofDataset d).indices := by
    have : ∀ x ∈ (View.ofDataset d).indices, packIndex wb wp wi x = x := by
      intro x hx
      have hx' : x ∈ View.ofDataset.go d.partitioning 0 0 := hx
      obtain ⟨h1, ⟨s, hs, h2⟩, h3⟩ := go_bounds d.partitioning 0 0 x hx'
      have hs' := hp s hs
      have hn' : d.partitioning.sum ≤ 2 ^ wi := hn
      cases x with
      | mk xb xp xi =>
        simp only [packIndex, ViewIndex.mk.injEq]
        simp only at h1 h2 h3
        exact ⟨Nat.mod_eq_of_lt (by omega), Nat.mod_eq_of_lt (by omega), Nat.mod_eq_of_lt (by omega)⟩
    calc (View.ofDataset d).indices.map (packIndex wb wp wi)
        = (View.ofDataset d).indices.map id := List.map_congr_left this
      _ = (View.ofDataset d).indices := List.map_id _
  simp only [ofDatasetPacked, hmap]
  rfl

/-- the number of batches and every batch size of a dataset without empty batches are bounded by the element count -/
theorem length_le_sum_of_pos (l : List Nat) (h : ∀ s ∈ l, 0 < s) : l.length ≤ l.sum := by
  induction l with
  | nil => simp
  | cons a r ih =>
    have ha := h a List.mem_cons_self
    have := ih (fun s hs => h s (List.mem_cons_of_mem _ hs))
    simp only [List.length_cons, List.sum_cons]; omega

theorem mem_le_sum (l : List Nat) (s : Nat) (hs : s ∈ l) : s ≤ l.sum := by
  induction l with
  | nil => cases hs
  | cons a r ih =>
    simp only [List.sum_cons]
    rcases List.mem_cons.mp hs with rfl | h
    · omega
    · have := ih h; omega

/-- WITH THE WIDTHS OF THE SOURCE: the table `DataView(dataset)` builds is the table of the model for every dataset
with non-empty batches and fewer than 2^64 elements (the one assumption about index width) -/
theorem view_faithful_at_source_widths (d : LabeledData ι κ)
    (hne : ∀ s ∈ d.partitioning, 0 < s) (hn : d.numberOfElements < 2 ^ 64) :
    ofDatasetPacked viewBatchBits viewPositionBits viewDatasetIndexBits d = View.ofDataset d := by
  have wb : 2 ^ 64 ≤ 2 ^ viewBatchBits := Nat.pow_le_pow_right (by decide) (by decide)
  have wp : 2 ^ 64 ≤ 2 ^ viewPositionBits := Nat.pow_le_pow_right (by decide) (by decide)
  have wi : 2 ^ 64 ≤ 2 ^ viewDatasetIndexBits := Nat.pow_le_pow_right (by decide) (by decide)
  have hsum : d.partitioning.sum < 2 ^ 64 := hn
  apply view_packed_faithful
  · have := length_le_sum_of_pos d.partitioning hne; omega
  · intro s hs; have := mem_le_sum d.partitioning s hs; omega
  · show d.partitioning.sum ≤ _; omega

/-- a dataset of one batch with five elements 0 … 4, labels 10 … 14 -/
def five : LabeledData Nat Nat := ⟨{ batches := [[0, 1, 2, 3, 4]] }, { batches := [[10, 11, 12, 13, 14]] }⟩

/-- WITNESS (too narrow): with 2-bit position fields the fifth element of a batch aliases the first, while the
dataset's fifth element is a different one; sizes and `datasetIndex` are untouched -/
theorem view_packed_narrow_aliases :
    (ofDatasetPacked 64 2 64 five).get 4 = (ofDatasetPacked 64 2 64 five).get 0 ∧
    (ofDatasetPacked 64 2 64 five).get 4 = some (0, 10) ∧
    (View.ofDataset five).get 4 = some (4, 14) ∧
    (ofDatasetPacked 64 2 64 five).size = (View.ofDataset five).size ∧
    (ofDatasetPacked 64 2 64 five).indices.map (·.datasetIndex) = [0, 1, 2, 3, 4] := by
  decide

/-- WITNESS (too narrow, batch field): with a 1-bit batch field the third batch aliases the first -/
theorem view_packed_narrow_batch_aliases :
    let d : LabeledData Nat Nat := ⟨{ batches := [[0], [1], [2]] }, { batches := [[10], [11], [12]] }⟩
    (ofDatasetPacked 1 64 64 d).get 2 = some (0, 10) ∧ (View.ofDataset d).get 2 = some (2, 12) := by
  decide

/-- non-vacuity of `view_faithful_at_source_widths`, and the faithful table reads the right element -/
example : ofDatasetPacked viewBatchBits viewPositionBits viewDatasetIndexBits five = View.ofDataset five :=
  view_faithful_at_source_widths five (by decide) (by decide)

/-- the positions of the element iterator and of the view iterator are 64 bits wide in the regenerated source -/
theorem iterator_positions_at_source_widths :
    iterBatchPositionBits = 64 ∧ iterElementPositionBits = 64 ∧ iterSequencePositionBits = 64 ∧
    viewIterPositionBits = 64 := by decide

end SharkVerif.C03Index
