/-
C13 — Pareto dominance, non-dominated sorting and hypervolume computations are exact.

Property theorems about the models in `Model/Pareto.lean` and
`Model/Hypervolume.lean` (tied to the C++ by the exact correspondence check
`checks/c13.py`).  All statements quantify over every finite list of integer
points, of every dimension and size.
-/
import SharkVerif.Lemmas.Pareto
namespace SharkVerif.C13
open SharkVerif.Pareto

/-- **C13 (dominance)**: `shark::dominance` returns the relation of its definition:
`LHS_DOMINATES_RHS` iff `p ≤ q` in every objective and not `q ≤ p`, symmetrically
for `RHS_DOMINATES_LHS`, `EQUIVALENT` iff the vectors are equal, `INCOMPARABLE` otherwise. -/
theorem dominance_spec (p q : Pt) (h : p.length = q.length) :
    (dominance p q = .lhsDominates ↔ dominates p q = true) ∧
    (dominance p q = .rhsDominates ↔ dominates q p = true) ∧
    (dominance p q = .equivalent ↔ p = q) ∧
    (dominance p q = .incomparable ↔ leAll p q = false ∧ leAll q p = false) := by
  have h1 := countLt_eq_zero (p := p) (q := q) h
  have h2 := countLt_eq_zero (p := q) (q := p) h.symm
  unfold dominance dominates
  cases hpq : leAll p q <;> cases hqp : leAll q p <;> simp only [hpq, hqp] at h1 h2
  · have a : countLt q p > 0 := by simp at h1; omega
    have b : countLt p q > 0 := by simp at h2; omega
    simp [a, b]
    intro e; subst e; simp [leAll_refl] at hpq
  · have a : countLt q p > 0 := by simp at h1; omega
    have b : countLt p q = 0 := by simpa using h2
    simp [a, b]
    intro e; subst e; simp [leAll_refl] at hpq
  · have a : countLt q p = 0 := by simpa using h1
    have b : countLt p q > 0 := by simp at h2; omega
    simp [a, b]
    intro e; subst e; simp [leAll_refl] at hqp
  · have a : countLt q p = 0 := by simpa using h1
    have b : countLt p q = 0 := by simpa using h2
    simp [a, b]
    exact leAll_antisymm hpq hqp

example : dominance [1, 2] [1, 3] = .lhsDominates ∧ dominance [1, 3] [1, 3] = .equivalent ∧
    dominance [0, 3] [1, 2] = .incomparable := by decide

end SharkVerif.C13
