/-
C13 — Pareto dominance, non-dominated sorting and hypervolume computations are exact.

Property theorems about the models in `Model/Pareto.lean` and
`Model/Hypervolume.lean` (tied to the C++ by the exact correspondence check
`checks/c13.py`).  Helper lemmas: `Lemmas/Pareto.lean`, `Lemmas/FastSort.lean`,
`Lemmas/Hypervolume.lean`.  All statements quantify over every finite list of
integer points, of every dimension and every size (duplicates, ties, dominated
and collinear points included); the only hypothesis is the C++ precondition that
all vectors of a call have the same dimension.
-/
import SharkVerif.Lemmas.FastSort
import SharkVerif.Lemmas.Hypervolume
import SharkVerif.Lemmas.HV3D
import SharkVerif.Lemmas.Contrib
import SharkVerif.Model.Contrib3D
import SharkVerif.Lemmas.DCFront
import SharkVerif.Lemmas.RatLift
import SharkVerif.Lemmas.Subset2D
import SharkVerif.Lemmas.Contrib3DE
import SharkVerif.Lemmas.HOY
namespace SharkVerif.C13
open SharkVerif.Pareto SharkVerif.HV SharkVerif.DC

/-! ## Dominance -/

/-- **C13 (dominance)**: `shark::dominance` returns the relation of its definition:
`LHS_DOMINATES_RHS` iff `p ≤ q` in every objective and not `q ≤ p`, symmetrically
for `RHS_DOMINATES_LHS`, `EQUIVALENT` iff the vectors are equal, `INCOMPARABLE` otherwise. -/
theorem dominance_spec (p q : Pt) (h : p.length = q.length) :
    (dominance p q = .lhsDominates ↔ dominates p q = true) ∧
    (dominance p q = .rhsDominates ↔ dominates q p = true) ∧
    (dominance p q = .equivalent ↔ p = q) ∧
    (dominance p q = .incomparable ↔ leAll p q = false ∧ leAll q p = false) :=
  dominance_iff p q h

example : dominance [1, 2] [1, 3] = .lhsDominates ∧ dominance [1, 3] [1, 3] = .equivalent ∧
    dominance [0, 3] [1, 2] = .incomparable := by decide

/-- strict dominance is a strict partial order (what makes `rankSpec` well-founded) -/
theorem dominates_strict_order :
    (∀ p : Pt, dominates p p = false) ∧
    (∀ p q s : Pt, dominates p q = true → dominates q s = true → dominates p s = true) :=
  ⟨dominates_irrefl, fun _ _ _ => dominates_trans⟩

/-! ## The rank specification -/

/-- **the definition of the non-domination rank**: `rankSpec S p` is one plus the highest rank
among the points of `S` dominating `p` (the maximum of the empty set being 0). -/
theorem rankSpec_def (S : List Pt) (p : Pt) :
    rankSpec S p = 1 + ((S.filter fun q => dominates q p).map (rankSpec S)).foldl max 0 :=
  rankSpec_eq S p

/-- … equivalently: every dominator has a smaller rank, and the rank is 1 or exactly one more
than the rank of some dominator. -/
theorem rankSpec_characterisation (S : List Pt) (p : Pt) :
    (∀ q ∈ S, dominates q p = true → rankSpec S q < rankSpec S p) ∧
    (rankSpec S p = 1 ∨ ∃ q ∈ S, dominates q p = true ∧ rankSpec S p = rankSpec S q + 1) :=
  ⟨fun _ hq hd => rankSpec_lt S hq hd, rankSpec_cases S p⟩

/-- the defining equation has exactly one solution on `S`: any rank assignment `f` with
"`f p` = 1 + highest `f` among the dominators of `p`" coincides with `rankSpec` -/
theorem rankSpec_unique (S : List Pt) (f : Pt → Nat)
    (hf : ∀ p ∈ S, f p = 1 + ((S.filter fun q => dominates q p).map f).foldl max 0) :
    ∀ p ∈ S, f p = rankSpec S p := by
  suffices H : ∀ k, ∀ p ∈ S, (S.countP fun q => dominates q p) = k → f p = rankSpec S p by
    intro p hp; exact H _ p hp rfl
  intro k
  induction k using Nat.strongRecOn with
  | _ k ih =>
    intro p hp hk
    rw [hf p hp, rankSpec_eq S p]
    congr 2
    apply List.map_congr_left
    intro q hq
    have hq' := List.mem_filter.mp hq
    have hlt : (S.countP fun x => dominates x q) < S.countP fun x => dominates x p :=
      countP_lt_of_imp S (fun x => dominates x q) (fun x => dominates x p)
        (fun x hx => dominates_trans hx hq'.2) q hq'.1 hq'.2 (by simp [dominates_irrefl])
    exact ih _ (by omega) q hq'.1 rfl

/-! ## fastNonDominatedSort -/

/-- **C13 (sorting, main theorem)**: for every list of points of equal dimension — any size,
duplicates, ties, dominated points — the model of `fastNonDominatedSort` assigns to the `i`-th
point exactly `rankSpec`, the rank given by the definition. -/
theorem fastSort_eq_rankSpec (pts : List Pt) (m : Nat) (hd : ∀ p ∈ pts, p.length = m) :
    fastSort pts = pts.map (rankSpec pts) :=
  fastSort_eq hd

/-- the result does not depend on the contents of the rank array passed in, and the
`while(!front.empty())` loop has reached the empty front when the model's pass budget
(`n + 1` passes) is used up: model and C++ loop stop in the same state. -/
theorem fastSort_terminates (pts : List Pt) (m : Nat) (hd : ∀ p ∈ pts, p.length = m)
    (ranks0 : Array Nat) (h0 : ranks0.size = pts.length) :
    (fastSortState pts ranks0).1 = [] ∧
    (fastSortState pts ranks0).2.rank.toList = pts.map (rankSpec pts) := by
  obtain ⟨h1, hs, hr⟩ := fastSortState_spec hd ranks0 h0
  refine ⟨h1, ?_⟩
  apply List.ext_getElem
  · simp [hs]
  · intro i _ h2
    have hi : i < pts.length := by simpa using h2
    have := hr i hi
    unfold gd at this
    rw [Array.getD_eq_getD_getElem?, Array.getElem?_eq_getElem (by omega)] at this
    simp only [Option.getD_some] at this
    simp only [Array.getElem_toList, List.getElem_map]
    rw [this, rk, pt_eq pts hi]

/-- the loop invariant holds initially and is preserved by every pass (all reachable loop states) -/
theorem fastSort_invariant (pts : List Pt) (m : Nat) (hd : ∀ p ∈ pts, p.length = m) :
    (∀ r0 : Array Nat, r0.size = pts.length → Inv pts 2 (initState pts r0).1 (initState pts r0).2) ∧
    (∀ c front st, Inv pts c front st →
      Inv pts (c + 1) (round pts c front st).next.toList (round pts c front st)) :=
  ⟨fun r0 h0 => init_inv hd r0 h0, fun _ _ _ h => round_inv hd h⟩

/-- in every reachable loop state no dominator counter is decremented more often than its value:
the unsigned counters of the C++ never wrap around -/
theorem fastSort_counters_never_wrap (pts : List Pt) (m : Nat) (hd : ∀ p ∈ pts, p.length = m)
    (c : Nat) (front : List Nat) (st : FS) (h : Inv pts c front st) (x : Nat) (hx : x < pts.length) :
    (front.flatMap (domList pts)).count x ≤ st.cnt.getD x 0 :=
  round_counts_le hd h x hx

/-- non-vacuity: a population with duplicates, a tie in one coordinate and three fronts -/
example : fastSort [[1, 1], [1, 1], [1, 2], [2, 2], [0, 3]] = [1, 1, 2, 3, 1] ∧
    (∀ p ∈ [[1, 1], [1, 1], [1, 2], [2, 2], [0, 3]], List.length (α := Int) p = 2) := by decide


/-! ## The hypervolume specification

`hvSpec S r` counts the unit cells `[z, z+1)` of the integer grid with `lower S r ≤ z < r`
whose lower corner is weakly dominated by a point of `S`.  For integer points this is the
Lebesgue measure of the region dominated by `S` and bounded by `r`. -/

/-- what `hvSpec` counts: for **every** corner `lo` below `r` and below all points, `hvSpec S r` is
the number of grid cells `z` in the box `lo ≤ z < r` (`cells` enumerates each exactly once)
that are weakly dominated by some point of `S` — the choice of the bounding box is irrelevant. -/
theorem hvSpec_is_dominated_cell_count (lo : Pt) (S : List Pt) (r : Pt) (hr : leAll lo r = true)
    (hS : ∀ p ∈ S, leAll lo p = true) :
    hvSpec S r = ((cells lo r).filter fun z => S.any fun p => leAll p z).length ∧
    (cells lo r).Nodup ∧ (∀ z, z ∈ cells lo r ↔ inBox lo z r) := by
  refine ⟨?_, nodup_cells lo r, fun z => mem_cells⟩
  rw [hvSpec_eq_hvCount hr hS, hvCount, List.countP_eq_length_filter]; rfl

/-- **C13 (hypervolume, permutation invariance)** -/
theorem hvSpec_perm_invariant (S T : List Pt) (r : Pt) (h : S.Perm T) : hvSpec S r = hvSpec T r :=
  hvSpec_perm h

/-- **C13 (adding a dominated point)**: a point weakly dominated by a member of `S` can be
inserted at any position without changing the hypervolume -/
theorem hvSpec_add_dominated_point (S₁ S₂ : List Pt) (p q r : Pt) (hp : p ∈ S₁ ++ S₂)
    (hpq : leAll p q = true) : hvSpec (S₁ ++ q :: S₂) r = hvSpec (S₁ ++ S₂) r :=
  hvSpec_insert_dominated hp hpq

/-- **C13 (adding a duplicate)** -/
theorem hvSpec_add_duplicate_point (S₁ S₂ : List Pt) (p r : Pt) (hp : p ∈ S₁ ++ S₂) :
    hvSpec (S₁ ++ p :: S₂) r = hvSpec (S₁ ++ S₂) r :=
  hvSpec_insert_dominated hp (leAll_refl p)

/-- **C13 (monotonicity)**: if every point of `S` is weakly dominated by a point of `T`
(in particular if `S ⊆ T`), then `hvSpec S r ≤ hvSpec T r` -/
theorem hvSpec_monotone (m : Nat) (S T : List Pt) (r : Pt) (hr : r.length = m)
    (hT : ∀ q ∈ T, q.length = m) (h : ∀ p ∈ S, ∃ q ∈ T, leAll q p = true) :
    hvSpec S r ≤ hvSpec T r :=
  hvSpec_mono hr hT h

/-- the dimension hypothesis on `T` in `hvSpec_monotone` excludes only ill-formed input: a
vector of the wrong dimension in `T` makes the box degenerate -/
theorem hvSpec_monotone_needs_dims :
    hvSpec [[0]] [5] = 5 ∧ hvSpec [[0], []] [5] = 0 := by decide

/-- sub-additivity -/
theorem hvSpec_union_le_add (S T : List Pt) (r : Pt) :
    hvSpec (S ++ T) r ≤ hvSpec S r + hvSpec T r :=
  hvSpec_union_le

/-- removing all dominated points (keeping one copy or all copies of duplicates) keeps the volume -/
theorem hvSpec_nonDominated_eq (S : List Pt) (r : Pt) : hvSpec (nonDominated S) r = hvSpec S r :=
  hvSpec_nonDominated

/-- inclusion–exclusion (the identity behind WFG and the contribution algorithms) -/
theorem hvSpec_inclusion_exclusion (m : Nat) (p r : Pt) (S : List Pt) (hpr : leAll p r = true)
    (hr : r.length = m) (hS : ∀ s ∈ S, s.length = m) :
    ((hvSpec (p :: S) r : Nat) : Int) = hvSpec S r + boxVol p r - hvSpec (S.map (pmax p)) r :=
  hvSpec_cons hpr hr hS

/-- the hypervolume contribution of a point is never negative -/
theorem contribSpec_nonneg (m : Nat) (S : List Pt) (r : Pt) (i : Nat) (hr : r.length = m)
    (hS : ∀ q ∈ S, q.length = m) : 0 ≤ contribSpec S r i := by
  unfold contribSpec
  have := hvSpec_mono_subset (S := S.eraseIdx i) hr hS (fun p hp => List.mem_of_mem_eraseIdx hp)
  omega

example : hvSpec [[1, 2], [2, 1], [3, 3]] [4, 4] = 8 ∧ contribSpec [[1, 2], [2, 1], [3, 3]] [4, 4] 2 = 0 := by
  decide

/-! ## HypervolumeCalculator2D and the WFG recursion -/

/-- **C13 (2-D sweep)**: on every list ordered by the first coordinate — whatever the order among
equal keys, so for every outcome of the unstable `std::sort` — the integration loop of
`HypervolumeCalculator2D` returns the dominated hypervolume (dominated points, duplicates and
points on the boundary of the reference box included). -/
theorem hv2d_sorted_eq_spec (L : List Pt) (r : Pt) (hsort : L.Pairwise (fun a b => px a ≤ px b))
    (hL : ∀ p ∈ L, p.length = 2) (hr : r.length = 2) (hle : ∀ p ∈ L, leAll p r = true) :
    hv2dSorted L r = (hvSpec L r : Int) :=
  hv2dSorted_eq_spec hsort hL hr hle

/-- **C13 (HypervolumeCalculator2D)** -/
theorem hv2d_eq_spec (S : List Pt) (r : Pt) (hS : ∀ p ∈ S, p.length = 2) (hr : r.length = 2)
    (hle : ∀ p ∈ S, leAll p r = true) : hv2d S r = (hvSpec S r : Int) :=
  HV.hv2d_eq_spec hS hr hle

/-- the hypothesis "every point weakly dominates the reference point" (the documented C++
precondition) cannot be dropped: a point outside the box yields a negative 'volume' -/
theorem hv2d_needs_ref_dominated : hv2dSorted [[5, 0]] [4, 4] = -4 ∧ hvSpec [[5, 0]] [4, 4] = 0 := by decide

example : hv2dSorted [[1, 2], [1, 2], [2, 1], [3, 3], [4, 0]] [4, 4] = 8 ∧
    [[1, 2], [1, 2], [2, 1], [3, 3], [4, 0]].Pairwise (fun a b => px a ≤ px b) ∧
    (∀ p ∈ [[1, 2], [1, 2], [2, 1], [3, 3], [4, 0]], leAll p [4, 4] = true ∧ p.length = 2) := by decide

/-- **C13 (WFG)**: the WFG recursion (special cases for 0, 1, 2 points, `limitSet` with removal of
dominated points) returns the dominated hypervolume, in every dimension, for every input
list (dominated points and duplicates allowed) and for **every** way the two `std::sort`
calls order their input (`ord` is an arbitrary permutation-valued re-ordering). -/
theorem wfg_eq_spec (ord : Reorder) (r : Pt) (S : List Pt) (hS : ∀ p ∈ S, leAll p r = true) :
    wfg ord r S = (hvSpec S r : Int) :=
  HV.wfg_eq_spec ord r S hS

/-- **C13 (HypervolumeCalculatorMDWFG::operator())** -/
theorem hvWfg_eq_spec (S : List Pt) (r : Pt) (hS : ∀ p ∈ S, leAll p r = true) :
    hvWfg S r = (hvSpec S r : Int) :=
  HV.hvWfg_eq_spec S r hS

example : (∀ p ∈ [[1, 1, 1], [0, 2, 2], [1, 1, 1], [2, 0, 3]], leAll p [3, 3, 3] = true) ∧
    hvSpec [[1, 1, 1], [0, 2, 2], [1, 1, 1], [2, 0, 3]] [3, 3, 3] = 9 := by decide

/-! ## HypervolumeCalculator3D (sweep over the third objective with a 2-D staircase)

Model: `Model/HV3D.lean` (`step3` is one iteration of the C++ loop on the `std::map` front, `area`, `volume`,
`prev_x2`).  Proof: `Lemmas/HV3D.lean` (loop invariant `Inv`: the front is the staircase of the processed points,
`area` its 2-D cell count, `volume` the number of dominated cells below `prev`). -/

/-- **C13 (3-D sweep)**: on every list ordered by the third coordinate — ties in any order, so for every outcome
of the unstable `std::sort` — of points strictly inside the reference box, the sweep of `HypervolumeCalculator3D`
(incl. the branches `right == end`, equal first coordinate, removal of dominated front entries) returns the
dominated hypervolume.  Duplicates and dominated points allowed. -/
theorem hv3d_sorted_eq_spec (L : List Pt) (r : Pt) (hsort : L.Pairwise (fun a b => pz a ≤ pz b))
    (hL : ∀ p ∈ L, p.length = 3) (hr : r.length = 3) (hin : ∀ p ∈ L, inside3 r p = true) :
    hv3dSorted L r = (hvSpec L r : Int) :=
  hv3dSorted_eq_spec hsort hL hr hin

/-- **C13 (HypervolumeCalculator3D::operator())**: for every finite list of 3-D points that weakly dominate the
reference point (points on the boundary of the box included: the entry filter removes exactly the points without
volume) the returned value is the dominated hypervolume. -/
theorem hv3d_eq_spec (S : List Pt) (r : Pt) (hS : ∀ p ∈ S, p.length = 3) (hr : r.length = 3)
    (hle : ∀ p ∈ S, leAll p r = true) : hv3d S r = (hvSpec S r : Int) :=
  HV.hv3d_eq_spec hS hr hle

/-- non-vacuity: duplicates, equal first coordinates, a dominated point, a point on the boundary of the box -/
example : (∀ p ∈ [[1, 2, 1], [1, 1, 2], [0, 3, 3], [2, 0, 2], [1, 1, 2], [3, 0, 0]], leAll p [3, 4, 4] = true ∧ p.length = 3) ∧
    hvSpec [[1, 2, 1], [1, 1, 2], [0, 3, 3], [2, 0, 2], [1, 1, 2], [3, 0, 0]] [3, 4, 4] = 19 := by decide

/-! ## The front end `HypervolumeCalculator::operator()` -/

/-- **C13 (dimension switch of the hypervolume front end)**: in 2 objectives (2-D sweep), 3 objectives (3-D sweep)
and 5 or more objectives (WFG) the value returned by the modelled `HypervolumeCalculator` is the dominated
hypervolume, for every finite list of points weakly dominating the reference point.
`_partial`: 4 objectives dispatch to the HOY recursion, whose model (`Model/HOY.lean`) is tied to the C++ and to
`hvSpec` by the exact correspondence and the cell-count oracle only — no theorem `hvHoy = hvSpec` yet. -/
theorem hvDisp_eq_spec_partial (S : List Pt) (r : Pt) (hS : ∀ p ∈ S, p.length = r.length)
    (hle : ∀ p ∈ S, leAll p r = true) (h4 : r.length ≠ 4) : hvDisp S r = (hvSpec S r : Int) := by
  unfold hvDisp
  by_cases he : S.isEmpty = true
  · have : S = [] := List.isEmpty_iff.mp he
    subst this; simp [hvSpec_nil]
  · rw [if_neg he]
    split
    · next h => exact HV.hv2d_eq_spec (fun p hp => (hS p hp).trans h) h hle
    · next h => exact HV.hv3d_eq_spec (fun p hp => (hS p hp).trans h) h hle
    · next h => exact absurd h h4
    · exact HV.hvWfg_eq_spec S r hle

example : (∀ p ∈ [[1, 2, 1], [1, 1, 2], [0, 3, 3]], List.length (α := Int) p = [3, 4, 4].length ∧ leAll p [3, 4, 4] = true) ∧
    [(3 : Int), 4, 4].length ≠ 4 ∧ hvSpec [[1, 2, 1], [1, 1, 2], [0, 3, 3]] [3, 4, 4] = 17 := by decide

/-! ## Hypervolume contributions, least and greatest contributor

`contribSpec S r i = hvSpec S r − hvSpec (S without its i-th entry) r` is the hypervolume lost by removing point `i`. -/

/-- **C13 (selection of the k least / greatest contributors)**: what `std::sort` + truncation (`smallestOf`) and
`std::sort` + truncation + `std::reverse` (`largestOf`) return: `min k n` pairs in ascending (descending) order of
the key, a sub-multiset of the computed pairs, every reported key ≤ (≥) every unreported key — for the merge sort of the
model; `take_sorted_spec`/`drop_sorted_spec` in `Lemmas/Contrib.lean` give the same for **every** key-sorted
permutation, i.e. every outcome of the unstable `std::sort`/heap selection. -/
theorem k_smallest_k_largest_spec (cs : List KV) (k : Nat) :
    ((smallestOf cs k).length = min k cs.length ∧ (smallestOf cs k).Pairwise (fun a b => a.1 ≤ b.1) ∧
      ∃ rest, (smallestOf cs k ++ rest).Perm cs ∧ ∀ a ∈ smallestOf cs k, ∀ b ∈ rest, a.1 ≤ b.1) ∧
    ((largestOf cs k).length = min k cs.length ∧ (largestOf cs k).Pairwise (fun a b => b.1 ≤ a.1) ∧
      ∃ rest, (largestOf cs k ++ rest).Perm cs ∧ ∀ a ∈ largestOf cs k, ∀ b ∈ rest, b.1 ≤ a.1) :=
  ⟨smallestOf_spec cs k, largestOf_spec cs k⟩

/-- the same for every outcome of an unstable sort: `L` is any key-sorted permutation of the computed pairs -/
theorem k_smallest_any_sort (cs L : List KV) (hp : L.Perm cs) (hs : L.Pairwise (fun a b => a.1 ≤ b.1)) (k : Nat) :
    (L.take k).length = min k cs.length ∧ (L.take k).Pairwise (fun a b => a.1 ≤ b.1) ∧
      ∃ rest, (L.take k ++ rest).Perm cs ∧ ∀ a ∈ L.take k, ∀ b ∈ rest, a.1 ≤ b.1 :=
  take_sorted_spec hp hs k

/-- **C13 (HypervolumeContribution2D)**: for every mutually non-dominated 2-D set (duplicates allowed) weakly
dominating the reference point, and for **every** outcome `Z` of the lexicographic `std::sort`, the sentinel-extended
front yields one pair per point and the key of the pair of point `i` is the hypervolume lost by removing `i`. -/
theorem contribution2d_eq_spec (S : List Pt) (r : Pt) (hS : ∀ p ∈ S, p.length = 2) (hr : r.length = 2)
    (hle : ∀ p ∈ S, leAll p r = true) (hnd : ∀ p ∈ S, ∀ q ∈ S, dominates p q = false)
    (Z : List (Pt × Nat)) (hperm : Z.Perm S.zipIdx) (hsort : Z.Pairwise fun a b => lexLe a b = true) :
    ((contribs2dGo (px r) (py r) Z).map (·.2)).Perm (List.range S.length) ∧
    ∀ c ∈ contribs2dGo (px r) (py r) Z, c.1 = contribSpec S r c.2 :=
  contribs2dGo_eq_spec hS hr hle hnd Z hperm hsort

/-- **C13 (least / greatest contributor in 2-D)**: `smallest(points, 1, ref)` reports `(contribution, index)` of a
point whose contribution is minimal, `largest(points, 1, ref)` of one whose contribution is maximal, and the reported
contribution is the hypervolume lost by removing that point. -/
theorem contribution2d_least_greatest (S : List Pt) (r : Pt) (hne : S ≠ []) (hS : ∀ p ∈ S, p.length = 2)
    (hr : r.length = 2) (hle : ∀ p ∈ S, leAll p r = true) (hnd : ∀ p ∈ S, ∀ q ∈ S, dominates p q = false) :
    (∃ i, i < S.length ∧ smallest2d S 1 r = [(contribSpec S r i, i)] ∧ ∀ j, j < S.length → contribSpec S r i ≤ contribSpec S r j) ∧
    (∃ i, i < S.length ∧ largest2d S 1 r = [(contribSpec S r i, i)] ∧ ∀ j, j < S.length → contribSpec S r j ≤ contribSpec S r i) :=
  ⟨smallest2d_least_contributor hne hS hr hle hnd, largest2d_greatest_contributor hne hS hr hle hnd⟩

/-- the hypothesis "mutually non-dominated" of the 2-D contribution theorems cannot be dropped (it is the
precondition in the property text): with a dominated point the routine reports a negative "contribution" -/
theorem contribution2d_needs_nondominated :
    ∃ (S : List Pt) (r : Pt), (∀ p ∈ S, p.length = 2) ∧ r.length = 2 ∧ (∀ p ∈ S, leAll p r = true) ∧
      ¬ ∀ c ∈ contribs2d S r, c.1 = contribSpec S r c.2 :=
  contribs2d_needs_nondominated

example : (∀ p ∈ [[0, 3], [1, 2], [1, 2], [3, 0]], ∀ q ∈ [[0, 3], [1, 2], [1, 2], [3, 0]], dominates p q = false) ∧
    (List.range 4).map (contribSpec [[0, 3], [1, 2], [1, 2], [3, 0]] [4, 4]) = [1, 0, 0, 2] := by decide

/-- **C13 (HypervolumeContributionMD)**: with a rank routine that returns the definition ranks and a hypervolume
routine that returns the dominated hypervolume on the restricted sets, the pair computed for point `i`
(box volume minus hypervolume of the other points clipped to the box and compacted to rank 1 by the swap loop) is
`(hypervolume lost by removing i, i)` — for **every** finite set weakly dominating the reference point, dominated points
and duplicates included (no non-domination hypothesis is needed for this algorithm). -/
theorem contributionMD_eq_spec (rk : List Pt → List Nat) (hv : List Pt → Pt → Int) (m : Nat)
    (S : List Pt) (r : Pt) (hS : ∀ p ∈ S, p.length = m) (hr : r.length = m) (hle : ∀ p ∈ S, leAll p r = true)
    (hrk : ∀ Q, (∀ q ∈ Q, q.length = m) → rk Q = Q.map (rankSpec Q))
    (hhv : ∀ Q, (∀ q ∈ Q, q.length = m) → (∀ q ∈ Q, leAll q r = true) → hv Q r = (hvSpec Q r : Int)) :
    contribsMD rk hv S r = (List.range S.length).map fun i => (contribSpec S r i, i) :=
  contribsMD_eq_spec rk hv m S r hS hr hle hrk hhv

/-- … and its least / greatest contributor -/
theorem contributionMD_least_greatest (rk : List Pt → List Nat) (hv : List Pt → Pt → Int) (m : Nat)
    (S : List Pt) (r : Pt) (hne : S ≠ []) (hS : ∀ p ∈ S, p.length = m) (hr : r.length = m)
    (hle : ∀ p ∈ S, leAll p r = true)
    (hrk : ∀ Q, (∀ q ∈ Q, q.length = m) → rk Q = Q.map (rankSpec Q))
    (hhv : ∀ Q, (∀ q ∈ Q, q.length = m) → (∀ q ∈ Q, leAll q r = true) → hv Q r = (hvSpec Q r : Int)) :
    (∃ i, i < S.length ∧ smallestMD rk hv S 1 r = [(contribSpec S r i, i)] ∧ ∀ j, j < S.length → contribSpec S r i ≤ contribSpec S r j) ∧
    (∃ i, i < S.length ∧ largestMD rk hv S 1 r = [(contribSpec S r i, i)] ∧ ∀ j, j < S.length → contribSpec S r j ≤ contribSpec S r i) :=
  ⟨smallestMD_least_contributor rk hv m S r hne hS hr hle hrk hhv, largestMD_greatest_contributor rk hv m S r hne hS hr hle hrk hhv⟩

/-- the hypotheses on `rk` and `hv` are satisfiable by modelled Shark routines: `fastNonDominatedSort` and WFG -/
theorem contributionMD_fast_wfg (m : Nat) (S : List Pt) (r : Pt) (hS : ∀ p ∈ S, p.length = m)
    (hr : r.length = m) (hle : ∀ p ∈ S, leAll p r = true) :
    contribsMD fastSort hvWfg S r = (List.range S.length).map fun i => (contribSpec S r i, i) :=
  contribsMD_fastSort_wfg m S r hS hr hle

example : (List.range 3).map (contribSpec [[1, 2, 3], [2, 1, 3], [3, 3, 1]] [4, 4, 4]) = [2, 2, 2] := by decide

/-! ## The divide-and-conquer sort and the front end `nonDominatedSort`

Model: `Model/DCSort.lean` (`sweepA`, `sweepB`, `median2`, `splitA`, `splitB`, `helperA`, `helperB`, `dcSort`, `nds`:
one definition per C++ member function).  Proof: `Lemmas/DCSweep.lean` (the two sweeps and the base cases against
their specifications `ASpec`/`BSpec`), `Lemmas/DCSort.lean` (splits, recursion by induction on the depth budget),
`Lemmas/DCFront.lean` (sort/unique/lower_bound front end). -/

/-- **C13 (two-objective sweep `sweepA`)**: on index lists ordered lexicographically by the first two objectives
(distinct projections) the sweep assigns `max(old front, 1 + highest final front of a 2-objective dominator in S)`. -/
theorem dc_sweepA_spec (U : Array Pt) (S : List Nat) (frt : Frt)
    (hlex : S.Pairwise (lexLt2 U)) (hS : ∀ s ∈ S, s < frt.size ∧ 1 ≤ fr frt s) :
    ASpec U 2 S frt (sweepA U S frt) :=
  sweepA_ASpec U S frt hlex hS

/-- **C13 (divide-and-conquer sort, recursion)**: the front numbers computed by `ndHelperA` on the lexicographically
sorted distinct points are the definition ranks — for every dimension `m ≥ 2` and every number of points; the depth
budget `dcFuel` of the model is sufficient (the C++ recursion terminates in the same state). -/
theorem dc_fronts_eq_rankSpec (U : List Pt) (m : Nat) (hm : 2 ≤ m) (hd : ∀ p ∈ U, p.length = m)
    (hsorted : U.Pairwise (fun a b => lexLt a b = true)) :
    ∀ i, i < U.length → fr (dcFronts U m) i = rankSpec U (U.getD i []) :=
  dcFronts_eq_rankSpec U m hm hd hsorted

/-- **C13 (BaseDCNonDominatedSort::operator())**: for every list of points of one dimension `m ≥ 2` — any size,
duplicates, ties in single coordinates, dominated and collinear points — the modelled divide-and-conquer sort
assigns to the `i`-th point the rank of the definition. -/
theorem dcSort_eq_rankSpec (pts : List Pt) (m : Nat) (hm : 2 ≤ m) (hd : ∀ p ∈ pts, p.length = m) :
    dcSort pts = pts.map (rankSpec pts) :=
  DC.dcSort_eq_rankSpec pts m hm hd

/-- **C13 (nonDominatedSort, "whichever internal algorithm is selected")**: whatever the size/dimension switch
`m == 2 || n > 5000 || log(n)/log(3) < m + 1` decides, the ranks are those of the definition. -/
theorem nds_eq_rankSpec (pts : List Pt) (m : Nat) (hm : 2 ≤ m) (hd : ∀ p ∈ pts, p.length = m) :
    nds pts = pts.map (rankSpec pts) :=
  DC.nds_eq_rankSpec pts m hm hd

/-- `2 ≤ m` excludes only the one-objective case, which is outside the property (2 to 6 objectives): there the
recursion of `ndHelperA` would reach `k - 1 = 0` -/
example : (∀ p ∈ [[1, 1, 1], [1, 1, 2], [0, 2, 2], [1, 1, 1], [2, 2, 2]], List.length (α := Int) p = 3) ∧ 2 ≤ 3 := by decide

/-! ## HypervolumeContributionMD as instantiated by the library (`nonDominatedSort` + `HypervolumeCalculator`) -/

/-- **C13 (HypervolumeContributionMD, end to end)**: with the modelled `nonDominatedSort` and the modelled
`HypervolumeCalculator` front end, the computed pairs are `(hypervolume lost by removing i, i)` for every finite
set weakly dominating the reference point (`_partial`: not for 4 objectives, where the front end calls HOY). -/
theorem contributionMD_library_eq_spec_partial (m : Nat) (S : List Pt) (r : Pt) (hm : 2 ≤ m) (h4 : m ≠ 4)
    (hS : ∀ p ∈ S, p.length = m) (hr : r.length = m) (hle : ∀ p ∈ S, leAll p r = true) :
    contribsMD nds hvDisp S r = (List.range S.length).map fun i => (contribSpec S r i, i) :=
  contribsMD_eq_spec nds hvDisp m S r hS hr hle (fun Q hQ => DC.nds_eq_rankSpec Q m hm hQ)
    (fun Q hQ hQr => hvDisp_eq_spec_partial Q r (fun p hp => (hQ p hp).trans hr.symm) hQr (by rw [hr]; exact h4))

/-! ## Rational coordinates

`Lemmas/Scale.lean`: every order-only notion (dominance, ranks, the sorts) is invariant under scaling by a positive
integer and under translation; `hvSpec` is translation invariant and homogeneous of degree `m`.  `Lemmas/RatLift.lean`:
for points with rational coordinates, `hvQ`/`rankQ` (computed with a common denominator) do not depend on the
denominator chosen, agree with `hvSpec`/`rankSpec` on integer points, and `rankQ` satisfies the rank definition for
the rational dominance relation. -/

/-- `hvSpec` is homogeneous of degree `m` and translation invariant (all inputs, no hypotheses on dimensions for scaling) -/
theorem hvSpec_scale_shift (d : Int) (hd : 0 < d) (t : Pt) (S : List Pt) (r : Pt) :
    hvSpec (S.map (scalePt d)) (scalePt d r) = d.toNat ^ r.length * hvSpec S r ∧
    ((∀ p ∈ S, p.length = t.length) → r.length = t.length → hvSpec (S.map (shiftPt t)) (shiftPt t r) = hvSpec S r) :=
  ⟨hvSpec_scale hd S r, hvSpec_shift t S r⟩

/-- the hypervolume of rational points is well defined: any two common denominators give the same value -/
theorem hvQ_well_defined (d d' : Nat) (hd : 0 < d) (hd' : 0 < d') (S : List QPt) (r : QPt)
    (hS : ∀ p ∈ S, Clears d p) (hr : Clears d r) (hS' : ∀ p ∈ S, Clears d' p) (hr' : Clears d' r) :
    hvSpecQ d S r = hvSpecQ d' S r ∧ hvQ S r = hvSpecQ d S r :=
  ⟨hvSpecQ_indep hd hd' S r hS hr hS' hr', hvQ_eq hd S r hS hr⟩

/-- **C13 lifted to rational coordinates (sorting)**: run on the integer points obtained by multiplying with any
common denominator `d`, the modelled `nonDominatedSort` returns the ranks `rankQ` of the rational points, and `rankQ`
is one plus the highest rank among the rational dominators. -/
theorem nds_rational (d : Nat) (hd : 0 < d) (m : Nat) (hm : 2 ≤ m) (S : List QPt)
    (hS : ∀ p ∈ S, Clears d p) (hdim : ∀ p ∈ S, p.length = m) :
    nds (S.map (toIntPt d)) = S.map (rankQ S) ∧
    ∀ p, rankQ S p = 1 + ((S.filter fun q => dominatesQ q p).map (rankQ S)).foldl max 0 := by
  refine ⟨?_, rankQ_spec S⟩
  rw [DC.nds_eq_rankSpec (S.map (toIntPt d)) m hm (by
    intro p hp; obtain ⟨q, hq, rfl⟩ := List.mem_map.mp hp; simpa [toIntPt] using hdim q hq)]
  rw [List.map_map]
  apply List.map_congr_left
  intro p hp
  rw [rankQ_eq hd S p hS (hS p hp)]; rfl

/-! ## HypervolumeSubsetSelection2D

Model: `Model/Subset2D.lean`.  Proof: `Lemmas/Subset2DEnv.lean` (the deque of `upperEnvelope` is the upper convex hull
of the lines inserted so far; its front is the maximum at the current abscissa), `Lemmas/Subset2D.lean` (invariant of
the dynamic programme, back-tracking, fill-up, `createFront`). -/

open SharkVerif.SSP in
/-- **C13 (upper envelope)**: for lines with strictly increasing slopes queried at non-decreasing abscissae the deque
algorithm returns, at every position `i`, the maximum over `j ≤ i` of `f_j(x_i)`, together with an index attaining it. -/
theorem ssp_upperEnvelope_eq_max (fs : List (LF × Int))
    (hsorted : fs.Pairwise (fun u v => u.2 ≤ v.2 ∧ u.1.a < v.1.a)) :
    (envGo [] fs).map (·.1) = envNaive fs :=
  (upperEnvelope_eq_max fs hsorted).1

open SharkVerif.SSP in
/-- **C13 (the dynamic programme is optimal)**: on a front (first objective strictly increasing, second strictly
decreasing, reference point at the origin) `hypSSP` marks exactly `k` distinct positions and no sub-list of at most
`k` front points has a larger dominated hypervolume. -/
theorem ssp_hypSSP_optimal (F : List P2) (hF : IsFront F) (k : Nat) (hk : 1 ≤ k) (hkn : k ≤ F.length) :
    (hypSSP F k).Nodup ∧ (hypSSP F k).length = k ∧ (∀ i ∈ hypSSP F k, i < F.length) ∧
    ∀ T : List P2, T.Sublist F → T.length ≤ k →
      hvSpec (T.map P2.pt) [0, 0] ≤ hvSpec ((hypSSP F k).map (ptOf F)) [0, 0] :=
  hypSSP_optimal hF hk hkn

open SharkVerif.SSP in
/-- **C13 (two-dimensional subset selection returns a subset of maximal hypervolume)**, operator level, with the
intended lexicographic comparator: for every finite 2-D set weakly dominating the reference point (dominated points,
duplicates, equal coordinates, points on the boundary of the box included) and `1 ≤ k ≤` size of the front, exactly
`k` flags are set and the selected points have the largest hypervolume of all `k`-element sub-lists. -/
theorem ssp_select_optimal (S : List Pt) (r : Pt) (k : Nat) (hS : ∀ p ∈ S, p.length = 2) (hr : r.length = 2)
    (hle : ∀ p ∈ S, leAll p r = true) (hk : 1 ≤ k) (hkF : k ≤ (createFrontWith ptLtFixed S r).length) :
    (selectWith ptLtFixed S k r).count true = k ∧
    hvSpec (selectedWith ptLtFixed S k r) r = bestSubsetHv S k r :=
  ⟨(select_optimal hS hr hle hk hkF).2.1, select_eq_bestSubsetHv hS hr hle hk hkF⟩

open SharkVerif.SSP in
/-- the comparator of the C++ (`Point::operator<`, regenerated from the source on every run into
`Gen/SspPointLess.lean`) **is** the lexicographic order on `(f1, f2)`.  This holds since /repo d62b7243; should the
tie-break be edited again this theorem — and with it the two below — fails to compile, i.e. the check breaks. -/
theorem ssp_comparator_is_lexicographic : ptLt = ptLtFixed := by
  funext a b
  unfold ptLt SharkVerif.Gen.sspPointLess ptLtFixed
  rfl

open SharkVerif.SSP in
/-- **C13 (two-dimensional subset selection returns a subset of maximal hypervolume)** for the operator **as written
in the C++**: for every finite 2-D set weakly dominating the reference point — dominated points, duplicates, equal
first or second coordinates, points on the boundary of the box — and every `1 ≤ k ≤` size of the front, exactly `k`
flags are set and the selected points have the largest hypervolume among all `k`-element sub-lists.  (Full
strength: the hypothesis "pairwise distinct first coordinates" of the earlier `_partial` version was forced by the
comparator defect C13-SSP-LEXLESS, repaired in /repo d62b7243.) -/
theorem ssp_select_optimal_real (S : List Pt) (r : Pt) (k : Nat) (hS : ∀ p ∈ S, p.length = 2) (hr : r.length = 2)
    (hle : ∀ p ∈ S, leAll p r = true) (hk : 1 ≤ k) (hkF : k ≤ (createFront S r).length) :
    (select S k r).count true = k ∧ hvSpec (SharkVerif.SSP.selected S k r) r = bestSubsetHv S k r := by
  have hsel : select S k r = selectWith ptLtFixed S k r := by
    unfold select; rw [ssp_comparator_is_lexicographic]
  have hsd : SharkVerif.SSP.selected S k r = selectedWith ptLtFixed S k r := by
    unfold SharkVerif.SSP.selected selectedWith; rw [hsel]
  have hF : createFront S r = createFrontWith ptLtFixed S r := by
    unfold createFront; rw [ssp_comparator_is_lexicographic]
  rw [hF] at hkF
  rw [hsel, hsd]
  exact ssp_select_optimal S r k hS hr hle hk hkF

/-- history (finding C13-SSP-LEXLESS): the comparator the C++ had before /repo d62b7243, `f2 < rhs.f1` in the
tie-break, is not irreflexive — it is no strict weak order, `std::sort` with it has undefined behaviour -/
theorem ssp_old_comparator_not_irreflexive :
    ∃ a : SharkVerif.SSP.P2, (if a.f1 < a.f1 then true else if a.f1 < a.f1 then false else decide (a.f2 < a.f1)) = true :=
  ⟨⟨-1, -2, 0⟩, by decide⟩

example : SharkVerif.SSP.IsFront [⟨-5, -1, 0⟩, ⟨-3, -2, 1⟩, ⟨-1, -4, 2⟩] := ⟨by decide, by decide⟩

/-! ## HypervolumeContribution3D (sweep with the x-y front and the box deques)

Model: `Model/Contrib3D.lean`.  Proved (`Lemmas/Contrib3D.lean` … `Contrib3DE.lean`): the index bookkeeping, the
treatment of points on the boundary of the reference box (/repo 778c5b2c), the reduction of the operator to the sweep
on shifted, sorted, strictly-inside points, the slicing of a contribution by height, conservation of
"contribution + volume of the open boxes" by both cuts, the geometry of the boxes created for a new point
(`newBoxes_mem`), the chain invariant of a box list under both cuts.  Open: the assembly of these into the loop
invariant of `step3c` (`SweepCorrect`). -/

/-- every point gets exactly one `(contribution, index)` pair (unconditional) -/
theorem contribution3d_indices (S : List Pt) (r : Pt) :
    ((contribs3d S r).map (·.2)).Perm (List.range S.length) :=
  contribs3d_map_snd_perm S r

/-- **C13 (HypervolumeContribution3D)** — `_partial`: the operator-level statement (mutually non-dominated 3-D sets,
duplicates and boundary points allowed: one pair per point whose key is the hypervolume lost by removing the point)
is proved **from** the correctness of the inner sweep on sorted, strictly negative, mutually non-dominated fronts
(`SweepCorrect`, a statement about `sweepContrib` = `allContributions(front)` only); that loop invariant is not proved
yet.  On every run the sweep is compared with `contribSpec` by the correspondence and the oracle, also on all
prefixes of the input in sweep order. -/
theorem contribution3d_eq_spec_partial (hsw : SweepCorrect) (S : List Pt) (r : Pt) (hS : ∀ p ∈ S, p.length = 3)
    (hr : r.length = 3) (hle : ∀ p ∈ S, leAll p r = true) (hnd : ∀ p ∈ S, ∀ q ∈ S, dominates p q = false) :
    ((contribs3d S r).map (·.2)).Perm (List.range S.length) ∧ ∀ c ∈ contribs3d S r, c.1 = contribSpec S r c.2 :=
  contribs3d_eq_spec_of_sweep hsw hS hr hle hnd

/-- a point with a coordinate equal to the reference point has contribution 0 (what /repo 778c5b2c relies on) -/
theorem contribution_of_boundary_point_is_zero {S : List Pt} {r : Pt} (hS : ∀ p ∈ S, p.length = 3) (hr : r.length = 3)
    (hle : ∀ p ∈ S, leAll p r = true) {i : Nat} (hi : i < S.length) (hout : inside3 r S[i] = false) :
    contribSpec S r i = 0 :=
  contribSpec_boundary hS hr hle hi hout

/-- the precondition "mutually non-dominated" is needed by the 3-D sweep as well -/
theorem contribution3d_needs_nondominated :
    ∃ (S : List Pt) (r : Pt), (∀ p ∈ S, p.length = 3) ∧ r.length = 3 ∧ (∀ p ∈ S, leAll p r = true) ∧
      ¬ ∀ c ∈ contribs3d S r, c.1 = contribSpec S r c.2 :=
  contribs3d_needs_nondominated

/-! ## HypervolumeCalculatorMDHOY

Model: `Model/HOY.lean`.  Proved (`Lemmas/HOYBasic.lean`, `Lemmas/HOY.lean`): the cover scan, the pile/trellis case
(`computeTrellis` = Π(up−low) − Π(trellis−low) = the covered part of a level), the split case for a bound inside the
region, the entry (filter, sort, doubling, `regLow`).  The C++ keeps the `boundaries` arrays when it advances `split`,
so the median used as bound for an objective can be a value collected for an earlier objective and lie outside the
region; this is reachable from `operator()` (corpus/C13/subroutines.txt) and harmless there (objectives behind
`split` are uncut: an out-of-region bound adds an uncovered slab or a uniformly covered slab that the child with
negative extent subtracts again), but the signed-extent argument is not formalised. -/

open SharkVerif.HOY in
/-- **C13 (HOY, `stream`)** — `_partial`: on every state satisfying the invariant `Reg` (dimensions, `low ≤ up`, points
reach into the region, sorted by the last objective, below `cover`) whose run passes the executable checker
`streamOk` (depth budget not exhausted, every split objective `< m-1`, every bound within `[low, up]` of its
objective), `stream` returns the number of dominated cells of the region below `cover`. -/
theorem hoy_stream_eq_spec_partial (sqrtN m fuel : Nat) (low up : Pt) (pts : List Pt) (split : Nat) (cover : Int)
    (h : Reg m low up pts cover) (hok : streamOk sqrtN fuel low up pts split cover = true) :
    stream sqrtN fuel low up pts split cover = ((streamSpec low up pts cover : Nat) : Int) :=
  stream_eq_spec_partial sqrtN m fuel low up pts split cover h hok

open SharkVerif.HOY in
/-- **C13 (HypervolumeCalculatorMDHOY::operator())** — `_partial`: for every finite set of points of the dimension of
the reference point (no hypothesis on dominance, duplicates, boundary points) whose run passes `hoyOk` — the Boolean
replay of the run that checks the three conditions of `streamOk` at every node — the value is the dominated
hypervolume.  `hoyOk` is false on some admissible inputs (out-of-region bounds, see above): there the result is still
observed to be correct (correspondence + oracle, incl. `stream` called directly on reachable states) but not proved.
Missing for the full statement `hvHoy S r = hvSpec S r`: the signed-extent version of the split lemma and a bound on
the recursion depth. -/
theorem hvHoy_eq_spec_partial (S : List Pt) (r : Pt) (hS : ∀ p ∈ S, p.length = r.length) (hr : 1 ≤ r.length)
    (hok : hoyOk S r = true) : hvHoy S r = ((hvSpec S r : Nat) : Int) :=
  SharkVerif.HOY.hvHoy_eq_spec_partial S r hS hr hok

open SharkVerif.HOY in
/-- the front end in exactly 4 objectives, under the same run condition (complements `hvDisp_eq_spec_partial`) -/
theorem hvDisp_four_objectives_partial (S : List Pt) (r : Pt) (hS : ∀ p ∈ S, p.length = r.length) (h4 : r.length = 4)
    (hok : hoyOk S r = true) : hvDisp S r = ((hvSpec S r : Nat) : Int) := by
  unfold hvDisp
  by_cases he : S.isEmpty = true
  · have : S = [] := List.isEmpty_iff.mp he
    subst this; simp [hvSpec_nil]
  · rw [if_neg he]
    split
    · next h => omega
    · next h => omega
    · exact SharkVerif.HOY.hvHoy_eq_spec_partial S r hS (by omega) hok
    · next h1 h2 h3 => exact absurd h4 h3

/-- non-vacuity: a 3-objective state with two mutually non-dominated points (a split node and pile nodes below it) -/
example : SharkVerif.HOY.streamOk 1 20 [0, 0, 0] [4, 4, 4] [[2, 1, 0], [1, 2, 1]] 0 4 = true ∧
    SharkVerif.HOY.stream 1 20 [0, 0, 0] [4, 4, 4] [[2, 1, 0], [1, 2, 1]] 0 4 = 30 := by decide

end SharkVerif.C13
