/-
C13 — Pareto dominance, non-dominated sorting and hypervolume computations are exact.

Property theorems about the models in `Model/Pareto.lean` and
`Model/Hypervolume.lean` (tied to the C++ by the exact correspondence check
`checks/c13.py`).  Helper lemmas: `Lemmas/Pareto.lean`, `Lemmas/FastSort.lean`,
`Lemmas/Hypervolume.lean`.  All statements quantify over every finite list of
integer points, of every dimension and every size (duplicates, ties, dominated
and collinear points included); the only hypothesis is the C++ precondition that
all vectors of a call have the same dimension.
-/
import SharkVerif.Lemmas.FastSort
namespace SharkVerif.C13
open SharkVerif.Pareto

/-! ## Dominance -/

/-- **C13 (dominance)**: `shark::dominance` returns the relation of its definition:
`LHS_DOMINATES_RHS` iff `p ≤ q` in every objective and not `q ≤ p`, symmetrically
for `RHS_DOMINATES_LHS`, `EQUIVALENT` iff the vectors are equal, `INCOMPARABLE` otherwise. -/
theorem dominance_spec (p q : Pt) (h : p.length = q.length) :
    (dominance p q = .lhsDominates ↔ dominates p q = true) ∧
    (dominance p q = .rhsDominates ↔ dominates q p = true) ∧
    (dominance p q = .equivalent ↔ p = q) ∧
    (dominance p q = .incomparable ↔ leAll p q = false ∧ leAll q p = false) :=
  dominance_iff p q h

example : dominance [1, 2] [1, 3] = .lhsDominates ∧ dominance [1, 3] [1, 3] = .equivalent ∧
    dominance [0, 3] [1, 2] = .incomparable := by decide

/-- strict dominance is a strict partial order (what makes `rankSpec` well-founded) -/
theorem dominates_strict_order :
    (∀ p : Pt, dominates p p = false) ∧
    (∀ p q s : Pt, dominates p q = true → dominates q s = true → dominates p s = true) :=
  ⟨dominates_irrefl, fun _ _ _ => dominates_trans⟩

/-! ## The rank specification -/

/-- **the definition of the non-domination rank**: `rankSpec S p` is one plus the highest rank
among the points of `S` dominating `p` (the maximum of the empty set being 0). -/
theorem rankSpec_def (S : List Pt) (p : Pt) :
    rankSpec S p = 1 + ((S.filter fun q => dominates q p).map (rankSpec S)).foldl max 0 :=
  rankSpec_eq S p

/-- … equivalently: every dominator has a smaller rank, and the rank is 1 or exactly one more
than the rank of some dominator. -/
theorem rankSpec_characterisation (S : List Pt) (p : Pt) :
    (∀ q ∈ S, dominates q p = true → rankSpec S q < rankSpec S p) ∧
    (rankSpec S p = 1 ∨ ∃ q ∈ S, dominates q p = true ∧ rankSpec S p = rankSpec S q + 1) :=
  ⟨fun _ hq hd => rankSpec_lt S hq hd, rankSpec_cases S p⟩

/-- the defining equation has exactly one solution on `S`: any rank assignment `f` with
"`f p` = 1 + highest `f` among the dominators of `p`" coincides with `rankSpec` -/
theorem rankSpec_unique (S : List Pt) (f : Pt → Nat)
    (hf : ∀ p ∈ S, f p = 1 + ((S.filter fun q => dominates q p).map f).foldl max 0) :
    ∀ p ∈ S, f p = rankSpec S p := by
  suffices H : ∀ k, ∀ p ∈ S, (S.countP fun q => dominates q p) = k → f p = rankSpec S p by
    intro p hp; exact H _ p hp rfl
  intro k
  induction k using Nat.strongRecOn with
  | _ k ih =>
    intro p hp hk
    rw [hf p hp, rankSpec_eq S p]
    congr 2
    apply List.map_congr_left
    intro q hq
    have hq' := List.mem_filter.mp hq
    have hlt : (S.countP fun x => dominates x q) < S.countP fun x => dominates x p :=
      countP_lt_of_imp S (fun x => dominates x q) (fun x => dominates x p)
        (fun x hx => dominates_trans hx hq'.2) q hq'.1 hq'.2 (by simp [dominates_irrefl])
    exact ih _ (by omega) q hq'.1 rfl

/-! ## fastNonDominatedSort -/

/-- **C13 (sorting, main theorem)**: for every list of points of equal dimension — any size,
duplicates, ties, dominated points — the model of `fastNonDominatedSort` assigns to the `i`-th
point exactly `rankSpec`, the rank given by the definition. -/
theorem fastSort_eq_rankSpec (pts : List Pt) (m : Nat) (hd : ∀ p ∈ pts, p.length = m) :
    fastSort pts = pts.map (rankSpec pts) :=
  fastSort_eq hd

/-- the result does not depend on the contents of the rank array passed in, and the
`while(!front.empty())` loop has reached the empty front when the model's pass budget
(`n + 1` passes) is used up: model and C++ loop stop in the same state. -/
theorem fastSort_terminates (pts : List Pt) (m : Nat) (hd : ∀ p ∈ pts, p.length = m)
    (ranks0 : Array Nat) (h0 : ranks0.size = pts.length) :
    (fastSortState pts ranks0).1 = [] ∧
    (fastSortState pts ranks0).2.rank.toList = pts.map (rankSpec pts) := by
  obtain ⟨h1, hs, hr⟩ := fastSortState_spec hd ranks0 h0
  refine ⟨h1, ?_⟩
  apply List.ext_getElem
  · simp [hs]
  · intro i _ h2
    have hi : i < pts.length := by simpa using h2
    have := hr i hi
    unfold gd at this
    rw [Array.getD_eq_getD_getElem?, Array.getElem?_eq_getElem (by omega)] at this
    simp only [Option.getD_some] at this
    simp only [Array.getElem_toList, List.getElem_map]
    rw [this, rk, pt_eq pts hi]

/-- the loop invariant holds initially and is preserved by every pass (all reachable loop states) -/
theorem fastSort_invariant (pts : List Pt) (m : Nat) (hd : ∀ p ∈ pts, p.length = m) :
    (∀ r0 : Array Nat, r0.size = pts.length → Inv pts 2 (initState pts r0).1 (initState pts r0).2) ∧
    (∀ c front st, Inv pts c front st →
      Inv pts (c + 1) (round pts c front st).next.toList (round pts c front st)) :=
  ⟨fun r0 h0 => init_inv hd r0 h0, fun _ _ _ h => round_inv hd h⟩

/-- in every reachable loop state no dominator counter is decremented more often than its value:
the unsigned counters of the C++ never wrap around -/
theorem fastSort_counters_never_wrap (pts : List Pt) (m : Nat) (hd : ∀ p ∈ pts, p.length = m)
    (c : Nat) (front : List Nat) (st : FS) (h : Inv pts c front st) (x : Nat) (hx : x < pts.length) :
    (front.flatMap (domList pts)).count x ≤ st.cnt.getD x 0 :=
  round_counts_le hd h x hx

/-- non-vacuity: a population with duplicates, a tie in one coordinate and three fronts -/
example : fastSort [[1, 1], [1, 1], [1, 2], [2, 2], [0, 3]] = [1, 1, 2, 3, 1] ∧
    (∀ p ∈ [[1, 1], [1, 1], [1, 2], [2, 2], [0, 3]], List.length (α := Int) p = 2) := by decide

end SharkVerif.C13
