/-
C13 — Pareto dominance, non-dominated sorting and hypervolume computations are exact.

Property theorems about the models in `Model/Pareto.lean` and
`Model/Hypervolume.lean` (tied to the C++ by the exact correspondence check
`checks/c13.py`).  Helper lemmas: `Lemmas/Pareto.lean`, `Lemmas/FastSort.lean`,
`Lemmas/Hypervolume.lean`.  All statements quantify over every finite list of
integer points, of every dimension and every size (duplicates, ties, dominated
and collinear points included); the only hypothesis is the C++ precondition that
all vectors of a call have the same dimension.
-/
import SharkVerif.Lemmas.FastSort
import SharkVerif.Lemmas.Hypervolume
namespace SharkVerif.C13
open SharkVerif.Pareto SharkVerif.HV

/-! ## Dominance -/

/-- **C13 (dominance)**: `shark::dominance` returns the relation of its definition:
`LHS_DOMINATES_RHS` iff `p ≤ q` in every objective and not `q ≤ p`, symmetrically
for `RHS_DOMINATES_LHS`, `EQUIVALENT` iff the vectors are equal, `INCOMPARABLE` otherwise. -/
theorem dominance_spec (p q : Pt) (h : p.length = q.length) :
    (dominance p q = .lhsDominates ↔ dominates p q = true) ∧
    (dominance p q = .rhsDominates ↔ dominates q p = true) ∧
    (dominance p q = .equivalent ↔ p = q) ∧
    (dominance p q = .incomparable ↔ leAll p q = false ∧ leAll q p = false) :=
  dominance_iff p q h

example : dominance [1, 2] [1, 3] = .lhsDominates ∧ dominance [1, 3] [1, 3] = .equivalent ∧
    dominance [0, 3] [1, 2] = .incomparable := by decide

/-- strict dominance is a strict partial order (what makes `rankSpec` well-founded) -/
theorem dominates_strict_order :
    (∀ p : Pt, dominates p p = false) ∧
    (∀ p q s : Pt, dominates p q = true → dominates q s = true → dominates p s = true) :=
  ⟨dominates_irrefl, fun _ _ _ => dominates_trans⟩

/-! ## The rank specification -/

/-- **the definition of the non-domination rank**: `rankSpec S p` is one plus the highest rank
among the points of `S` dominating `p` (the maximum of the empty set being 0). -/
theorem rankSpec_def (S : List Pt) (p : Pt) :
    rankSpec S p = 1 + ((S.filter fun q => dominates q p).map (rankSpec S)).foldl max 0 :=
  rankSpec_eq S p

/-- … equivalently: every dominator has a smaller rank, and the rank is 1 or exactly one more
than the rank of some dominator. -/
theorem rankSpec_characterisation (S : List Pt) (p : Pt) :
    (∀ q ∈ S, dominates q p = true → rankSpec S q < rankSpec S p) ∧
    (rankSpec S p = 1 ∨ ∃ q ∈ S, dominates q p = true ∧ rankSpec S p = rankSpec S q + 1) :=
  ⟨fun _ hq hd => rankSpec_lt S hq hd, rankSpec_cases S p⟩

/-- the defining equation has exactly one solution on `S`: any rank assignment `f` with
"`f p` = 1 + highest `f` among the dominators of `p`" coincides with `rankSpec` -/
theorem rankSpec_unique (S : List Pt) (f : Pt → Nat)
    (hf : ∀ p ∈ S, f p = 1 + ((S.filter fun q => dominates q p).map f).foldl max 0) :
    ∀ p ∈ S, f p = rankSpec S p := by
  suffices H : ∀ k, ∀ p ∈ S, (S.countP fun q => dominates q p) = k → f p = rankSpec S p by
    intro p hp; exact H _ p hp rfl
  intro k
  induction k using Nat.strongRecOn with
  | _ k ih =>
    intro p hp hk
    rw [hf p hp, rankSpec_eq S p]
    congr 2
    apply List.map_congr_left
    intro q hq
    have hq' := List.mem_filter.mp hq
    have hlt : (S.countP fun x => dominates x q) < S.countP fun x => dominates x p :=
      countP_lt_of_imp S (fun x => dominates x q) (fun x => dominates x p)
        (fun x hx => dominates_trans hx hq'.2) q hq'.1 hq'.2 (by simp [dominates_irrefl])
    exact ih _ (by omega) q hq'.1 rfl

/-! ## fastNonDominatedSort -/

/-- **C13 (sorting, main theorem)**: for every list of points of equal dimension — any size,
duplicates, ties, dominated points — the model of `fastNonDominatedSort` assigns to the `i`-th
point exactly `rankSpec`, the rank given by the definition. -/
theorem fastSort_eq_rankSpec (pts : List Pt) (m : Nat) (hd : ∀ p ∈ pts, p.length = m) :
    fastSort pts = pts.map (rankSpec pts) :=
  fastSort_eq hd

/-- the result does not depend on the contents of the rank array passed in, and the
`while(!front.empty())` loop has reached the empty front when the model's pass budget
(`n + 1` passes) is used up: model and C++ loop stop in the same state. -/
theorem fastSort_terminates (pts : List Pt) (m : Nat) (hd : ∀ p ∈ pts, p.length = m)
    (ranks0 : Array Nat) (h0 : ranks0.size = pts.length) :
    (fastSortState pts ranks0).1 = [] ∧
    (fastSortState pts ranks0).2.rank.toList = pts.map (rankSpec pts) := by
  obtain ⟨h1, hs, hr⟩ := fastSortState_spec hd ranks0 h0
  refine ⟨h1, ?_⟩
  apply List.ext_getElem
  · simp [hs]
  · intro i _ h2
    have hi : i < pts.length := by simpa using h2
    have := hr i hi
    unfold gd at this
    rw [Array.getD_eq_getD_getElem?, Array.getElem?_eq_getElem (by omega)] at this
    simp only [Option.getD_some] at this
    simp only [Array.getElem_toList, List.getElem_map]
    rw [this, rk, pt_eq pts hi]

/-- the loop invariant holds initially and is preserved by every pass (all reachable loop states) -/
theorem fastSort_invariant (pts : List Pt) (m : Nat) (hd : ∀ p ∈ pts, p.length = m) :
    (∀ r0 : Array Nat, r0.size = pts.length → Inv pts 2 (initState pts r0).1 (initState pts r0).2) ∧
    (∀ c front st, Inv pts c front st →
      Inv pts (c + 1) (round pts c front st).next.toList (round pts c front st)) :=
  ⟨fun r0 h0 => init_inv hd r0 h0, fun _ _ _ h => round_inv hd h⟩

/-- in every reachable loop state no dominator counter is decremented more often than its value:
the unsigned counters of the C++ never wrap around -/
theorem fastSort_counters_never_wrap (pts : List Pt) (m : Nat) (hd : ∀ p ∈ pts, p.length = m)
    (c : Nat) (front : List Nat) (st : FS) (h : Inv pts c front st) (x : Nat) (hx : x < pts.length) :
    (front.flatMap (domList pts)).count x ≤ st.cnt.getD x 0 :=
  round_counts_le hd h x hx

/-- non-vacuity: a population with duplicates, a tie in one coordinate and three fronts -/
example : fastSort [[1, 1], [1, 1], [1, 2], [2, 2], [0, 3]] = [1, 1, 2, 3, 1] ∧
    (∀ p ∈ [[1, 1], [1, 1], [1, 2], [2, 2], [0, 3]], List.length (α := Int) p = 2) := by decide


/-! ## The hypervolume specification

`hvSpec S r` counts the unit cells `[z, z+1)` of the integer grid with `lower S r ≤ z < r`
whose lower corner is weakly dominated by a point of `S`.  For integer points this is the
Lebesgue measure of the region dominated by `S` and bounded by `r`. -/

/-- what `hvSpec` counts: for **every** corner `lo` below `r` and below all points, `hvSpec S r` is
the number of grid cells `z` in the box `lo ≤ z < r` (`cells` enumerates each exactly once)
that are weakly dominated by some point of `S` — the choice of the bounding box is irrelevant. -/
theorem hvSpec_is_dominated_cell_count (lo : Pt) (S : List Pt) (r : Pt) (hr : leAll lo r = true)
    (hS : ∀ p ∈ S, leAll lo p = true) :
    hvSpec S r = ((cells lo r).filter fun z => S.any fun p => leAll p z).length ∧
    (cells lo r).Nodup ∧ (∀ z, z ∈ cells lo r ↔ inBox lo z r) := by
  refine ⟨?_, nodup_cells lo r, fun z => mem_cells⟩
  rw [hvSpec_eq_hvCount hr hS, hvCount, List.countP_eq_length_filter]; rfl

/-- **C13 (hypervolume, permutation invariance)** -/
theorem hvSpec_perm_invariant (S T : List Pt) (r : Pt) (h : S.Perm T) : hvSpec S r = hvSpec T r :=
  hvSpec_perm h

/-- **C13 (adding a dominated point)**: a point weakly dominated by a member of `S` can be
inserted at any position without changing the hypervolume -/
theorem hvSpec_add_dominated_point (S₁ S₂ : List Pt) (p q r : Pt) (hp : p ∈ S₁ ++ S₂)
    (hpq : leAll p q = true) : hvSpec (S₁ ++ q :: S₂) r = hvSpec (S₁ ++ S₂) r :=
  hvSpec_insert_dominated hp hpq

/-- **C13 (adding a duplicate)** -/
theorem hvSpec_add_duplicate_point (S₁ S₂ : List Pt) (p r : Pt) (hp : p ∈ S₁ ++ S₂) :
    hvSpec (S₁ ++ p :: S₂) r = hvSpec (S₁ ++ S₂) r :=
  hvSpec_insert_dominated hp (leAll_refl p)

/-- **C13 (monotonicity)**: if every point of `S` is weakly dominated by a point of `T`
(in particular if `S ⊆ T`), then `hvSpec S r ≤ hvSpec T r` -/
theorem hvSpec_monotone (m : Nat) (S T : List Pt) (r : Pt) (hr : r.length = m)
    (hT : ∀ q ∈ T, q.length = m) (h : ∀ p ∈ S, ∃ q ∈ T, leAll q p = true) :
    hvSpec S r ≤ hvSpec T r :=
  hvSpec_mono hr hT h

/-- the dimension hypothesis on `T` in `hvSpec_monotone` excludes only ill-formed input: a
vector of the wrong dimension in `T` makes the box degenerate -/
theorem hvSpec_monotone_needs_dims :
    hvSpec [[0]] [5] = 5 ∧ hvSpec [[0], []] [5] = 0 := by decide

/-- sub-additivity -/
theorem hvSpec_union_le_add (S T : List Pt) (r : Pt) :
    hvSpec (S ++ T) r ≤ hvSpec S r + hvSpec T r :=
  hvSpec_union_le

/-- removing all dominated points (keeping one copy or all copies of duplicates) keeps the volume -/
theorem hvSpec_nonDominated_eq (S : List Pt) (r : Pt) : hvSpec (nonDominated S) r = hvSpec S r :=
  hvSpec_nonDominated

/-- inclusion–exclusion (the identity behind WFG and the contribution algorithms) -/
theorem hvSpec_inclusion_exclusion (m : Nat) (p r : Pt) (S : List Pt) (hpr : leAll p r = true)
    (hr : r.length = m) (hS : ∀ s ∈ S, s.length = m) :
    ((hvSpec (p :: S) r : Nat) : Int) = hvSpec S r + boxVol p r - hvSpec (S.map (pmax p)) r :=
  hvSpec_cons hpr hr hS

/-- the hypervolume contribution of a point is never negative -/
theorem contribSpec_nonneg (m : Nat) (S : List Pt) (r : Pt) (i : Nat) (hr : r.length = m)
    (hS : ∀ q ∈ S, q.length = m) : 0 ≤ contribSpec S r i := by
  unfold contribSpec
  have := hvSpec_mono_subset (S := S.eraseIdx i) hr hS (fun p hp => List.mem_of_mem_eraseIdx hp)
  omega

example : hvSpec [[1, 2], [2, 1], [3, 3]] [4, 4] = 8 ∧ contribSpec [[1, 2], [2, 1], [3, 3]] [4, 4] 2 = 0 := by
  decide

/-! ## HypervolumeCalculator2D and the WFG recursion -/

/-- **C13 (2-D sweep)**: on every list ordered by the first coordinate — whatever the order among
equal keys, so for every outcome of the unstable `std::sort` — the integration loop of
`HypervolumeCalculator2D` returns the dominated hypervolume (dominated points, duplicates and
points on the boundary of the reference box included). -/
theorem hv2d_sorted_eq_spec (L : List Pt) (r : Pt) (hsort : L.Pairwise (fun a b => px a ≤ px b))
    (hL : ∀ p ∈ L, p.length = 2) (hr : r.length = 2) (hle : ∀ p ∈ L, leAll p r = true) :
    hv2dSorted L r = (hvSpec L r : Int) :=
  hv2dSorted_eq_spec hsort hL hr hle

/-- **C13 (HypervolumeCalculator2D)** -/
theorem hv2d_eq_spec (S : List Pt) (r : Pt) (hS : ∀ p ∈ S, p.length = 2) (hr : r.length = 2)
    (hle : ∀ p ∈ S, leAll p r = true) : hv2d S r = (hvSpec S r : Int) :=
  HV.hv2d_eq_spec hS hr hle

/-- the hypothesis "every point weakly dominates the reference point" (the documented C++
precondition) cannot be dropped: a point outside the box yields a negative 'volume' -/
theorem hv2d_needs_ref_dominated : hv2dSorted [[5, 0]] [4, 4] = -4 ∧ hvSpec [[5, 0]] [4, 4] = 0 := by decide

example : hv2dSorted [[1, 2], [1, 2], [2, 1], [3, 3], [4, 0]] [4, 4] = 8 ∧
    [[1, 2], [1, 2], [2, 1], [3, 3], [4, 0]].Pairwise (fun a b => px a ≤ px b) ∧
    (∀ p ∈ [[1, 2], [1, 2], [2, 1], [3, 3], [4, 0]], leAll p [4, 4] = true ∧ p.length = 2) := by decide

/-- **C13 (WFG)**: the WFG recursion (special cases for 0, 1, 2 points, `limitSet` with removal of
dominated points) returns the dominated hypervolume, in every dimension, for every input
list (dominated points and duplicates allowed) and for **every** way the two `std::sort`
calls order their input (`ord` is an arbitrary permutation-valued re-ordering). -/
theorem wfg_eq_spec (ord : Reorder) (r : Pt) (S : List Pt) (hS : ∀ p ∈ S, leAll p r = true) :
    wfg ord r S = (hvSpec S r : Int) :=
  HV.wfg_eq_spec ord r S hS

/-- **C13 (HypervolumeCalculatorMDWFG::operator())** -/
theorem hvWfg_eq_spec (S : List Pt) (r : Pt) (hS : ∀ p ∈ S, leAll p r = true) :
    hvWfg S r = (hvSpec S r : Int) :=
  HV.hvWfg_eq_spec S r hS

example : (∀ p ∈ [[1, 1, 1], [0, 2, 2], [1, 1, 1], [2, 0, 3]], leAll p [3, 3, 3] = true) ∧
    hvSpec [[1, 1, 1], [0, 2, 2], [1, 1, 1], [2, 0, 3]] [3, 3, 3] = 9 := by decide

end SharkVerif.C13
