/-
C10 (second file; `Props/C10.lean` has the first half) — the three line searches of `LineSearch.cpp` as executable
models (`Model/LineSearches.lean`, tied bit for bit on every run) satisfy the contract the optimizer theorems need, so
that value consistency and monotonicity hold for the *modelled* `dlinmin`, `wolfecubic` and `backtracking`, not for
an assumed contract; conjugate gradients (Dai–Yuan β, the C++ "restart" branch) keep a descent direction on convex
objectives; the run-level theorems quantify over every line-search type, every initial bracket, every history of
`init` / `step` / save–restore operations including re-initialisation of a used object.
-/
import SharkVerif.Props.C10
import SharkVerif.Lemmas.LineSearches
namespace SharkVerif.C10
open SharkVerif.Opt SharkVerif.BFGS

/-! ## list facts over `Rat` -/

theorem axpy_zero : ∀ (p d : Vec Rat), p.length ≤ d.length → Vec.axpy p (0 : Rat) d = p := by
  intro p
  induction p with
  | nil => intro d _; simp [Vec.axpy]
  | cons x xs ih =>
    intro d h
    cases d with
    | nil => simp at h
    | cons y ys =>
      have := ih ys (by simpa using h)
      simp only [Vec.axpy, List.zipWith_cons_cons] at this ⊢
      rw [this]; simp

theorem axpy_length (p d : Vec Rat) (t : Rat) (h : d.length = p.length) : (Vec.axpy p t d).length = p.length := by
  simp [Vec.axpy, h]

/-! ## the contract, and the three modelled line searches satisfy it -/

/-- what the line-search optimizers need from a line search started at a consistent state
(`v = f(p)`, `g = ∇f(p)`, direction of the right dimension): the result is consistent again, has the same
dimension, and — along a non-ascent direction with a non-negative initial step — is not worse -/
def LSContract (ls : LineSearch Rat) : Prop :=
  ∀ (o : Objective Rat) (p : Vec Rat) (v : Rat) (d g : Vec Rat) (t : Rat),
    d.length = p.length → v = o.f p → g = o.grad p →
      (ls o p v d g t).value = o.f (ls o p v d g t).point ∧
      (ls o p v d g t).gradient = o.grad (ls o p v d g t).point ∧
      (ls o p v d g t).point.length = p.length ∧
      (Vec.dot g d ≤ 0 → 0 ≤ t → (ls o p v d g t).value ≤ v)

theorem wolfeSelect_length (point dir : Vec Rat) (value : Rat) (gradient : Vec Rat) (br : WBr Rat) (single : Bool) (iter : Nat)
    (h : dir.length = point.length) : (wolfeSelect point dir value gradient br single iter).point.length = point.length := by
  unfold wolfeSelect
  split_ifs <;> first | exact axpy_length _ _ _ h | rfl

/-- **wolfecubic_contract.**  The modelled `wolfecubic` with the bracket arrays initialised to the starting point
(the repaired tree, finding F-C10-16) satisfies the contract for every objective, point, direction, step length and
every `sqrt` function: value = f(point), gradient = ∇f(point), no increase along a non-ascent direction — in
particular when the bracketing loop runs out of iterations (then the point is kept). -/
theorem wolfecubic_contract (sqrt : Rat → Rat) : LSContract (wolfecubic sqrt) := by
  intro o p v d g t hd hv hg
  have h0 : WEntry o p d (Scalar.zero : Rat) v g := by
    have : Vec.axpy p (Scalar.zero : Rat) d = p := axpy_zero p d (le_of_eq hd.symm)
    exact ⟨by rw [this]; exact hv, by rw [this]; exact hg⟩
  unfold wolfecubic
  have hs := wolfecubic_sound_of_bracketed sqrt ⟨Scalar.zero, Scalar.zero, v, v, g, g⟩ o p v d g t hv hg h0 (Or.inl ⟨h0, h0⟩)
  refine ⟨hs.1, hs.2, ?_, fun hgd ht => ?_⟩
  · unfold wolfecubicJ; exact wolfeSelect_length _ _ _ _ _ _ _ hd
  · exact wolfecubic_no_increase_partial sqrt _ o p v d g t hgd ht (Or.inl (le_refl _))

/-- **wolfecubic_contract_partial** — the tree as shipped: the bracket arrays are uninitialised (`junk` arbitrary).
The contract holds whenever the bracketing loop leaves through a `break` (`WolfeBracketed`); when it runs out of
its 25 tenfold expansions the C++ reads indeterminate memory (finding F-C10-16; `wolfecubic_uninitialised_witness`). -/
theorem wolfecubic_contract_partial (sqrt : Rat → Rat) (junk : WBr Rat) (o : Objective Rat) (p : Vec Rat) (v : Rat) (d g : Vec Rat)
    (t : Rat) (hd : d.length = p.length) (hv : v = o.f p) (hg : g = o.grad p) (hb : WolfeBracketed o p d v g t junk) :
    (wolfecubicJ sqrt junk o p v d g t).value = o.f (wolfecubicJ sqrt junk o p v d g t).point ∧
    (wolfecubicJ sqrt junk o p v d g t).gradient = o.grad (wolfecubicJ sqrt junk o p v d g t).point ∧
    (Vec.dot g d ≤ 0 → 0 ≤ t → (wolfecubicJ sqrt junk o p v d g t).value ≤ v) := by
  have h0 : WEntry o p d (Scalar.zero : Rat) v g := by
    have : Vec.axpy p (Scalar.zero : Rat) d = p := axpy_zero p d (le_of_eq hd.symm)
    exact ⟨by rw [this]; exact hv, by rw [this]; exact hg⟩
  have hs := wolfecubic_sound_of_bracketed sqrt junk o p v d g t hv hg h0 (Or.inr hb)
  exact ⟨hs.1, hs.2, fun hgd ht => wolfecubic_no_increase_partial sqrt junk o p v d g t hgd ht (Or.inr hb)⟩

/-- the linear objective `f(x) = -x₀` -/
def linObj : Objective Rat := ⟨fun x => -(Vec.get x 0), fun _ => [-1], fun _ => true, false, [], []⟩
/-- some contents of the uninitialised arrays -/
def junkW : WBr Rat := ⟨7, 7, -5, -5, [], []⟩

set_option maxRecDepth 100000 in
/-- **wolfecubic_uninitialised_witness** (finding F-C10-16).  The hypothesis `WolfeBracketed` cannot be dropped for the
tree as shipped: on the linear objective `f(x) = -x` from `x = 0` along `d = 1` every trial point satisfies the
sufficient-decrease test and never the curvature test, the loop runs out of iterations without assigning the bracket,
and the function returns whatever the arrays contained — here value `-5` at the point `0 + 7·1`, where `f = -7`,
with an empty gradient vector. -/
theorem wolfecubic_uninitialised_witness :
    ¬ WolfeBracketed linObj [0] [1] 0 [-1] 1 junkW ∧
    (wolfecubicJ id junkW linObj [0] 0 [1] [-1] 1).point = [7] ∧
    (wolfecubicJ id junkW linObj [0] 0 [1] [-1] 1).value = -5 ∧
    (wolfecubicJ id junkW linObj [0] 0 [1] [-1] 1).value ≠ linObj.f (wolfecubicJ id junkW linObj [0] 0 [1] [-1] 1).point ∧
    (wolfecubicJ id junkW linObj [0] 0 [1] [-1] 1).gradient = [] := by
  unfold WolfeBracketed
  norm_num [wolfecubicJ, wolfeBracket, wolfeSelect, wolfeZoom, linObj, junkW, Vec.axpy, Vec.dot, Vec.get, Vec.norm1,
    Scalar.abs, Scalar.zero, Scalar.ofRat, wolfeMaxIter, wolfeC1, wolfeC2]

/-- **dlinmin_contract.**  The modelled `dlinmin` (bracketing + Brent with derivatives, any initial bracket)
satisfies the contract; its no-increase part needs no hypothesis on the direction at all. -/
theorem dlinmin_contract (ax bx : Rat) : LSContract (dlinmin ax bx) := by
  intro o p v d g t hd hv _
  have hs := dlinmin_sound ax bx o p v d g t
  have hn := dlinmin_no_increase ax bx o p v d g t
  refine ⟨hs.1, hs.2, ?_, fun _ _ => by rw [hv]; exact hn.1⟩
  unfold dlinmin
  dsimp only
  split
  · rfl
  · split_ifs <;> first | exact axpy_length _ _ _ hd | rfl

theorem backtracking_contract : LSContract backtracking := by
  intro o p v d g t hd hv hg
  refine ⟨backtracking_sound o p v d g t hv, backtracking_grad_sound o p v d g t hg, ?_,
    fun hgd ht => (backtracking_no_increase o p v d g t hgd ht).1⟩
  unfold backtracking
  simp only
  split
  · exact axpy_length _ _ _ hd
  · rfl

/-- **lineSearchOf_contract.**  Every line search `LineSearch::operator()` can dispatch to — `dlinmin` with any
initial bracket `[minInterval, maxInterval]`, `wolfecubic` (bracket arrays initialised), `backtracking` — satisfies
the contract, for every `sqrt`. -/
theorem lineSearchOf_contract (sqrt : Rat → Rat) (minI maxI : Rat) (type : Nat) :
    LSContract (lineSearchOf sqrt minI maxI type) := by
  unfold lineSearchOf
  split
  · exact dlinmin_contract minI maxI
  · exact wolfecubic_contract sqrt
  · exact backtracking_contract

/-! ## BFGS with the modelled line searches: consistent and monotone over whole runs, no contract hypothesis -/

/-- `BFGSInv` together with consistency of value and gradient -/
def BFGSInv2 (o : Objective Rat) (n : Nat) (s : LSOpt Rat) : Prop :=
  BFGSInv n s ∧ s.best.value = o.f s.best.point ∧ s.derivative = o.grad s.best.point

theorem bfgs_step_inv2 (ls : LineSearch Rat) (hc : LSContract ls) (o : Objective Rat) (ho : GradDim o) (n : Nat)
    (s : LSOpt Rat) (h : BFGSInv2 o n s) :
    BFGSInv2 o n (LSOpt.step ls o s) ∧ (LSOpt.step ls o s).best.value ≤ s.best.value := by
  obtain ⟨⟨H, hm, hH, hp, hg, hdir, hdesc, hisl⟩, hv, hgr⟩ := h
  have c := hc o s.best.point s.best.value s.dir s.derivative s.initialStep (by rw [hdir, hp]) hv hgr
  unfold LSOpt.step LSOpt.computeSearchDirection
  simp only [LSOpt.afterLineSearch, hm]
  set r := ls o s.best.point s.best.value s.dir s.derivative s.initialStep
  have hrp : r.point.length = n := by rw [c.2.2.1, hp]
  have hrg : r.gradient.length = n := by rw [c.2.1, ho, hrp]
  have hH' := bfgsUpdate_listPD n H (Vec.sub r.gradient s.derivative) (Vec.sub r.point s.best.point) hH
    (sub_length _ _ n hrg hg) (sub_length _ _ n hrp hp)
  refine ⟨⟨⟨_, rfl, hH', hrp, hrg, ?_, bfgs_direction_nonascent n _ _ hH' hrg, by simp [Scalar.one, Scalar.ofRat]⟩, c.1, c.2.1⟩,
    c.2.2.2 hdesc hisl⟩
  simp [Vec.neg, mulVec_length, hH'.1.1]

/-- **linesearch_methods_monotone_bfgs_modelled.**  BFGS with any of the three *modelled* line searches (every type,
every initial bracket of `dlinmin`, every `sqrt`), every objective whose gradient has the dimension of its argument,
every starting point and every number of steps: the reported value equals the objective at the reported point, the
stored gradient is the gradient there, and the reported values never increase.  No hypothesis about the line search
is left: the loops of `dlinmin` and `wolfecubic` are part of the statement. -/
theorem linesearch_methods_monotone_bfgs_modelled (sqrt : Rat → Rat) (minI maxI : Rat) (type : Nat)
    (o : Objective Rat) (ho : GradDim o) (x0 : Vec Rat) (H0 : Mat Rat) (k : Nat) :
    let run := iterN (LSOpt.step (lineSearchOf sqrt minI maxI type) o) (LSOpt.init o (.bfgs H0) x0)
    (run k).best.value = o.f (run k).best.point ∧ (run k).derivative = o.grad (run k).best.point ∧
      (run (k + 1)).best.value ≤ (run k).best.value := by
  intro run
  have inv : ∀ k, BFGSInv2 o x0.length (run k) := by
    intro k
    induction k with
    | zero => exact ⟨bfgs_init_inv o ho x0 H0, rfl, rfl⟩
    | succ k ih => exact (bfgs_step_inv2 _ (lineSearchOf_contract sqrt minI maxI type) o ho _ _ ih).1
  exact ⟨(inv k).2.1, (inv k).2.2, (bfgs_step_inv2 _ (lineSearchOf_contract sqrt minI maxI type) o ho _ _ (inv k)).2⟩

/-- non-vacuity: a concrete objective with `GradDim` (f(x) = x₀², ∇f = [2x₀] on 1-vectors … written for all lists) -/
example (k : Nat) :
    let o : Objective Rat := ⟨fun x => (x.map fun a => a * a).sum, fun x => x.map (2 * ·), fun _ => true, false, [], []⟩
    let run := iterN (LSOpt.step (lineSearchOf id 0 1 1) o) (LSOpt.init o (.bfgs []) [3, -1])
    (run (k + 1)).best.value ≤ (run k).best.value :=
  (linesearch_methods_monotone_bfgs_modelled id 0 1 1 _ (fun x => by simp) [3, -1] [] k).2.2

end SharkVerif.C10
