/-
C10 (second file; `Props/C10.lean` has the first half) — the three line searches of `LineSearch.cpp` as executable
models (`Model/LineSearches.lean`, tied bit for bit on every run) satisfy the contract the optimizer theorems need, so
that value consistency and monotonicity hold for the *modelled* `dlinmin`, `wolfecubic` and `backtracking`, not for
an assumed contract; conjugate gradients (Dai–Yuan β, the C++ "restart" branch) keep a descent direction on convex
objectives; the run-level theorems quantify over every line-search type, every initial bracket, every history of
`init` / `step` / save–restore operations including re-initialisation of a used object.
-/
import SharkVerif.Props.C10
import SharkVerif.Lemmas.LineSearches
import SharkVerif.Model.TrustRegion
import SharkVerif.Lemmas.LBFGS
import SharkVerif.Lemmas.TrustRegion
namespace SharkVerif.C10
open SharkVerif.Opt SharkVerif.BFGS

/-! ## list facts over `Rat` -/

theorem axpy_zero : ∀ (p d : Vec Rat), p.length ≤ d.length → Vec.axpy p (0 : Rat) d = p := by
  intro p
  induction p with
  | nil => intro d _; simp [Vec.axpy]
  | cons x xs ih =>
    intro d h
    cases d with
    | nil => simp at h
    | cons y ys =>
      have := ih ys (by simpa using h)
      simp only [Vec.axpy, List.zipWith_cons_cons] at this ⊢
      rw [this]; simp

theorem axpy_length (p d : Vec Rat) (t : Rat) (h : d.length = p.length) : (Vec.axpy p t d).length = p.length := by
  simp [Vec.axpy, h]

/-! ## the contract, and the three modelled line searches satisfy it -/

/-- what the line-search optimizers need from a line search started at a consistent state
(`v = f(p)`, `g = ∇f(p)`, direction of the right dimension): the result is consistent again, has the same
dimension, and — along a non-ascent direction with a non-negative initial step — is not worse -/
def LSContract (ls : LineSearch Rat) : Prop :=
  ∀ (o : Objective Rat) (p : Vec Rat) (v : Rat) (d g : Vec Rat) (t : Rat),
    d.length = p.length → v = o.f p → g = o.grad p →
      (ls o p v d g t).value = o.f (ls o p v d g t).point ∧
      (ls o p v d g t).gradient = o.grad (ls o p v d g t).point ∧
      (ls o p v d g t).point.length = p.length ∧
      (Vec.dot g d ≤ 0 → 0 ≤ t → (ls o p v d g t).value ≤ v)

theorem wolfeSelect_length (point dir : Vec Rat) (value : Rat) (gradient : Vec Rat) (br : WBr Rat) (single : Bool) (iter : Nat)
    (h : dir.length = point.length) : (wolfeSelect point dir value gradient br single iter).point.length = point.length := by
  unfold wolfeSelect
  split_ifs <;> first | exact axpy_length _ _ _ h | rfl

/-- **wolfecubic_contract.**  The modelled `wolfecubic` with the bracket arrays initialised to the starting point
(the repaired tree, finding F-C10-16) satisfies the contract for every objective, point, direction, step length and
every `sqrt` function: value = f(point), gradient = ∇f(point), no increase along a non-ascent direction — in
particular when the bracketing loop runs out of iterations (then the point is kept). -/
theorem wolfecubic_contract (sqrt : Rat → Rat) : LSContract (wolfecubic sqrt) := by
  intro o p v d g t hd hv hg
  have h0 : WEntry o p d (Scalar.zero : Rat) v g := by
    have : Vec.axpy p (Scalar.zero : Rat) d = p := axpy_zero p d (le_of_eq hd.symm)
    exact ⟨by rw [this]; exact hv, by rw [this]; exact hg⟩
  unfold wolfecubic
  have hs := wolfecubic_sound_of_bracketed sqrt ⟨Scalar.zero, Scalar.zero, v, v, g, g⟩ o p v d g t hv hg h0 (Or.inl ⟨h0, h0⟩)
  refine ⟨hs.1, hs.2, ?_, fun hgd ht => ?_⟩
  · unfold wolfecubicJ; exact wolfeSelect_length _ _ _ _ _ _ _ hd
  · exact wolfecubic_no_increase_partial sqrt _ o p v d g t hgd ht (Or.inl (le_refl _))

/-- **wolfecubic_contract_partial** — the tree as shipped: the bracket arrays are uninitialised (`junk` arbitrary).
The contract holds whenever the bracketing loop leaves through a `break` (`WolfeBracketed`); when it runs out of
its 25 tenfold expansions the C++ reads indeterminate memory (finding F-C10-16; `wolfecubic_uninitialised_witness`). -/
theorem wolfecubic_contract_partial (sqrt : Rat → Rat) (junk : WBr Rat) (o : Objective Rat) (p : Vec Rat) (v : Rat) (d g : Vec Rat)
    (t : Rat) (hd : d.length = p.length) (hv : v = o.f p) (hg : g = o.grad p) (hb : WolfeBracketed o p d v g t junk) :
    (wolfecubicJ sqrt junk o p v d g t).value = o.f (wolfecubicJ sqrt junk o p v d g t).point ∧
    (wolfecubicJ sqrt junk o p v d g t).gradient = o.grad (wolfecubicJ sqrt junk o p v d g t).point ∧
    (Vec.dot g d ≤ 0 → 0 ≤ t → (wolfecubicJ sqrt junk o p v d g t).value ≤ v) := by
  have h0 : WEntry o p d (Scalar.zero : Rat) v g := by
    have : Vec.axpy p (Scalar.zero : Rat) d = p := axpy_zero p d (le_of_eq hd.symm)
    exact ⟨by rw [this]; exact hv, by rw [this]; exact hg⟩
  have hs := wolfecubic_sound_of_bracketed sqrt junk o p v d g t hv hg h0 (Or.inr hb)
  exact ⟨hs.1, hs.2, fun hgd ht => wolfecubic_no_increase_partial sqrt junk o p v d g t hgd ht (Or.inr hb)⟩

/-- the linear objective `f(x) = -x₀` -/
def linObj : Objective Rat := ⟨fun x => -(Vec.get x 0), fun _ => [-1], fun _ => true, false, [], []⟩
/-- some contents of the uninitialised arrays -/
def junkW : WBr Rat := ⟨7, 7, -5, -5, [], []⟩

set_option maxRecDepth 100000 in
/-- **wolfecubic_uninitialised_witness** (finding F-C10-16).  The hypothesis `WolfeBracketed` cannot be dropped for the
tree as shipped: on the linear objective `f(x) = -x` from `x = 0` along `d = 1` every trial point satisfies the
sufficient-decrease test and never the curvature test, the loop runs out of iterations without assigning the bracket,
and the function returns whatever the arrays contained — here value `-5` at the point `0 + 7·1`, where `f = -7`,
with an empty gradient vector. -/
theorem wolfecubic_uninitialised_witness :
    ¬ WolfeBracketed linObj [0] [1] 0 [-1] 1 junkW ∧
    (wolfecubicJ id junkW linObj [0] 0 [1] [-1] 1).point = [7] ∧
    (wolfecubicJ id junkW linObj [0] 0 [1] [-1] 1).value = -5 ∧
    (wolfecubicJ id junkW linObj [0] 0 [1] [-1] 1).value ≠ linObj.f (wolfecubicJ id junkW linObj [0] 0 [1] [-1] 1).point ∧
    (wolfecubicJ id junkW linObj [0] 0 [1] [-1] 1).gradient = [] := by
  unfold WolfeBracketed
  norm_num [wolfecubicJ, wolfeBracket, wolfeSelect, wolfeZoom, linObj, junkW, Vec.axpy, Vec.dot, Vec.get, Vec.norm1,
    Scalar.abs, Scalar.zero, Scalar.ofRat, wolfeMaxIter, wolfeC1, wolfeC2]

/-- non-vacuity of `wolfecubic_single_strong_wolfe` (Lemmas/LineSearches.lean): `f(x) = x²`, `x = 1`, `d = -2`, first trial
`t = 1/2` lands on the minimiser: accepted outright, both Wolfe conditions hold -/
example :
    let o : Objective Rat := ⟨fun x => Vec.get x 0 * Vec.get x 0, fun x => [2 * Vec.get x 0], fun _ => true, false, [], []⟩
    (wolfeBracket o [1] [-2] 1 (Vec.dot [2] [-2]) junkW wolfeMaxIter 0 (1/2) Scalar.zero 1 [2]
      (o.f (Vec.axpy [1] (1/2) [-2])) (o.grad (Vec.axpy [1] (1/2) [-2])) (Vec.dot (o.grad (Vec.axpy [1] (1/2) [-2])) [-2])).single = true ∧
    (wolfecubicJ id junkW o [1] 1 [-2] [2] (1/2)).point = [0] := by
  norm_num [wolfecubicJ, wolfeBracket, wolfeSelect, junkW, Vec.axpy, Vec.dot, Vec.get, Vec.norm1,
    Scalar.abs, Scalar.zero, Scalar.ofRat, wolfeMaxIter, wolfeC1, wolfeC2]

/-- non-vacuity of `wolfecubic_contract_partial`: its hypothesis `WolfeBracketed` holds e.g. on `f(x) = x²` -/
example :
    let o : Objective Rat := ⟨fun x => Vec.get x 0 * Vec.get x 0, fun x => [2 * Vec.get x 0], fun _ => true, false, [], []⟩
    WolfeBracketed o [1] [-2] 1 [2] (1/2) junkW := by
  unfold WolfeBracketed
  norm_num [wolfeBracket, junkW, Vec.axpy, Vec.dot, Vec.get, Scalar.abs, Scalar.zero, Scalar.ofRat, wolfeMaxIter, wolfeC1, wolfeC2]

/-- **dlinmin_contract.**  The modelled `dlinmin` (bracketing + Brent with derivatives, any initial bracket)
satisfies the contract; its no-increase part needs no hypothesis on the direction at all. -/
theorem dlinmin_contract (ax bx : Rat) : LSContract (dlinmin ax bx) := by
  intro o p v d g t hd hv _
  have hs := dlinmin_sound ax bx o p v d g t
  have hn := dlinmin_no_increase ax bx o p v d g t
  refine ⟨hs.1, hs.2, ?_, fun _ _ => by rw [hv]; exact hn.1⟩
  unfold dlinmin
  dsimp only
  split
  · rfl
  · split_ifs <;> first | exact axpy_length _ _ _ hd | rfl

theorem backtracking_contract : LSContract backtracking := by
  intro o p v d g t hd hv hg
  refine ⟨backtracking_sound o p v d g t hv, backtracking_grad_sound o p v d g t hg, ?_,
    fun hgd ht => (backtracking_no_increase o p v d g t hgd ht).1⟩
  unfold backtracking
  simp only
  split
  · exact axpy_length _ _ _ hd
  · rfl

/-- **lineSearchOf_contract.**  Every line search `LineSearch::operator()` can dispatch to — `dlinmin` with any
initial bracket `[minInterval, maxInterval]`, `wolfecubic` (bracket arrays initialised), `backtracking` — satisfies
the contract, for every `sqrt`. -/
theorem lineSearchOf_contract (sqrt : Rat → Rat) (minI maxI : Rat) (type : Nat) :
    LSContract (lineSearchOf sqrt minI maxI type) := by
  unfold lineSearchOf
  split
  · exact dlinmin_contract minI maxI
  · exact wolfecubic_contract sqrt
  · exact backtracking_contract

/-! ## BFGS with the modelled line searches: consistent and monotone over whole runs, no contract hypothesis -/

/-- `BFGSInv` together with consistency of value and gradient -/
def BFGSInv2 (o : Objective Rat) (n : Nat) (s : LSOpt Rat) : Prop :=
  BFGSInv n s ∧ s.best.value = o.f s.best.point ∧ s.derivative = o.grad s.best.point

theorem bfgs_step_inv2 (ls : LineSearch Rat) (hc : LSContract ls) (o : Objective Rat) (ho : GradDim o) (n : Nat)
    (s : LSOpt Rat) (h : BFGSInv2 o n s) :
    BFGSInv2 o n (LSOpt.step ls o s) ∧ (LSOpt.step ls o s).best.value ≤ s.best.value := by
  obtain ⟨⟨H, hm, hH, hp, hg, hdir, hdesc, hisl⟩, hv, hgr⟩ := h
  have c := hc o s.best.point s.best.value s.dir s.derivative s.initialStep (by rw [hdir, hp]) hv hgr
  unfold LSOpt.step LSOpt.computeSearchDirection
  simp only [LSOpt.afterLineSearch, hm]
  set r := ls o s.best.point s.best.value s.dir s.derivative s.initialStep
  have hrp : r.point.length = n := by rw [c.2.2.1, hp]
  have hrg : r.gradient.length = n := by rw [c.2.1, ho, hrp]
  have hH' := bfgsUpdate_listPD n H (Vec.sub r.gradient s.derivative) (Vec.sub r.point s.best.point) hH
    (sub_length _ _ n hrg hg) (sub_length _ _ n hrp hp)
  refine ⟨⟨⟨_, rfl, hH', hrp, hrg, ?_, bfgs_direction_nonascent n _ _ hH' hrg, by simp [Scalar.one, Scalar.ofRat]⟩, c.1, c.2.1⟩,
    c.2.2.2 hdesc hisl⟩
  simp [Vec.neg, mulVec_length, hH'.1.1]

/-- **linesearch_methods_monotone_bfgs_modelled.**  BFGS with any of the three *modelled* line searches (every type,
every initial bracket of `dlinmin`, every `sqrt`), every objective whose gradient has the dimension of its argument,
every starting point and every number of steps: the reported value equals the objective at the reported point, the
stored gradient is the gradient there, and the reported values never increase.  No hypothesis about the line search
is left: the loops of `dlinmin` and `wolfecubic` are part of the statement. -/
theorem linesearch_methods_monotone_bfgs_modelled (sqrt : Rat → Rat) (minI maxI : Rat) (type : Nat)
    (o : Objective Rat) (ho : GradDim o) (x0 : Vec Rat) (H0 : Mat Rat) (k : Nat) :
    let run := iterN (LSOpt.step (lineSearchOf sqrt minI maxI type) o) (LSOpt.init o (.bfgs H0) x0)
    (run k).best.value = o.f (run k).best.point ∧ (run k).derivative = o.grad (run k).best.point ∧
      (run (k + 1)).best.value ≤ (run k).best.value := by
  intro run
  have inv : ∀ k, BFGSInv2 o x0.length (run k) := by
    intro k
    induction k with
    | zero => exact ⟨bfgs_init_inv o ho x0 H0, rfl, rfl⟩
    | succ k ih => exact (bfgs_step_inv2 _ (lineSearchOf_contract sqrt minI maxI type) o ho _ _ ih).1
  exact ⟨(inv k).2.1, (inv k).2.2, (bfgs_step_inv2 _ (lineSearchOf_contract sqrt minI maxI type) o ho _ _ (inv k)).2⟩

/-- non-vacuity: a concrete objective with `GradDim` (f(x) = x₀², ∇f = [2x₀] on 1-vectors … written for all lists) -/
example (k : Nat) :
    let o : Objective Rat := ⟨fun x => (x.map fun a => a * a).sum, fun x => x.map (2 * ·), fun _ => true, false, [], []⟩
    let run := iterN (LSOpt.step (lineSearchOf id 0 1 1) o) (LSOpt.init o (.bfgs []) [3, -1])
    (run (k + 1)).best.value ≤ (run k).best.value :=
  (linesearch_methods_monotone_bfgs_modelled id 0 1 1 _ (fun x => by simp) [3, -1] [] k).2.2

/-! ## conjugate gradients: the Dai–Yuan update and the C++ "restart" branch give non-ascent directions -/

theorem dot_nil_left (b : Vec Rat) : Vec.dot ([] : Vec Rat) b = 0 := by simp [Vec.dot, zero_eq]
theorem dot_nil_right (a : Vec Rat) : Vec.dot a ([] : Vec Rat) = 0 := by simp [Vec.dot, zero_eq]

theorem dot_comm' : ∀ (a b : Vec Rat), Vec.dot a b = Vec.dot b a := by
  intro a
  induction a with
  | nil => intro b; rw [dot_nil_left, dot_nil_right]
  | cons x xs ih =>
    intro b
    cases b with
    | nil => rw [dot_nil_left, dot_nil_right]
    | cons y ys => rw [dot_cons, dot_cons, ih ys]; ring

theorem dot_sub_right : ∀ (d a b : Vec Rat), a.length = d.length → b.length = d.length →
    Vec.dot d (Vec.sub a b) = Vec.dot d a - Vec.dot d b := by
  intro d
  induction d with
  | nil => intro a b _ _; simp [dot_nil_left]
  | cons x xs ih =>
    intro a b ha hb
    match a, b, ha, hb with
    | y :: ys, z :: zs, ha, hb =>
      have := ih ys zs (by simpa using ha) (by simpa using hb)
      simp only [Vec.sub, List.zipWith_cons_cons] at this ⊢
      rw [dot_cons, dot_cons, dot_cons, this]; ring

theorem dot_smul_right : ∀ (g d : Vec Rat) (c : Rat), Vec.dot g (Vec.smul c d) = c * Vec.dot g d := by
  intro g
  induction g with
  | nil => intro d c; simp [dot_nil_left]
  | cons x xs ih =>
    intro d c
    cases d with
    | nil => simp [Vec.smul, dot_nil_right]
    | cons y ys =>
      have := ih ys c
      simp only [Vec.smul, List.map_cons] at this ⊢
      rw [dot_cons, dot_cons, this]; ring

theorem dot_self_nonneg : ∀ (g : Vec Rat), 0 ≤ Vec.dot g g := by
  intro g
  induction g with
  | nil => simp [dot_nil_left]
  | cons x xs ih => rw [dot_cons]; nlinarith [mul_self_nonneg x]

theorem dot_self_zero : ∀ (g d : Vec Rat), Vec.dot g g = 0 → Vec.dot g d = 0 := by
  intro g
  induction g with
  | nil => intro d _; exact dot_nil_left d
  | cons x xs ih =>
    intro d h
    rw [dot_cons] at h
    have hx : x * x = 0 := by nlinarith [mul_self_nonneg x, dot_self_nonneg xs]
    have hxs : Vec.dot xs xs = 0 := by nlinarith [mul_self_nonneg x, dot_self_nonneg xs]
    have hx0 : x = 0 := by simpa using hx
    cases d with
    | nil => exact dot_nil_right _
    | cons y ys => rw [dot_cons, ih ys hxs, hx0]; ring

theorem smul_length (c : Rat) (d : Vec Rat) : (Vec.smul c d).length = d.length := by simp [Vec.smul]

/-- **cg_direction_nonascent.**  `CG::computeSearchDirection` (all three branches: periodic reset to `-g`, the
"restart" `d := d - g` taken when `‖g‖² = 0` or `|dᵀ(g - g_old)| ≤ 1e-10·‖g‖²`, the Dai–Yuan update
`d := β·d - g` with `β = ‖g‖² / dᵀ(g - g_old)`): if the old direction was a non-ascent direction for the old gradient
and the curvature along the step is non-negative (`dᵀ(g - g_old) ≥ 0` — every convex objective, every step
satisfying the Wolfe curvature condition), the new direction is a non-ascent direction for the new gradient.
In the β branch the identity behind it is `gᵀd_new = ‖g‖²·(g_oldᵀd)/(dᵀ(g - g_old))`. -/
theorem cg_direction_nonascent (s : LSOpt Rat) (count : Nat) (hm : s.model = .cg count)
    (hg : s.derivative.length = s.dir.length) (hl : s.lastDerivative.length = s.dir.length)
    (hold : Vec.dot s.lastDerivative s.dir ≤ 0)
    (hcurv : 0 ≤ Vec.dot s.dir (Vec.sub s.derivative s.lastDerivative)) :
    Vec.dot (LSOpt.computeSearchDirection s).derivative (LSOpt.computeSearchDirection s).dir ≤ 0 := by
  have hdiv : Vec.dot s.dir (Vec.sub s.derivative s.lastDerivative)
      = Vec.dot s.derivative s.dir - Vec.dot s.lastDerivative s.dir := by
    rw [dot_sub_right _ _ _ hg hl, dot_comm' s.dir s.derivative, dot_comm' s.dir s.lastDerivative]
  have hgg := dot_self_nonneg s.derivative
  unfold LSOpt.computeSearchDirection
  simp only [hm]
  split_ifs with h1 h2
  · exact direction_descent_neg_gradient _
  · -- restart branch: d - g
    show Vec.dot s.derivative (Vec.sub s.dir s.derivative) ≤ 0
    rw [dot_sub_right _ _ _ hg.symm rfl]
    simp only [Bool.or_eq_true, decide_eq_true_eq] at h2
    rcases h2 with h2 | h2
    · have hz : Vec.dot s.derivative s.derivative = 0 := SharkVerif.Opt.LSOpt.Box.beq_zero_true _ h2
      rw [dot_self_zero _ s.dir hz, hz]; simp
    · have habs : Vec.dot s.dir (Vec.sub s.derivative s.lastDerivative) ≤ (1/10000000000 : Rat) * Vec.dot s.derivative s.derivative := by
        have : Vec.dot s.dir (Vec.sub s.derivative s.lastDerivative) ≤ Scalar.abs (Vec.dot s.dir (Vec.sub s.derivative s.lastDerivative)) := by
          unfold Scalar.abs; split_ifs with hneg
          · have : Vec.dot s.dir (Vec.sub s.derivative s.lastDerivative) < 0 := hneg
            linarith
          · exact le_refl _
        exact le_trans this h2
      unfold Vec.normSqr at habs
      rw [hdiv] at habs
      nlinarith
  · -- Dai–Yuan branch
    show Vec.dot s.derivative (Vec.sub (Vec.smul _ s.dir) s.derivative) ≤ 0
    rw [dot_sub_right _ _ _ (by rw [smul_length]; exact hg.symm) rfl, dot_smul_right]
    simp only [Bool.or_eq_true, decide_eq_true_eq, not_or, not_le] at h2
    set D := Vec.dot s.dir (Vec.sub s.derivative s.lastDerivative) with hD
    set G := Vec.dot s.derivative s.derivative with hG
    have hGpos : 0 ≤ G := hgg
    have hDpos : 0 < D := by
      rcases lt_or_eq_of_le hcurv with h | h
      · exact h
      · exfalso
        have h3 := h2.2
        rw [← h] at h3
        unfold Vec.normSqr at h3
        have : Scalar.abs (0 : Rat) = 0 := by simp [Scalar.abs, Scalar.zero, Scalar.ofRat]
        rw [this] at h3
        have : (0 : Rat) ≤ (Scalar.ofRat (1/10000000000) : Rat) * G := by
          show (0 : Rat) ≤ (1/10000000000) * G; positivity
        linarith
    show G / D * Vec.dot s.derivative s.dir - G ≤ 0
    have hgd : Vec.dot s.derivative s.dir = D + Vec.dot s.lastDerivative s.dir := by rw [hdiv]; ring
    rw [hgd]
    have : G / D * (D + Vec.dot s.lastDerivative s.dir) - G = G * Vec.dot s.lastDerivative s.dir / D := by
      field_simp; ring
    rw [this]
    exact div_nonpos_of_nonpos_of_nonneg (mul_nonpos_of_nonneg_of_nonpos hGpos hold) hDpos.le

/-- **cg_negative_curvature_witness.**  The curvature hypothesis of `cg_direction_nonascent` cannot be dropped: the
C++ tests `|dᵀ(g - g_old)|`, not its sign.  Dimension 2, old direction `(1,0)` (a descent direction for
`g_old = (-1,0)`), new gradient `(-2,1)` (the slope along `d` became more negative: possible on a non-convex objective
after an Armijo-only step): β = -5 and the new direction `(-3,-1)` is an *ascent* direction (`gᵀd = 5`). -/
theorem cg_negative_curvature_witness :
    let s : LSOpt Rat := { dim := 2, initialStep := 1, best := ⟨[0, 0], 0⟩, derivative := [-2, 1], dir := [1, 0],
                           lastDerivative := [-1, 0], lastPoint := [0, 0], lastValue := 0, model := .cg 0 }
    Vec.dot s.lastDerivative s.dir ≤ 0 ∧ (LSOpt.computeSearchDirection s).dir = [-3, -1] ∧
      0 < Vec.dot (LSOpt.computeSearchDirection s).derivative (LSOpt.computeSearchDirection s).dir := by
  norm_num [LSOpt.computeSearchDirection, Vec.dot, Vec.sub, Vec.smul, Vec.normSqr, Scalar.beq, Scalar.abs, Scalar.zero,
    Scalar.ofRat]

/-! ## CG over whole runs on convex objectives -/

/-- the returned point lies on the ray `p + t'·d`, `t' ≥ 0` (what the C++ line searches that only try non-negative
step lengths deliver: `backtracking`, and `wolfecubic` whose trial steps stay between bracket ends) -/
def LSRay (ls : LineSearch Rat) : Prop :=
  ∀ (o : Objective Rat) (p : Vec Rat) (v : Rat) (d g : Vec Rat) (t : Rat), d.length = p.length → 0 ≤ t →
    ∃ t', 0 ≤ t' ∧ (ls o p v d g t).point = Vec.axpy p t' d

theorem backtrackGo_nonneg (o : Objective Rat) (point dir : Vec Rat) (value gtd : Rat) :
    ∀ (k : Nat) (t t' fnew : Rat) (gnew : Vec Rat), 0 ≤ t →
      backtrackGo o point dir value gtd k t = some (t', fnew, gnew) → 0 ≤ t' :=
  fun k t t' fnew gnew ht h => backtrackGo_step_nonneg o point dir value gtd k t t' fnew gnew ht h

theorem backtracking_ray : LSRay backtracking := by
  intro o p v d g t hd ht
  unfold backtracking
  simp only
  split
  · next t' fnew gnew h => exact ⟨t', backtrackGo_nonneg o p d v _ _ _ _ _ _ ht h, rfl⟩
  · exact ⟨0, le_refl _, (axpy_zero p d (le_of_eq hd.symm)).symm⟩

/-- the gradient is monotone along rays: `dᵀ(∇f(x + t·d) - ∇f(x)) ≥ 0` for `t ≥ 0` (every differentiable convex
function; for `f(x) = ½xᵀAx - bᵀx` it says `t·dᵀAd ≥ 0`, i.e. `A` positive semidefinite) -/
def GradMonotone (o : Objective Rat) : Prop :=
  ∀ (x d : Vec Rat) (t : Rat), d.length = x.length → 0 ≤ t →
    0 ≤ Vec.dot d (Vec.sub (o.grad (Vec.axpy x t d)) (o.grad x))

def CGInv (o : Objective Rat) (n : Nat) (s : LSOpt Rat) : Prop :=
  (∃ c, s.model = .cg c) ∧ s.best.point.length = n ∧ s.derivative.length = n ∧ s.dir.length = n ∧
    Vec.dot s.derivative s.dir ≤ 0 ∧ 0 ≤ s.initialStep ∧ s.best.value = o.f s.best.point ∧ s.derivative = o.grad s.best.point

theorem init_step_nonneg (o : Objective Rat) (kind : LSModel Rat) (x0 : Vec Rat) : 0 ≤ (LSOpt.init o kind x0).initialStep := by
  simp only [LSOpt.init]
  apply shrink_nonneg
  have hn : (0 : Rat) ≤ Vec.norm1 (o.grad x0) := by
    unfold Vec.norm1; exact foldl_abs_nonneg _ _ (by simp [Scalar.zero, Scalar.ofRat])
  unfold Scalar.min
  split
  · simp only [Scalar.one, Scalar.ofRat]; positivity
  · simp [Scalar.one, Scalar.ofRat]

theorem cg_csd_shape (s : LSOpt Rat) (c : Nat) (n : Nat) (hm : s.model = .cg c) (hg : s.derivative.length = n)
    (hd : s.dir.length = n) :
    (∃ c', (LSOpt.computeSearchDirection s).model = .cg c') ∧ (LSOpt.computeSearchDirection s).dir.length = n := by
  unfold LSOpt.computeSearchDirection
  simp only [hm]
  split_ifs <;> exact ⟨⟨_, rfl⟩, by simp [Vec.neg, Vec.sub, Vec.smul, hg, hd]⟩

theorem cg_step_inv (ls : LineSearch Rat) (hc : LSContract ls) (hr : LSRay ls) (o : Objective Rat) (ho : GradDim o)
    (hconv : GradMonotone o) (n : Nat) (s : LSOpt Rat) (h : CGInv o n s) :
    CGInv o n (LSOpt.step ls o s) ∧ (LSOpt.step ls o s).best.value ≤ s.best.value := by
  obtain ⟨⟨c, hm⟩, hp, hg, hdir, hdesc, hisl, hv, hgr⟩ := h
  have hdl : s.dir.length = s.best.point.length := by rw [hdir, hp]
  have ct := hc o s.best.point s.best.value s.dir s.derivative s.initialStep hdl hv hgr
  obtain ⟨t', ht', hray⟩ := hr o s.best.point s.best.value s.dir s.derivative s.initialStep hdl hisl
  set a := LSOpt.afterLineSearch ls o s with ha
  have hma : a.model = .cg c := hm
  have hap : a.best.point.length = n := by show (ls o _ _ _ _ _).point.length = n; rw [ct.2.2.1, hp]
  have hag : a.derivative.length = n := by
    show (ls o _ _ _ _ _).gradient.length = n
    rw [ct.2.1, ho, ct.2.2.1, hp]
  have had : a.dir.length = n := hdir
  have hal : a.lastDerivative.length = n := hg
  have hcurv : 0 ≤ Vec.dot a.dir (Vec.sub a.derivative a.lastDerivative) := by
    show 0 ≤ Vec.dot s.dir (Vec.sub (ls o _ _ _ _ _).gradient s.derivative)
    rw [ct.2.1, hray, hgr]
    exact hconv _ _ _ hdl ht'
  have hna := cg_direction_nonascent a c hma (by rw [hag, had]) (by rw [hal, had]) hdesc hcurv
  have hsh := cg_csd_shape a c n hma hag had
  refine ⟨⟨hsh.1, ?_, ?_, hsh.2, hna, ?_, ?_, ?_⟩, ?_⟩
  · show (LSOpt.computeSearchDirection a).best.point.length = n
    rw [computeSearchDirection_best]; exact hap
  · show (LSOpt.computeSearchDirection a).derivative.length = n
    rw [computeSearchDirection_derivative]; exact hag
  · have : (LSOpt.computeSearchDirection a).initialStep = 1 := by
      unfold LSOpt.computeSearchDirection
      simp only [hma]
      split_ifs <;> rfl
    show 0 ≤ (LSOpt.computeSearchDirection a).initialStep
    rw [this]; norm_num
  · show (LSOpt.computeSearchDirection a).best.value = o.f (LSOpt.computeSearchDirection a).best.point
    rw [computeSearchDirection_best]; exact ct.1
  · show (LSOpt.computeSearchDirection a).derivative = o.grad (LSOpt.computeSearchDirection a).best.point
    rw [computeSearchDirection_derivative, computeSearchDirection_best]; exact ct.2.1
  · show (LSOpt.computeSearchDirection a).best.value ≤ s.best.value
    rw [computeSearchDirection_best]; exact ct.2.2.2 hdesc hisl

/-- **linesearch_methods_monotone_cg_convex.**  CG (Dai–Yuan β, periodic reset, the C++ restart branch) with a line
search that satisfies the contract and only moves forward along the direction — the modelled `backtracking`
(`backtracking_contract`, `backtracking_ray`) — on every objective with a monotone gradient (every convex objective,
in particular every strictly convex quadratic), from every starting point: after every step the reported value is
the objective at the reported point, the stored gradient is the gradient there, every direction is a non-ascent
direction and the reported values never increase. -/
theorem linesearch_methods_monotone_cg_convex (ls : LineSearch Rat) (hc : LSContract ls) (hr : LSRay ls)
    (o : Objective Rat) (ho : GradDim o) (hconv : GradMonotone o) (x0 : Vec Rat) (c0 : Nat) (k : Nat) :
    let run := iterN (LSOpt.step ls o) (LSOpt.init o (.cg c0) x0)
    (run k).best.value = o.f (run k).best.point ∧ Vec.dot (run k).derivative (run k).dir ≤ 0 ∧
      (run (k + 1)).best.value ≤ (run k).best.value := by
  intro run
  have inv : ∀ k, CGInv o x0.length (run k) := by
    intro k
    induction k with
    | zero =>
      exact ⟨⟨0, rfl⟩, rfl, ho x0, (by show (Vec.neg (o.grad x0)).length = x0.length; simp [Vec.neg, ho x0]), direction_descent_neg_gradient _,
        init_step_nonneg o _ x0, rfl, rfl⟩
    | succ k ih => exact (cg_step_inv ls hc hr o ho hconv _ _ ih).1
  exact ⟨(inv k).2.2.2.2.2.2.1, (inv k).2.2.2.2.1, (cg_step_inv ls hc hr o ho hconv _ _ (inv k)).2⟩

/-- non-vacuity: `f(x) = Σ xᵢ²` has `GradDim` and a monotone gradient (`dᵀ(2(x+td) - 2x) = 2t·dᵀd ≥ 0`) -/
example (k : Nat) :
    let o : Objective Rat := ⟨fun x => (x.map fun a => a * a).sum, fun x => x.map (2 * ·), fun _ => true, false, [], []⟩
    let run := iterN (LSOpt.step backtracking o) (LSOpt.init o (.cg 0) [3, -1])
    (run (k + 1)).best.value ≤ (run k).best.value := by
  intro o run
  refine (linesearch_methods_monotone_cg_convex backtracking backtracking_contract backtracking_ray o (fun x => by simp [o]) ?_ [3, -1] 0 k).2.2
  intro x d t hd ht
  have key : ∀ (d x : Vec Rat), d.length = x.length →
      Vec.dot d (Vec.sub ((Vec.axpy x t d).map (2 * ·)) (x.map (2 * ·))) = 2 * t * Vec.dot d d := by
    intro d
    induction d with
    | nil => intro x _; simp [dot_nil_left]
    | cons y ys ih =>
      intro x hx
      match x, hx with
      | z :: zs, hx =>
        have := ih zs (by simpa using hx)
        simp only [Vec.axpy, Vec.sub, List.zipWith_cons_cons, List.map_cons] at this ⊢
        rw [dot_cons, dot_cons, this]; ring
  show 0 ≤ Vec.dot d (Vec.sub ((Vec.axpy x t d).map (2 * ·)) (x.map (2 * ·)))
  rw [key d x hd]
  have := dot_self_nonneg d
  positivity

/-- **wolfecubic_ray.**  Every point `wolfecubic` returns is `p + t'·d` with `t' ≥ 0`: the expansion only multiplies
by 10, the cubic interpolation is clamped to the bracket and the safeguard stays inside it. -/
theorem wolfecubic_ray (sqrt : Rat → Rat) : LSRay (wolfecubic sqrt) := by
  intro o p v d g t hd ht
  unfold wolfecubic
  rcases wolfecubicJ_ray sqrt ⟨Scalar.zero, Scalar.zero, v, v, g, g⟩ ⟨le_refl _, le_refl _⟩ o p v d g t ht with h | h
  · exact ⟨0, le_refl _, by rw [h]; exact (axpy_zero p d (le_of_eq hd.symm)).symm⟩
  · exact h

/-- **linesearch_methods_monotone_cg_modelled.**  CG with the modelled `wolfecubic` (the default line search of
`AbstractLineSearchOptimizer`) or the modelled `backtracking`, on every objective with a monotone gradient, from
every starting point: consistent, every direction non-ascent, values never increase — no hypothesis about the line
search is left.  (`dlinmin` may step backwards along the direction, so `LSRay` does not hold for it: for CG with
`dlinmin` only `linesearch_methods_monotone_partial` applies.) -/
theorem linesearch_methods_monotone_cg_modelled (sqrt : Rat → Rat) (type : Nat) (htype : type ≠ 0)
    (o : Objective Rat) (ho : GradDim o) (hconv : GradMonotone o) (x0 : Vec Rat) (c0 : Nat) (k : Nat) :
    let run := iterN (LSOpt.step (lineSearchOf sqrt 0 1 type) o) (LSOpt.init o (.cg c0) x0)
    (run k).best.value = o.f (run k).best.point ∧ Vec.dot (run k).derivative (run k).dir ≤ 0 ∧
      (run (k + 1)).best.value ≤ (run k).best.value := by
  have hr : LSRay (lineSearchOf sqrt 0 1 type) := by
    unfold lineSearchOf
    split
    · exact absurd rfl htype
    · exact wolfecubic_ray sqrt
    · exact backtracking_ray
  exact linesearch_methods_monotone_cg_convex _ (lineSearchOf_contract sqrt 0 1 type) hr o ho hconv x0 c0 k

/-! ## histories: re-initialisation of a used object, save/restore at any point -/

section history
variable {α : Type} [Scalar α]

/-- what a caller can do with an optimizer object: initialise it (again), step it, archive it and read the archive
into another (fresh or used) object -/
inductive HOp (e : Env α) where
  | init (s : Opt α) (h : Opt.IsInit e s)
  | step
  | restore (fresh : Opt α)

def HOp.apply (e : Env α) (cur : Opt α) : HOp e → Opt α
  | .init s _ => s
  | .step => cur.step e
  | .restore fresh => Opt.restore fresh cur

theorem restore_best (fresh s : Opt α) : (Opt.restore fresh s).best = s.best := by
  cases fresh <;> cases s <;> rfl

/-- **best_value_is_f_best_point_history.**  For SteepestDescent (with momentum), Adam, every Rprop variant and the
line-search optimizers (line search with `LSSound`: `backtracking_sound`, `dlinmin_LSSound` hold for every scalar type
including `Float`), the reported value is the objective at the reported point ("best" is the current iterate; for
SteepestDescent and Adam it is the last iterate, not the best one seen) after *every* history of operations:
first `init`, then any sequence of `step`, `init` again on the used object (any parameters, any new starting
point), archive-and-restore into any other object. -/
theorem best_value_is_f_best_point_history (e : Env α) (hls : LSSound e.ls) (s0 : Opt α) (h0 : Opt.IsInit e s0)
    (ops : List (HOp e)) : Consistent e.o (ops.foldl (HOp.apply e) s0).best := by
  have h : Consistent e.o s0.best := by cases h0 <;> rfl
  clear h0
  induction ops generalizing s0 with
  | nil => exact h
  | cons op ops ih =>
    apply ih
    cases op with
    | init s hs => cases hs <;> rfl
    | step => exact step_consistent e hls _ h
    | restore fresh => show Consistent e.o (Opt.restore fresh s0).best; rw [restore_best]; exact h

/-- `dlinmin` meets `LSSound` for every scalar type -/
theorem dlinmin_LSSound (ax bx : α) : LSSound (dlinmin ax bx) :=
  fun o p v d g t _ => (dlinmin_sound ax bx o p v d g t).1

/-- non-vacuity: Adam, re-initialised after two steps, then stepped and restored into a used SteepestDescent object -/
example (e : Env α) (hls : LSSound e.ls) (eta b1 b2 eps : α) (x0 x1 : Vec α) (other : Opt α) :
    Consistent e.o ([HOp.step, HOp.step, HOp.init _ (Opt.IsInit.adam (e := e) eta b1 b2 eps x1), HOp.step, HOp.restore other].foldl
      (HOp.apply e) (.adam (Adam.init e.o eta b1 b2 eps x0))).best :=
  best_value_is_f_best_point_history e hls _ (.adam eta b1 b2 eps x0) _
end history

/-! ## TrustRegionNewton -/

section trn
variable {α : Type} [Scalar α]

theorem trn_step_consistent (sqrt : α → α) (o : Objective α) (hess : Vec α → Mat α) (s : TRN α)
    (h : s.best.value = o.f s.best.point ∧ s.gradient = o.grad s.best.point ∧ s.hessian = hess s.best.point) :
    (s.step sqrt o hess).best.value = o.f (s.step sqrt o hess).best.point ∧
    (s.step sqrt o hess).gradient = o.grad (s.step sqrt o hess).best.point ∧
    (s.step sqrt o hess).hessian = hess (s.step sqrt o hess).best.point := by
  unfold TRN.step
  dsimp only
  split_ifs <;> first | exact h | exact ⟨rfl, rfl, rfl⟩

/-- **trn_value_is_f_point.**  TrustRegionNewton, every scalar type (incl. `Float`), every objective, Hessian
function, starting point, initial radius and number of steps: the reported value is the objective at the reported
point, and the stored gradient and Hessian are those of the reported point (a rejected step keeps all of them). -/
theorem trn_value_is_f_point (sqrt : α → α) (o : Objective α) (hess : Vec α → Mat α) (x0 : Vec α) (delta0 : α) (k : Nat) :
    let run := iterN (TRN.step sqrt o hess) (TRN.init o hess x0 delta0)
    (run k).best.value = o.f (run k).best.point ∧ (run k).gradient = o.grad (run k).best.point ∧
      (run k).hessian = hess (run k).best.point := by
  intro run
  induction k with
  | zero => exact ⟨rfl, rfl, rfl⟩
  | succ k ih => exact trn_step_consistent sqrt o hess _ ih
end trn

/-- **trn_step_no_increase_partial.**  The acceptance rule of `TrustRegionNewton::step` (`rho = (f_new - f_old) /
predicted ≥ minImprovementRatio`) never increases the objective, provided `minImprovementRatio ≥ 0` and the model
change reported by the sub-problem solver is not positive.  (That `trustRegionCG` only ever predicts a decrease is
CG theory which is not proved here; the driver checks it on every tied step.  With the sign error of finding F10 in
`borderDistance` the prediction was positive and increases were accepted.) -/
theorem trn_step_no_increase_partial (sqrt : Rat → Rat) (o : Objective Rat) (hess : Vec Rat → Mat Rat) (s : TRN Rat)
    (hm : 0 ≤ s.minImprovementRatio) (hpred : (TRN.subproblem sqrt s).1 ≤ 0) :
    (s.step sqrt o hess).best.value ≤ s.best.value := by
  unfold TRN.step
  dsimp only
  split_ifs with h0 h1 h2 h3 h4 <;> try exact le_refl _
  all_goals
    have hne : (TRN.subproblem sqrt s).1 ≠ 0 := by
      intro hz; apply h0; rw [hz]; simp [Scalar.beq, Scalar.zero, Scalar.ofRat]
    have hneg : (TRN.subproblem sqrt s).1 < 0 := lt_of_le_of_ne hpred hne
    have hrho : 0 ≤ (o.f (Vec.add s.best.point (TRN.subproblem sqrt s).2) - s.best.value) / (TRN.subproblem sqrt s).1 := by
      first | exact le_trans hm h1 | exact le_trans hm h2 | exact le_trans hm h3 | exact le_trans hm h4
    have : o.f (Vec.add s.best.point (TRN.subproblem sqrt s).2) - s.best.value ≤ 0 := by
      by_contra hpos
      have hpos' : 0 < o.f (Vec.add s.best.point (TRN.subproblem sqrt s).2) - s.best.value := not_le.mp hpos
      have := div_neg_of_pos_of_neg hpos' hneg
      linarith
    show o.f (Vec.add s.best.point (TRN.subproblem sqrt s).2) ≤ s.best.value
    linarith

/-- non-vacuity + what the hypothesis excludes: `f(x) = x²` at `x = 1`, radius 1/2, `sqrt` exact on the numbers that
occur: the sub-problem returns the border point `-1/2` with predicted change `-3/4`, the step is accepted -/
example :
    let o : Objective Rat := ⟨fun x => Vec.get x 0 * Vec.get x 0, fun x => [2 * Vec.get x 0], fun _ => true, false, [], []⟩
    let sq : Rat → Rat := fun x => if x = 4 then 2 else if x = 1/16 then 1/4 else 1
    let s := TRN.init o (fun _ => [[2]]) [1] (1/2)
    (TRN.subproblem sq s) = (-3/4, [-1/2]) ∧ (s.step sq o (fun _ => [[2]])).best.point = [1/2] := by
  norm_num [TRN.init, TRN.subproblem, TRN.step, TR.trustRegionCG, TR.cgLoop, TR.toBorder, TR.borderDistance,
    TR.errorDifference, Vec.normSqr, Vec.dot, Vec.neg, Vec.axpy, Vec.add, Vec.zeros, Vec.get, Mat.mulVec, Scalar.min, Scalar.half,
    Scalar.two, Scalar.zero, Scalar.beq, Scalar.ofRat]

/-- **trn_subproblem_predicts_decrease.**  For a symmetric `n × n` Hessian of *any* definiteness, every gradient and
radius `≠ 0`: the sub-problem solver of `TrustRegionNewton::step` predicts no increase (`≤ 0`) at every interior exit
(tolerance reached, iteration budget exhausted, immediate return) — because the CG loop keeps `residual = g + H·step`,
`residualᵀdirection = -‖residual‖²` and `m(step) ≤ 0` (`TRInv`, `Lemmas/TrustRegion.lean`) — or it left through a
boundary exit from a state `s'` that satisfies the invariant and lies inside the radius; for that case
`toBorder_nonpos` shows `≤ 0` as well when `sqrt` is exact at the discriminant of that one call and the direction is
non-zero (then `0 < τ`, and `τ ≤ α` in the positive-curvature case: `border_tau_bounds`).  Together with
`trn_step_no_increase_partial`: the acceptance rule never increases the objective. -/
theorem trn_subproblem_predicts_decrease (sqrt : Rat → Rat) (n : Nat) (s : TRN Rat) (hH : Dim n s.hessian)
    (hsym : (matFn n s.hessian).transpose = matFn n s.hessian) (hg : s.gradient.length = n) (hdelta : s.delta ≠ 0) :
    (TRN.subproblem sqrt s).1 ≤ 0 ∨
    ∃ s', TRInv n s.hessian s.gradient s' ∧ Vec.normSqr s'.step < s.delta * s.delta ∧ BorderExit s.hessian s.delta s' ∧
      TRN.subproblem sqrt s = TR.toBorder sqrt s.gradient s.delta s' (Mat.mulVec s.hessian s'.direction) := by
  unfold TRN.subproblem
  exact trustRegionCG_decrease sqrt n s.hessian hH hsym s.gradient hg _ s.delta hdelta

/-- non-vacuity of the boundary case (`toBorder_nonpos`): `H = [[2]]`, `g = [2]`, radius `1/2`; the initial CG state
`step = 0, residual = g, direction = -g` satisfies the invariant, lies inside, takes the second boundary exit
(`α = 1/2`, `‖0 + α·d‖² = 1 ≥ 1/4`), `sqrt` is exact at the discriminant `1/16`: predicted change `-3/4 ≤ 0` -/
example :
    let sq : Rat → Rat := fun x => if x = 1/16 then 1/4 else 1
    (TR.toBorder sq [2] (1/2) ⟨[0], [2], [-2], 4⟩ (Mat.mulVec [[2]] [-2])).1 ≤ 0 := by
  intro sq
  have hH : Dim 1 ([[2]] : Mat Rat) := ⟨rfl, fun r hr => by simp at hr; subst hr; rfl⟩
  have hsym : (matFn 1 ([[2]] : Mat Rat)).transpose = matFn 1 [[2]] := by
    ext i j; have hij : i = j := Subsingleton.elim _ _; subst hij; rfl
  refine toBorder_nonpos sq 1 [[2]] hH hsym [2] rfl (1/2) ⟨[0], [2], [-2], 4⟩ ?_ ?_ ?_ ?_ ?_
  · refine ⟨rfl, rfl, rfl, ?_, ?_, ?_, ?_⟩
    · funext i; have hi : i = 0 := Subsingleton.elim _ _; subst hi; simp [vecFn, matFn, Matrix.mulVec, dotProduct]
    · norm_num [vecFn, dotProduct]
    · norm_num [vecFn, dotProduct]
    · simp [modelChange, vecFn, matFn, Matrix.mulVec, dotProduct]
  · norm_num [Vec.normSqr, Vec.dot, Scalar.zero, Scalar.ofRat]
  · right; norm_num [Vec.normSqr, Vec.dot, Vec.axpy, Mat.mulVec, Scalar.zero, Scalar.ofRat]
  · norm_num [Vec.normSqr, Vec.dot, Scalar.zero, Scalar.ofRat]
  · norm_num [sq, Vec.normSqr, Vec.dot, Scalar.zero, Scalar.ofRat]

/-! ### the CG–Steihaug solution stays inside the trust region -/

theorem normSqr_axpy : ∀ (z d : Vec Rat) (t : Rat), d.length = z.length →
    Vec.normSqr (Vec.axpy z t d) = Vec.normSqr z + 2 * t * Vec.dot d z + t * t * Vec.normSqr d := by
  intro z
  induction z with
  | nil => intro d t h; have : d = [] := List.length_eq_zero_iff.mp h; subst this; simp [Vec.normSqr, Vec.axpy, dot_nil_left]
  | cons x xs ih =>
    intro d t h
    match d, h with
    | y :: ys, h =>
      have := ih ys t (by simpa using h)
      simp only [Vec.normSqr, Vec.axpy, List.zipWith_cons_cons] at this ⊢
      rw [dot_cons, dot_cons, dot_cons, dot_cons, this]; ring

/-- **trn_border_on_sphere.**  The boundary exits of `trustRegionCG` land exactly on the trust-region sphere:
`‖z + tau·d‖² = delta²` for `tau = borderDistance(z, d, delta)`, whenever `d ≠ 0` and `sqrt` is exact at the one
discriminant it is applied to (`r·r = (p/2)² - q`).  In floating point the identity holds up to rounding; the tie
compares the step bit for bit / to 1e-9. -/
theorem trn_border_on_sphere (sqrt : Rat → Rat) (z d : Vec Rat) (delta : Rat) (hl : d.length = z.length)
    (hd : Vec.normSqr d ≠ 0)
    (hs : let p := 2 * Vec.dot d z / Vec.normSqr d
          let q := (Vec.normSqr z - delta * delta) / Vec.normSqr d
          sqrt ((p / 2) * (p / 2) - q) * sqrt ((p / 2) * (p / 2) - q) = (p / 2) * (p / 2) - q) :
    Vec.normSqr (Vec.axpy z (TR.borderDistance sqrt z d delta) d) = delta * delta := by
  rw [normSqr_axpy z d _ hl]
  unfold TR.borderDistance
  simp only [Scalar.two, Scalar.ofRat] at hs ⊢
  set D := Vec.normSqr d
  set Z := Vec.normSqr z
  set W := Vec.dot d z
  set r := sqrt (2 * W / D / 2 * (2 * W / D / 2) - (Z - delta * delta) / D) with hr
  have hs' : r * r = 2 * W / D / 2 * (2 * W / D / 2) - (Z - delta * delta) / D := hs
  have : Z + 2 * (-(2 * W / D) / 2 + r) * W + (-(2 * W / D) / 2 + r) * (-(2 * W / D) / 2 + r) * D
      = delta * delta + D * (r * r - (2 * W / D / 2 * (2 * W / D / 2) - (Z - delta * delta) / D)) := by
    field_simp; ring
  rw [this, hs']; ring

/-- non-vacuity of `trn_border_on_sphere`: `z = 0`, `d = -2`, `delta = 1/2`: discriminant `1/16`, `sqrt = 1/4`, `tau = 1/4` -/
example : Vec.normSqr (Vec.axpy [0] (TR.borderDistance (fun x => if x = 1/16 then 1/4 else 0) [0] [-2] (1/2)) [-2]) = (1/2) * (1/2 : Rat) := by
  apply trn_border_on_sphere _ [0] [-2] (1/2) rfl
  · norm_num [Vec.normSqr, Vec.dot, Scalar.zero, Scalar.ofRat]
  · norm_num [Vec.normSqr, Vec.dot, Scalar.zero, Scalar.ofRat]

/-- **trn_cg_interior_inside.**  Every exit of the CG–Steihaug loop other than a boundary exit returns a step strictly
inside the trust region: the loop tests `‖step + alpha·d‖² ≥ delta²` *before* it moves.  Formally: started inside,
`cgLoop` returns a step with `‖step‖² < delta²`, or its result is `toBorder` of a state whose step is inside
(and then `trn_border_on_sphere` applies). -/
theorem trn_cg_interior_inside (sqrt : Rat → Rat) (H : Mat Rat) (g : Vec Rat) (tol delta : Rat) :
    ∀ (k : Nat) (s : TR.CGSt Rat), Vec.normSqr s.step < delta * delta →
      Vec.normSqr (TR.cgLoop sqrt H g tol delta k s).2 < delta * delta ∨
      ∃ s' Hdir, Vec.normSqr s'.step < delta * delta ∧ TR.cgLoop sqrt H g tol delta k s = TR.toBorder sqrt g delta s' Hdir := by
  intro k
  induction k with
  | zero => intro s h; exact Or.inl h
  | succ k ih =>
    intro s h
    unfold TR.cgLoop
    dsimp only
    split_ifs with h1 h2 h3
    · exact Or.inr ⟨s, _, h, rfl⟩
    · exact Or.inr ⟨s, _, h, rfl⟩
    · exact Or.inl (not_le.mp h2)
    · exact ih _ (not_le.mp h2)

/-- the whole sub-problem solver: the returned step is inside, or it is a boundary exit from an inside state
(`delta ≠ 0`) -/
theorem trn_cg_inside (sqrt : Rat → Rat) (H : Mat Rat) (g : Vec Rat) (tol delta : Rat) (hdelta : delta ≠ 0) :
    Vec.normSqr (TR.trustRegionCG sqrt H g tol delta).2 < delta * delta ∨
    ∃ s' Hdir, Vec.normSqr s'.step < delta * delta ∧ TR.trustRegionCG sqrt H g tol delta = TR.toBorder sqrt g delta s' Hdir := by
  have hz : Vec.normSqr (Vec.zeros g.length : Vec Rat) < delta * delta := by
    have : Vec.normSqr (Vec.zeros g.length : Vec Rat) = 0 := by
      unfold Vec.zeros
      generalize g.length = n
      induction n with
      | zero => simp [Vec.normSqr, dot_nil_left]
      | succ n ih => simp only [List.replicate_succ, Vec.normSqr] at ih ⊢; rw [dot_cons, ih]; simp [Scalar.zero, Scalar.ofRat]
    rw [this]; exact mul_self_pos.mpr hdelta
  unfold TR.trustRegionCG
  dsimp only
  split_ifs
  · exact Or.inl hz
  · exact trn_cg_interior_inside sqrt H g tol delta _ _ hz

/-! ## L-BFGS: the two-loop recursion is multiplication by a symmetric positive definite matrix -/

section lbfgs
open Matrix

theorem histDim_reverse (n : Nat) (hist : List (Vec Rat × Vec Rat)) (h : HistDim n hist) : HistDim n hist.reverse :=
  fun sy hsy => h sy (List.mem_reverse.mp hsy)

/-- **lbfgs_two_loop_is_matrix.**  For every history length, every `bdiag > 0` and every history of pairs `(s, y)` of
dimension `n` with `yᵀs > 0`: the two loops of `LBFGS::multBInv` compute `M·x`, where `M` is the matrix obtained from
`(1/bdiag)·I` by one BFGS inverse update per stored pair, oldest first — the implicit inverse Hessian approximation —
and `M` is symmetric positive definite. -/
theorem lbfgs_two_loop_is_matrix (n : Nat) (bdiag : Rat) (hb : 0 < bdiag) (hist : List (Vec Rat × Vec Rat))
    (hd : HistDim n hist) (hpos : ∀ sy ∈ hist, 0 < Vec.dot sy.2 sy.1) (x : Vec Rat) (hx : x.length = n) :
    vecFn n (LSOpt.multBInv bdiag hist x) = lbfgsM bdiag (histFn n hist.reverse) *ᵥ vecFn n x ∧
    SymPD (lbfgsM bdiag (histFn n hist.reverse)) ∧ (LSOpt.multBInv bdiag hist x).length = n := by
  have hd' := histDim_reverse n hist hd
  have hpos' : ∀ sy ∈ hist.reverse, 0 < Vec.dot sy.2 sy.1 := fun sy h => hpos sy (List.mem_reverse.mp h)
  rw [multBInv_eq_rec]
  refine ⟨lbfgsRec_eq_mulVec n bdiag hb _ x hd' hpos' hx, ?_, lbfgsRec_length n bdiag _ x hd' hx⟩
  apply lbfgsM_symPD bdiag hb
  intro p hp
  obtain ⟨q, hq, rfl⟩ := List.mem_map.mp hp
  rw [← dot_eq n _ _ (hd' q hq).2 (hd' q hq).1]; exact hpos' q hq

/-- **lbfgs_direction_descent.**  The unconstrained L-BFGS direction `d = -M·g` is a non-ascent direction, and a strict
descent direction when `g ≠ 0`, for every history length. -/
theorem lbfgs_direction_descent (n : Nat) (bdiag : Rat) (hb : 0 < bdiag) (hist : List (Vec Rat × Vec Rat))
    (hd : HistDim n hist) (hpos : ∀ sy ∈ hist, 0 < Vec.dot sy.2 sy.1) (g : Vec Rat) (hg : g.length = n) :
    Vec.dot g (LSOpt.multBInv bdiag hist (Vec.neg g)) ≤ 0 ∧
    (vecFn n g ≠ 0 → Vec.dot g (LSOpt.multBInv bdiag hist (Vec.neg g)) < 0) := by
  have hng : (Vec.neg g).length = n := by simp [Vec.neg, hg]
  obtain ⟨hm, hpd, hl⟩ := lbfgs_two_loop_is_matrix n bdiag hb hist hd hpos (Vec.neg g) hng
  rw [dot_eq n _ _ hg hl, hm, neg_vecFn n g hg, mulVec_neg, dotProduct_neg]
  constructor
  · by_cases hz : vecFn n g = 0
    · rw [hz]; simp
    · have := hpd.2 _ hz; linarith
  · intro hz; have := hpd.2 _ hz; linarith

/-- the same for the quantity the box-constrained direction needs: `p0ᵀ·B⁻¹p0 > 0` for a non-zero projected
gradient `p0` — the hypothesis `hs` of `box_direction_descent` / `box_direction_nonzero` when no coordinate is blocked -/
theorem lbfgs_multBInv_pos (n : Nat) (bdiag : Rat) (hb : 0 < bdiag) (hist : List (Vec Rat × Vec Rat))
    (hd : HistDim n hist) (hpos : ∀ sy ∈ hist, 0 < Vec.dot sy.2 sy.1) (p : Vec Rat) (hp : p.length = n)
    (hne : vecFn n p ≠ 0) : 0 < Vec.dot p (LSOpt.multBInv bdiag hist p) := by
  obtain ⟨hm, hpd, hl⟩ := lbfgs_two_loop_is_matrix n bdiag hb hist hd hpos p hp
  rw [dot_eq n _ _ hp hl, hm]
  exact hpd.2 _ hne

/-- non-vacuity of `lbfgs_two_loop_is_matrix` / `lbfgs_direction_descent`: one stored pair `s = (1, 0)`, `y = (2, 1)`
(`yᵀs = 2 > 0`), `bdiag = 5/2` -/
example : Vec.dot ([3, -1] : Vec Rat) (LSOpt.multBInv (5/2) [([1, 0], [2, 1])] (Vec.neg [3, -1])) ≤ 0 :=
  (lbfgs_direction_descent 2 (5/2) (by norm_num) [([1, 0], [2, 1])]
    (by intro sy h; simp only [List.mem_singleton] at h; subst h; exact ⟨rfl, rfl⟩)
    (by intro sy h; simp only [List.mem_singleton] at h; subst h; norm_num [Vec.dot, Scalar.zero, Scalar.ofRat])
    [3, -1] rfl).1

/-- what `LBFGS::updateHist` keeps true of `(bdiag, history)` -/
def HistOK (n : Nat) (bdiag : Rat) (hist : List (Vec Rat × Vec Rat)) : Prop :=
  0 < bdiag ∧ HistDim n hist ∧ ∀ sy ∈ hist, 0 < Vec.dot sy.2 sy.1

theorem lbfgsUpdateHist_ok (n numHist : Nat) (bdiag : Rat) (hist : List (Vec Rat × Vec Rat)) (y s : Vec Rat)
    (h : HistOK n bdiag hist) (hy : y.length = n) (hs : s.length = n) :
    HistOK n (LSOpt.lbfgsUpdateHist numHist bdiag hist y s).1 (LSOpt.lbfgsUpdateHist numHist bdiag hist y s).2 := by
  unfold LSOpt.lbfgsUpdateHist
  dsimp only
  split_ifs with hys hfull
  all_goals first
    | exact h
    | (have hys' : 0 < Vec.dot y s := by
         have : (0 : Rat) < (Scalar.ofRat (1/10000000000) : Rat) := by show (0 : Rat) < 1/10000000000; norm_num
         exact lt_trans this hys
       have hyy : 0 < Vec.dot y y := by
         rcases lt_or_eq_of_le (dot_self_nonneg y) with h1 | h1
         · exact h1
         · have := dot_self_zero y s h1.symm; linarith
       refine ⟨div_pos hyy hys', ?_, ?_⟩
       · intro sy hsy
         rcases List.mem_append.mp hsy with h1 | h1
         · first | exact h.2.1 sy (List.mem_of_mem_drop h1) | exact h.2.1 sy h1
         · simp only [List.mem_singleton] at h1; subst h1; exact ⟨hs, hy⟩
       · intro sy hsy
         rcases List.mem_append.mp hsy with h1 | h1
         · first | exact h.2.2 sy (List.mem_of_mem_drop h1) | exact h.2.2 sy h1
         · simp only [List.mem_singleton] at h1; subst h1; exact hys')

theorem csd_lbfgs (s : LSOpt Rat) (nh : Nat) (bdiag : Rat) (hist : List (Vec Rat × Vec Rat)) (hm : s.model = .lbfgs nh bdiag hist) :
    LSOpt.computeSearchDirection s =
      { s with model := .lbfgs nh (LSOpt.lbfgsUpdateHist nh bdiag hist (Vec.sub s.derivative s.lastDerivative) (Vec.sub s.best.point s.lastPoint)).1
                                  (LSOpt.lbfgsUpdateHist nh bdiag hist (Vec.sub s.derivative s.lastDerivative) (Vec.sub s.best.point s.lastPoint)).2,
               dir := LSOpt.multBInv (LSOpt.lbfgsUpdateHist nh bdiag hist (Vec.sub s.derivative s.lastDerivative) (Vec.sub s.best.point s.lastPoint)).1
                        (LSOpt.lbfgsUpdateHist nh bdiag hist (Vec.sub s.derivative s.lastDerivative) (Vec.sub s.best.point s.lastPoint)).2
                        (Vec.neg s.derivative) } := by
  unfold LSOpt.computeSearchDirection
  simp only [hm]

def LBFGSInv (o : Objective Rat) (n : Nat) (s : LSOpt Rat) : Prop :=
  (∃ nh bdiag hist, s.model = .lbfgs nh bdiag hist ∧ HistOK n bdiag hist) ∧ s.best.point.length = n ∧ s.derivative.length = n ∧
    s.dir.length = n ∧ Vec.dot s.derivative s.dir ≤ 0 ∧ 0 ≤ s.initialStep ∧ s.best.value = o.f s.best.point ∧
    s.derivative = o.grad s.best.point

theorem lbfgs_step_inv (ls : LineSearch Rat) (hc : LSContract ls) (o : Objective Rat) (ho : GradDim o) (n : Nat)
    (s : LSOpt Rat) (h : LBFGSInv o n s) :
    LBFGSInv o n (LSOpt.step ls o s) ∧ (LSOpt.step ls o s).best.value ≤ s.best.value := by
  obtain ⟨⟨nh, bdiag, hist, hm, hok⟩, hp, hg, hdir, hdesc, hisl, hv, hgr⟩ := h
  have hdl : s.dir.length = s.best.point.length := by rw [hdir, hp]
  have ct := hc o s.best.point s.best.value s.dir s.derivative s.initialStep hdl hv hgr
  set a := LSOpt.afterLineSearch ls o s with ha
  have hma : a.model = .lbfgs nh bdiag hist := hm
  have hap : a.best.point.length = n := by show (ls o _ _ _ _ _).point.length = n; rw [ct.2.2.1, hp]
  have hag : a.derivative.length = n := by
    show (ls o _ _ _ _ _).gradient.length = n
    rw [ct.2.1, ho, ct.2.2.1, hp]
  have hy : (Vec.sub a.derivative a.lastDerivative).length = n := sub_length _ _ n hag hg
  have hs : (Vec.sub a.best.point a.lastPoint).length = n := sub_length _ _ n hap hp
  have hok' := lbfgsUpdateHist_ok n nh bdiag hist _ _ hok hy hs
  have hdd := lbfgs_direction_descent n _ hok'.1 _ hok'.2.1 hok'.2.2 a.derivative hag
  have hml := (lbfgs_two_loop_is_matrix n _ hok'.1 _ hok'.2.1 hok'.2.2 (Vec.neg a.derivative) (by simp [Vec.neg, hag])).2.2
  show LBFGSInv o n (LSOpt.computeSearchDirection a) ∧ (LSOpt.computeSearchDirection a).best.value ≤ s.best.value
  rw [csd_lbfgs a nh bdiag hist hma]
  exact ⟨⟨⟨_, _, _, rfl, hok'⟩, hap, hag, hml, hdd.1, by show (0 : Rat) ≤ Scalar.one; simp [Scalar.one, Scalar.ofRat], ct.1, ct.2.1⟩,
    ct.2.2.2 hdesc hisl⟩

/-- **linesearch_methods_monotone_lbfgs_modelled.**  Unconstrained L-BFGS (any history size, including 0 and 1) with
any of the three modelled line searches, every objective whose gradient has the dimension of its argument, every
starting point, every number of steps: value = f(point), every direction is a non-ascent direction (because the
implicit matrix stays symmetric positive definite: `updateHist` only stores pairs with `yᵀs > 1e-10`), and the
reported values never increase. -/
theorem linesearch_methods_monotone_lbfgs_modelled (sqrt : Rat → Rat) (minI maxI : Rat) (type : Nat)
    (o : Objective Rat) (ho : GradDim o) (x0 : Vec Rat) (nh : Nat) (b0 : Rat) (h0 : List (Vec Rat × Vec Rat)) (k : Nat) :
    let run := iterN (LSOpt.step (lineSearchOf sqrt minI maxI type) o) (LSOpt.init o (.lbfgs nh b0 h0) x0)
    (run k).best.value = o.f (run k).best.point ∧ Vec.dot (run k).derivative (run k).dir ≤ 0 ∧
      (run (k + 1)).best.value ≤ (run k).best.value := by
  intro run
  have inv : ∀ k, LBFGSInv o x0.length (run k) := by
    intro k
    induction k with
    | zero =>
      refine ⟨⟨nh, Scalar.one, [], rfl, by show (0 : Rat) < 1; norm_num, fun _ h => by simp at h, fun _ h => by simp at h⟩,
        rfl, ho x0, (by show (Vec.neg (o.grad x0)).length = x0.length; simp [Vec.neg, ho x0]),
        direction_descent_neg_gradient _, init_step_nonneg o _ x0, rfl, rfl⟩
    | succ k ih => exact (lbfgs_step_inv _ (lineSearchOf_contract sqrt minI maxI type) o ho _ _ ih).1
  exact ⟨(inv k).2.2.2.2.2.2.1, (inv k).2.2.2.2.1, (lbfgs_step_inv _ (lineSearchOf_contract sqrt minI maxI type) o ho _ _ (inv k)).2⟩

/-- non-vacuity -/
example (k : Nat) :
    let o : Objective Rat := ⟨fun x => (x.map fun a => a * a).sum, fun x => x.map (2 * ·), fun _ => true, false, [], []⟩
    let run := iterN (LSOpt.step (lineSearchOf id 0 1 0) o) (LSOpt.init o (.lbfgs 3 1 []) [3, -1])
    (run (k + 1)).best.value ≤ (run k).best.value :=
  (linesearch_methods_monotone_lbfgs_modelled id 0 1 0 _ (fun x => by simp) [3, -1] 3 1 [] k).2.2
end lbfgs

/-! ## box-constrained L-BFGS: a line search along a feasible target keeps the iterate in the box -/

/-- coordinate-wise `l ≤ x ≤ u` -/
def InBox (l u x : Vec Rat) : Prop := ∀ i, i < x.length → l.getD i 0 ≤ x.getD i 0 ∧ x.getD i 0 ≤ u.getD i 0

theorem backtrackGo_step_le (o : Objective Rat) (point dir : Vec Rat) (value gtd : Rat) :
    ∀ (fuel : Nat) (t t' fnew : Rat) (gnew : Vec Rat), 0 ≤ t →
      backtrackGo o point dir value gtd fuel t = some (t', fnew, gnew) → t' ≤ t := by
  intro fuel
  induction fuel with
  | zero => intro t t' fnew gnew _ h; simp [backtrackGo] at h
  | succ k ih =>
    intro t t' fnew gnew ht h
    unfold backtrackGo at h
    simp only at h
    split at h
    · simp only [Option.some.injEq, Prod.mk.injEq] at h
      obtain ⟨rfl, -, -⟩ := h
      exact le_refl _
    · have hh : (0 : Rat) ≤ t * Scalar.half := by simp only [Scalar.half, Scalar.ofRat]; positivity
      have := ih _ _ _ _ hh h
      have h2 : t * (Scalar.half : Rat) ≤ t := by simp only [Scalar.half, Scalar.ofRat]; linarith
      linarith

/-- **box_linesearch_feasible.**  If `x` is in the box, the target `x + d` of the search direction is in the box
(what `box_direction_feasible_repaired` / `box_direction_feasible_partial` prove for `getBoxConstrainedDirection`) and the
initial step length is in `[0, 1]` (`m_initialStepLength = 1` after the first step), then the point returned by the
backtracking line search — the only line search `init` allows on a constrained objective — is in the box, exactly:
it is `x + t'·d` with `0 ≤ t' ≤ 1`, a convex combination of `x` and `x + d`. -/
theorem box_linesearch_feasible (o : Objective Rat) (l u x d g : Vec Rat) (v t : Rat) (hd : d.length = x.length)
    (hx : InBox l u x) (hxd : InBox l u (Vec.axpy x 1 d)) (ht0 : 0 ≤ t) (ht1 : t ≤ 1) :
    InBox l u (backtracking o x v d g t).point := by
  unfold backtracking
  simp only
  split
  · next t' fnew gnew h =>
    have h0 := backtrackGo_step_nonneg o x d v _ _ _ _ _ _ ht0 h
    have h1 := le_trans (backtrackGo_step_le o x d v _ _ _ _ _ _ ht0 h) ht1
    intro i hi
    have hlen : (Vec.axpy x t' d).length = x.length := axpy_length _ _ _ hd
    have hix : i < x.length := by rw [← hlen]; exact hi
    have hid : i < d.length := by rw [hd]; exact hix
    have hi1 : i < (Vec.axpy x 1 d).length := by rw [axpy_length _ _ _ hd]; exact hix
    have e1 : (Vec.axpy x t' d).getD i 0 = x.getD i 0 + t' * d.getD i 0 := by
      show (List.zipWith (fun a b => a + t' * b) x d).getD i 0 = _
      rw [getD_zipWith_of_lt _ _ _ _ hix hid, getD_of_lt _ _ hix, getD_of_lt _ _ hid]
    have e2 : (Vec.axpy x 1 d).getD i 0 = x.getD i 0 + 1 * d.getD i 0 := by
      show (List.zipWith (fun a b => a + 1 * b) x d).getD i 0 = _
      rw [getD_zipWith_of_lt _ _ _ _ hix hid, getD_of_lt _ _ hix, getD_of_lt _ _ hid]
    have a := hx i hix
    have b := hxd i hi1
    rw [e2] at b
    rw [e1]
    constructor <;> nlinarith [a.1, a.2, b.1, b.2]
  · exact hx

end SharkVerif.C10
