/-
C02 — linear-system solvers and matrix decompositions satisfy their defining equations.

Property theorems about the executable model `Model/LinSolve.lean` (tied to
remora's kernels by `checks/c02.py`: exact correspondence on dyadic systems
while `FE_INEXACT` stays clear, residual oracle otherwise).  Helper lemmas:
`Lemmas/LinSolve*.lean`.  All statements are in exact arithmetic (`Rat`) and
quantify over every size `n`, every matrix / right-hand side, every
triangular tag and side; nothing is bounded.  What is *not* a theorem here:
floating-point backward-error bounds, conjugate gradient, convergence of the
symmetric eigensolver (see MANIFEST note of checks/c02.py).
-/
import SharkVerif.Lemmas.LinSolve
namespace SharkVerif.C02
open SharkVerif.LinSolve

/-! ## triangular systems -/

/-- `kernels::trsv<Triangular, left>`: for every size, every tag (lower/upper, unit/non-unit),
if no exception is thrown (no zero on a diagonal that is divided by) the returned vector
solves `T x = b`, `T` the triangular matrix the tag denotes. -/
theorem trsv_correct_left (t : Tri) (n : Nat) (A : Mat) (b : Vec)
    (h : triSingular t n A = false) :
    ∀ i, i < n → mulVec n (triPart t A) (trsv t true n A b) i = b i := by
  intro i hi
  exact trsvLeft_correct t n A b ((regular_iff_not_singular t n A).mpr h) hi

/-- `kernels::trsv<Triangular, right>`: `x T = b`. -/
theorem trsv_correct_right (t : Tri) (n : Nat) (A : Mat) (b : Vec)
    (h : triSingular t n A = false) :
    ∀ j, j < n → vecMul n (trsv t false n A b) (triPart t A) j = b j := by
  intro j hj
  have hr := ((regular_iff_not_singular t n A).mpr h).transposed
  have key := trsvLeft_correct t.transposed n (transpose A) b hr hj
  rw [← key]
  unfold vecMul mulVec trsv trsvArr
  apply sum_congr; intro k _
  rw [triPart_transposed]
  simp [Rat.mul_comm]

/-- both sides in one statement -/
theorem trsv_correct (t : Tri) (left : Bool) (n : Nat) (A : Mat) (b : Vec)
    (h : triSingular t n A = false) :
    ∀ i, i < n →
      (if left then mulVec n (triPart t A) (trsv t left n A b) i
       else vecMul n (trsv t left n A b) (triPart t A) i) = b i := by
  intro i hi
  cases left
  · simpa using trsv_correct_right t n A b h i hi
  · simpa using trsv_correct_left t n A b h i hi

/-- non-vacuity: a 2×2 lower system with garbage in the unused triangle -/
example : triSingular ⟨false, false⟩ 2 (fun i j => if i = 0 ∧ j = 1 then 7 else 2) = false := by decide

/-- `kernels::trsm<Triangular, left>`: `T X = B` for an `n × m` right-hand side. -/
theorem trsm_correct_left (t : Tri) (n m : Nat) (A B : Mat) (h : triSingular t n A = false) :
    ∀ i k, i < n → k < m → mul n (triPart t A) (trsm t true n m A B) i k = B i k := by
  intro i k hi hk
  have key := trsv_correct_left t n A (fun i' => B i' k) h i hi
  rw [← key]
  unfold mul mulVec trsm trsmArr trsv
  apply sum_congr; intro j _
  simp [mget, vget, Array.getD_eq_getD_getElem?, Array.getElem?_ofFn, hk]

/-- `kernels::trsm<Triangular, right>`: `X T = B` for an `m × n` right-hand side. -/
theorem trsm_correct_right (t : Tri) (n m : Nat) (A B : Mat) (h : triSingular t n A = false) :
    ∀ k j, k < m → j < n → mul n (trsm t false n m A B) (triPart t A) k j = B k j := by
  intro k j hk hj
  have key := trsv_correct_right t n A (fun i' => B k i') h j hj
  rw [← key]
  unfold mul vecMul trsm trsmArr trsv
  apply sum_congr; intro i _
  simp [mget, vget, Array.getD_eq_getD_getElem?, Array.getElem?_ofFn, hk]

end SharkVerif.C02
