/-
C02 — linear-system solvers and matrix decompositions satisfy their defining equations.
(first stage: the tie; theorems follow)
-/
import SharkVerif.Model.LinSolve
namespace SharkVerif.C02
open SharkVerif.LinSolve

theorem sum_zero (n : Nat) : sum n (fun _ => 0) = 0 := by
  induction n with
  | zero => rfl
  | succ k ih => simp [sum, ih, Rat.add_zero]

end SharkVerif.C02
