/-
C02 — linear-system solvers and matrix decompositions satisfy their defining equations.

Headline file.  The theorems of this property live in layers (all of them are obligations of the
check; `checks/c02.py` audits every module listed here):

* `Lemmas/LinSolveProps.lean`   triangular solves, Cholesky, pivoted LU, the solves built from them,
                                rank-one update, the lazily consumed forms (first round);
* `Lemmas/LinSolveBlocked.lean`, `Lemmas/LinSolveBlockedChol.lean`
                                the blocked recursions `trsm_recursive` / `potrf_recursive`
                                (`Model/LinSolveBlocked.lean`, block size a parameter) return what the
                                unblocked loops return, for every block size and every `n`;
* `Lemmas/LinSolveCG.lean`      conjugate gradient (`Model/LinSolveCG.lean`): residual recurrence,
                                tolerance test, conjugacy, termination within `n` passes;
* `Lemmas/LinSolveSemi.lean`, `Lemmas/LinSolvePstrf.lean`
                                pivoted Cholesky `pstrf_correct` and the semi-definite solver
                                (least squares), incl. the witness that the tolerance matters;
* `Lemmas/SolveExpr.lean` + `Gen/SolveRules.lean` (regenerated from `solve.hpp` on every run)
                                the rewrites of solve / inverse expressions keep the state of the tag.

This file: the statements about the *regenerated* rule set, and the compositions that join the layers
into end-to-end statements about the modelled routines.
-/
import SharkVerif.Lemmas.LinSolveProps
import SharkVerif.Lemmas.LinSolveBlocked
import SharkVerif.Lemmas.LinSolveBlockedChol
import SharkVerif.Lemmas.LinSolveCG
import SharkVerif.Lemmas.LinSolveSemi
import SharkVerif.Lemmas.LinSolvePstrf
import SharkVerif.Lemmas.SolveExpr
import SharkVerif.Gen.SolveRules
namespace SharkVerif.C02
open SharkVerif.LinSolve
open SharkVerif.Gen.SolveRules

/-! ## the system tag through the expression rewrites of `solve.hpp`

`solveTagTranspose` and `rules` are GENERATED from the C++ (`translate/solve_rules.py`); the proofs below are
fixed text and stop building when the C++ changes what they say. -/

/-- `solve_tag_transpose_helper<Tag>::transpose(tag)` keeps the state of the tag
(`conjugate_gradient::epsilon`, `max_iterations`) — for every tag. -/
theorem solveTagTranspose_params (t : Tag) : (solveTagTranspose t).params = t.params := by
  cases t <;> rfl

/-- … and has the type the optimizers declare for it (`Tag::transposed_orientation`):
upper ↔ lower for the triangular tags, the tag's own type otherwise. -/
theorem solveTagTranspose_type (t : Tag) : (solveTagTranspose t).sameType t.transposedDefault = true := by
  cases t <;> simp [solveTagTranspose, Tag.transposedDefault, Tag.sameType, Tri.transposed]

theorem solveTagTranspose_tri (x : Tri) : solveTagTranspose (.tri x) = .tri x.transposed := rfl

/-- transposing twice gives the tag back -/
theorem solveTagTranspose_involutive (t : Tag) : solveTagTranspose (solveTagTranspose t) = t := by
  cases t with
  | tri x => cases x; simp [solveTagTranspose]
  | _ => rfl

/-- every rewrite of the regenerated rule set hands the tag's state on unchanged -/
theorem rules_preserving : rules.Preserving :=
  ⟨solveTagTranspose_params, solveTagTranspose_params, fun _ => rfl, fun _ => rfl, fun _ => rfl,
   fun _ => rfl, fun _ => rfl, fun _ => rfl, fun _ => rfl⟩

/-- **the parameters of a system tag survive every rewrite**: whatever solve / inverse expression `e` is
transposed (`trans(e)`, and with it `v % e`, `column(e,k)`), multiplied (`prod`, `%`) or has a row taken, the
rewritten expression carries exactly the tag states of its operands — for every expression, by induction
over its structure. -/
theorem tag_state_survives_trans (e : E) : SameParams (transOpt rules e).params e.params :=
  transOpt_params rules rules_preserving e
theorem tag_state_survives_row (e : E) (i : Nat) : SameParams (rowOpt rules e i).params e.params :=
  rowOpt_params rules rules_preserving e i
theorem tag_state_survives_column (e : E) (k : Nat) : SameParams (colOpt rules e k).params e.params :=
  colOpt_params rules rules_preserving e k
theorem tag_state_survives_prod_vec (M v : E) : SameParams (mvprodOpt rules M v).params (M.params ++ v.params) :=
  mvprodOpt_params rules rules_preserving M v
theorem tag_state_survives_vec_prod (v M : E) : SameParams (vmprodOpt rules v M).params (M.params ++ v.params) :=
  vmprodOpt_params rules rules_preserving v M
theorem tag_state_survives_prod_mat (X Y : E) : SameParams (mmprodOpt rules X Y).params (X.params ++ Y.params) :=
  mmprodOpt_params rules rules_preserving X Y

/-- non-vacuity / what the statement excludes: a helper that returns a default-constructed tag of the
transposed type (`Tag.transposedDefault`, the "one generic version") does NOT keep the state —
`conjugate_gradient(1e-12, 2)` comes back as `conjugate_gradient(1e-10, 0)`. -/
theorem transposedDefault_drops_state :
    ∃ t : Tag, t.transposedDefault.params ≠ t.params :=
  ⟨.cg 1 2, by simp [Tag.transposedDefault, Tag.params]⟩

/-- the concrete instance the harness exercises: `b % inv(A, cg(ε,k))` is rewritten into ONE vector solve
with the same `ε`, `k`, from the left, on the transposed matrix -/
example (eps : Rat) (k : Nat) :
    vmprodOpt rules (.vec 0) (.inv (.mat 0) (.cg eps k)) = .vsolve (.trans (.mat 0)) (.vec 0) (.cg eps k) true := rfl

/-- **`inv(A,tag) % b` is the solve call** (rule `matrix_vector_prod_optimizer<matrix_inverse<M,Tag>,V>`, read
off the source): the product with an inverse expression *is* the node `solve(A, b, tag, left)` with the same tag;
`inv(A,tag) % B` is `solve(A,B,tag,left)`, `B % inv(A,tag)` is `solve(A,B,tag,right)`. -/
theorem inv_prod_is_solve_rule (A b : E) (t : Tag) : mvprodOpt rules (.inv A t) b = .vsolve A b t true := rfl
theorem inv_prod_mat_is_solve_rule (A B : E) (t : Tag) : mmprodOpt rules (.inv A t) B = .msolve A B t true := rfl
theorem mat_prod_inv_is_solve_rule (A : E) (i : Nat) (t : Tag) :
    mmprodOpt rules (.mat i) (.inv A t) = .msolve A (.mat i) t false := rfl

/-- the sides the proved identities need (`Lemmas/LinSolveProps.lean`): `row(solve(A,B,left),i)` uses the
RIGHT-sided unit-vector solve (`row_of_left_solve`; `row_of_left_solve_wrong_side_witness` shows the left-sided
one is wrong), `row(solve(A,B,right),i)` the right-sided solve of the row, `prod(solve(A,B,right),c)` the
LEFT-sided solve of `c` (`prod_of_right_solve`), `prod(solve(A,B,left),c)` the left-sided solve of `B c`
(`prod_of_left_trsm`), and transposition flips the side. -/
theorem rules_sides :
    rules.rowSolveLeft.side true = false ∧ rules.rowSolveRight.side false = false ∧
    rules.prodSolveRightVec.side false = true ∧ rules.prodSolveLeftVec.side true = true ∧
    rules.prodInvVec.side true = true ∧ rules.prodInvMat.side true = true ∧ rules.prodMatInv.side false = false ∧
    (∀ l, rules.transSolve.side l = !l) :=
  ⟨rfl, rfl, rfl, rfl, rfl, rfl, rfl, fun _ => rfl⟩

/-! ## end-to-end compositions -/

/-- **the blocked Cholesky `potrf_recursive` reproduces its matrix**: for every block size `bs` (and every
block size `tb` of the triangular solve it calls), every `n`, every input: if the blocked routine returns 0
then `L Lᵀ = A` on the stored triangle, `L` the lower triangle it leaves in place.
(`potrfBlocked_eq`: it returns what the unblocked loop returns; `potrf_correct`: that one is right.) -/
theorem potrf_blocked_correct (bs tb : Nat) (r : Rat → Rat) (n : Nat) (A : Mat) (hr : SqrtSpec r n A)
    (h0 : potrfBlockedInfo bs tb r n A = 0) :
    ∀ i j, i < n → j ≤ i →
      mul n (lowerOf (potrfBlockedLower bs tb r n A)) (transpose (lowerOf (potrfBlockedLower bs tb r n A))) i j
        = A i j := by
  have hnz : RootNZ r n A := fun j hj hp => ne_of_gt (hr j hj hp).2
  have heq := potrfBlocked_eq bs tb r n A hnz
  have h0' : potrfInfo false r n A = 0 := by rw [← heq.1]; exact h0
  intro i j hi hji
  have hj : j < n := by omega
  rw [← (potrf_correct r n A hr h0').1 i j hi hji]
  unfold mul transpose lowerOf
  apply sum_congr; intro k hk
  rw [heq.2 h0' i k hi hk, heq.2 h0' j k hj hk]

/-- the blocked triangular solve with the C++ block size -/
theorem trsm_recursive_correct (t : Tri) (left : Bool) (n m : Nat) (A B : Mat) (h : triSingular t n A = false) :
    ∀ a b, (if left then a < n ∧ b < m else a < m ∧ b < n) →
      (if left then mul n (triPart t A) (trsmBlocked 32 t left n m A B) a b
       else mul n (trsmBlocked 32 t left n m A B) (triPart t A) a b) = B a b :=
  trsmBlocked_correct 32 t left n m A B h

/-- **conjugate gradient reaches the requested level**: for every size, every symmetric positive definite
system, every right-hand side and every tolerance `ε > 0`, the vector overload run without iteration limit
(at least `n` passes are allowed) returns `x` with `‖b − A x‖∞ < ε` — the *true* residual, not the recurrence
value. -/
theorem cg_residual_at_requested_level {eps : Rat} {steps n : Nat} {A : Mat} {b : Vec} (hA : SymOn n A)
    (hpd : PosDefOn n A) (heps : 0 < eps) (hsteps : n ≤ steps) :
    ∀ i, i < n → absR (b i - mulVec n A (cgVec eps steps n A b).x i) < eps :=
  fun _ hi => cgVec_spd_converges hA hpd heps hsteps hi

/-- non-vacuity: the 2×2 run of `Lemmas/LinSolveCG.lean` -/
example : SymOn 2 cgExA ∧ PosDefOn 2 cgExA := ⟨cgExA_sym, cgExA_posdef⟩

end SharkVerif.C02
