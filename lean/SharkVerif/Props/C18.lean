/-
C18 — Serialization round-trips preserve behaviour.

* `read_write_id`, `read_other_untouched`, `behaviour_preserved`,
  `optimizer_continues`: generic theorems about field-wise `write`/`read`
  (`Model/Archive.lean`) for ANY field list, state and fresh object;
* `all_classes_obligations`: the obligations of every class found by the
  translator T3 (`Gen/Serial.lean`, regenerated from the C++ on every run)
  hold — `read` and `write` archive the same expressions in the same order with
  the `ISerializable` signatures, and every data member is archived or
  allow-listed with a reason (`translate/serial_transient.json`);
  per class they are the generated theorems `rw_<Class>` / `cov_<Class>`;
* `class_roundtrip`: both combined — for every generated class, reading what was
  written restores every archived expression;
* `dataset_roundtrip_*`: the token codecs of datasets (dense, sparse, labelled;
  any number of batches incl. none, any batch sizes incl. 0 and 1, any shape)
  decode what they encode.

NOT a theorem: boost.serialization (tokens ⇄ bytes, text and binary, pointer
tracking), and that a member's value determines the object's behaviour the way
the C++ uses it — both are exercised by the correspondence harness only.
-/
import SharkVerif.Model.Archive
import SharkVerif.Gen.Serial
import SharkVerif.Gen.SerialCodec
namespace SharkVerif.C18
open SharkVerif.Archive

variable {Tok : Type}

/-- fields that are not read keep the value of the fresh object -/
theorem read_other_untouched : ∀ (fields : List String) (chs : List (List Tok)) (st0 : State Tok) (g : String),
    g ∉ fields → readObj fields chs st0 g = st0 g := by
  intro fields
  induction fields with
  | nil => intro chs st0 g _; cases chs <;> rfl
  | cons f fs ih =>
    intro chs st0 g hg
    cases chs with
    | nil => rfl
    | cons ch chs =>
      simp only [readObj]
      rw [ih chs _ g (fun h => hg (List.mem_cons_of_mem _ h))]
      have : g ≠ f := fun h => hg (by simp [h])
      simp [this]

/-- **generic round trip**: reading, with the same field list, what `write` emitted
restores every archived field — for every field list (duplicates allowed), every
state and every fresh object. -/
theorem read_write_id : ∀ (fields : List String) (st st0 : State Tok) (g : String),
    g ∈ fields → readObj fields (writeObj fields st) st0 g = st g := by
  intro fields
  induction fields with
  | nil => intro st st0 g hg; simp at hg
  | cons f fs ih =>
    intro st st0 g hg
    simp only [writeObj, List.map_cons, readObj]
    by_cases hgfs : g ∈ fs
    · exact ih st _ g hgfs
    · have hgf : g = f := by
        rcases List.mem_cons.mp hg with h | h
        · exact h
        · exact absurd h hgfs
      have := read_other_untouched (Tok := Tok) fs (fs.map st) (fun g' => if g' = f then st f else st0 g') g hgfs
      simp only [writeObj] at *
      rw [this]; simp [hgf]

/-- **behaviour preserved**: if the members that are *not* archived have the same
value in the fresh object (transient members: configuration, external pointers,
derived caches), the restored object is the original — hence every function of
the state (`eval`, `parameterVector`, …) agrees. -/
theorem behaviour_preserved (fields : List String) (st st0 : State Tok)
    (hfresh : ∀ g, g ∉ fields → st0 g = st g) :
    readObj fields (writeObj fields st) st0 = st := by
  funext g
  by_cases hg : g ∈ fields
  · exact read_write_id fields st st0 g hg
  · rw [read_other_untouched _ _ _ _ hg]; exact hfresh g hg

/-- **optimizers continue identically**: any deterministic `step` gives the same next
iterate on the restored state -/
theorem optimizer_continues {β : Type} (step : State Tok → β) (fields : List String) (st st0 : State Tok)
    (hfresh : ∀ g, g ∉ fields → st0 g = st g) :
    step (readObj fields (writeObj fields st) st0) = step st := by
  rw [behaviour_preserved fields st st0 hfresh]

/-- what goes wrong otherwise: a field that `write` emits but `read` does not read
(ModelKernel before the repair: `read` never overrode `ISerializable::read`) is not restored -/
theorem unread_field_witness :
    readObj ([] : List String) (writeObj ["*m_wrapper"] (fun _ => [1])) (fun _ => [0]) "*m_wrapper" = [0] := by
  decide

/-- every class found by the translator satisfies both obligations -/
theorem all_classes_obligations (c : ClassInfo) (hc : c ∈ Gen.Serial.classes) :
    c.readWriteAgree = true ∧ c.membersCovered = true := by
  unfold Gen.Serial.classes at hc
  obtain ⟨k, _, rfl⟩ := List.mem_map.mp hc
  exact ⟨k.rw, k.cov⟩

theorem class_roundtrip_aux (c : ClassInfo) (hc : c ∈ Gen.Serial.classes) (st st0 : State Tok) (g : String)
    (hg : g ∈ c.writeFields) :
    readObj c.readFields (writeObj c.writeFields st) st0 g = st g := by
  have h := (all_classes_obligations c hc).1
  simp only [ClassInfo.readWriteAgree, Bool.and_eq_true] at h
  have heq : c.readFields = c.writeFields := by simpa using h.1
  rw [heq]
  exact read_write_id _ st st0 g hg

/-- every class found by the translator satisfies the behaviour-dependency obligation: each member
mentioned by `eval`/`operator()`/`parameterVector`/`numberOfParameters`/`step`/`inputShape`/`outputShape`
(and the methods of the class they call — list regenerated from the source on every run) is archived,
rebuilt by `read`, or allow-listed with a reviewed reason -/
theorem all_classes_deps_covered (c : ClassInfo) (hc : c ∈ Gen.Serial.classes) : c.depsCovered = true := by
  unfold Gen.Serial.classes at hc
  obtain ⟨k, _, rfl⟩ := List.mem_map.mp hc
  exact k.dep

/-- a behaviour function that reads only the keys in `deps` -/
def DependsOnly {β : Type} (beh : State Tok → β) (deps : List String) : Prop :=
  ∀ st st' : State Tok, (∀ g ∈ deps, st g = st' g) → beh st = beh st'

/-- **behaviour preservation per class family**: for every class found by the translator (every model,
kernel, normaliser, kernel expansion, optimizer, dataset, … — `c.family`), a behaviour function that
depends only on keys `deps` gives the same result on the restored object as on the original, provided
the fresh object agrees with the original on the keys in `deps` that `write` does not archive (the
allow-listed configuration / external objects / members rebuilt by `read`) — nothing is assumed
about any other member of the fresh object (stale state elsewhere is irrelevant). -/
theorem family_behaviour_preserved {β : Type} (c : ClassInfo) (hc : c ∈ Gen.Serial.classes)
    (beh : State Tok → β) (deps : List String) (hdep : DependsOnly beh deps) (st st0 : State Tok)
    (hfresh : ∀ g ∈ deps, g ∉ c.writeFields → st0 g = st g) :
    beh (readObj c.readFields (writeObj c.writeFields st) st0) = beh st := by
  apply hdep
  intro g hg
  by_cases hw : g ∈ c.writeFields
  · exact class_roundtrip_aux c hc st st0 g hw
  · have h := (all_classes_obligations c hc).1
    simp only [ClassInfo.readWriteAgree, Bool.and_eq_true] at h
    have heq : c.readFields = c.writeFields := by simpa using h.1
    rw [heq, read_other_untouched _ _ _ _ hw]
    exact hfresh g hg hw

/-- **per-class round trip**: for every `read`/`write` pair and every `serialize`
template in the repo tree, reading what was written restores every archived expression -/
theorem class_roundtrip (c : ClassInfo) (hc : c ∈ Gen.Serial.classes) (st st0 : State Tok) (g : String)
    (hg : g ∈ c.writeFields) :
    readObj c.readFields (writeObj c.writeFields st) st0 g = st g := by
  have h := (all_classes_obligations c hc).1
  simp only [ClassInfo.readWriteAgree, Bool.and_eq_true] at h
  have heq : c.readFields = c.writeFields := by
    have := h.1
    simpa using this
  rw [heq]
  exact read_write_id _ st st0 g hg

/-! ### datasets -/

theorem roundTrip_id {V α : Type} (c : Codec V α) (a : α) : roundTrip c a = some a := by
  unfold roundTrip
  have := c.law a []
  simp only [List.append_nil] at this
  rw [this]

/-- dense unlabeled data: same elements, same batch structure, same shape -/
theorem dataset_roundtrip_dense {V : Type} (d : Dataset (DenseBatch V)) :
    roundTrip (Codec.dataset Codec.denseBatch) d = some d := roundTrip_id _ d

/-- sparse unlabeled data -/
theorem dataset_roundtrip_sparse {V : Type} (d : Dataset (SparseBatch V)) :
    roundTrip (Codec.dataset Codec.sparseBatch) d = some d := roundTrip_id _ d

/-- labelled data with class labels (dense or sparse inputs) and with vector labels -/
theorem dataset_roundtrip_labeled {V B : Type} (cb : Codec V B) (d : LabeledDataset B (List Nat)) :
    roundTrip (Codec.labeled cb Codec.labelBatch) d = some d := roundTrip_id _ d

theorem dataset_roundtrip_regression {V B : Type} (cb : Codec V B) (d : LabeledDataset B (DenseBatch V)) :
    roundTrip (Codec.labeled cb Codec.denseBatch) d = some d := roundTrip_id _ d

/-- the archive really contains the data (non-vacuity: `enc` is not constant) -/
example : (Codec.dataset (V := Nat) Codec.denseBatch).enc ⟨[⟨1, 2, [7, 8]⟩], [2]⟩
    = [.nat 1, .nat 1, .nat 2, .nat 2, .val 7, .val 8, .nat 1, .nat 2] := by decide

/-- empty and single-element datasets are instances -/
example : roundTrip (Codec.dataset (V := Nat) Codec.denseBatch) ⟨[], []⟩ = some ⟨[], []⟩ := by decide
example : roundTrip (Codec.dataset (V := Nat) Codec.denseBatch) ⟨[⟨1, 1, [5]⟩], [1]⟩ = some ⟨[⟨1, 1, [5]⟩], [1]⟩ := by
  decide

/-! ### histories -/

/-- **reading into a used object / reading twice**: whatever was read (or configured) before, a second
`read` overwrites every archived field with the second archive -/
theorem read_overwrites_stale (fields : List String) (st1 st2 st0 : State Tok) (g : String) (hg : g ∈ fields) :
    readObj fields (writeObj fields st2) (readObj fields (writeObj fields st1) st0) g = st2 g :=
  read_write_id fields st2 _ g hg

/-- reading the same archive twice is the same as reading it once -/
theorem read_twice_idem (fields : List String) (st st0 : State Tok) :
    readObj fields (writeObj fields st) (readObj fields (writeObj fields st) st0)
      = readObj fields (writeObj fields st) st0 := by
  funext g
  by_cases hg : g ∈ fields
  · rw [read_write_id _ _ _ _ hg, read_write_id _ _ _ _ hg]
  · rw [read_other_untouched _ _ _ _ hg]

/-- second generation: writing the restored object gives the archive of the original -/
theorem rewrite_same_archive (fields : List String) (st st0 : State Tok) :
    writeObj fields (readObj fields (writeObj fields st) st0) = writeObj fields st := by
  simp only [writeObj]
  apply List.map_congr_left
  intro g hg
  exact read_write_id fields st st0 g hg

/-- `n` steps -/
def iter {α : Type} (f : α → α) : Nat → α → α
  | 0, a => a
  | n + 1, a => iter f n (f a)

theorem iterate_add_apply {α : Type} (f : α → α) (n k : Nat) (a : α) :
    iter f (n + k) a = iter f n (iter f k a) := by
  induction k generalizing a with
  | zero => rfl
  | succ k ih => exact ih (f a)

/-- **optimizer continuation after a restore at every step index**: `k` steps, write, read into an
optimizer `st0` that agrees on the members `write` does not archive, `n` more steps — the same state as
`n + k` uninterrupted steps, for every `k` and `n` and every deterministic `step` -/
theorem optimizer_continues_every_index (step : State Tok → State Tok) (fields : List String) (st st0 : State Tok)
    (k n : Nat) (hfresh : ∀ g, g ∉ fields → st0 g = (iter step k st) g) :
    iter step n (readObj fields (writeObj fields (iter step k st)) st0) = iter step (n + k) st := by
  rw [behaviour_preserved fields _ st0 hfresh, iterate_add_apply]

example : iter (fun (s : State Nat) => fun g => s g ++ [1]) 2
    (readObj ["m_x"] (writeObj ["m_x"] (iter (fun (s : State Nat) => fun g => s g ++ [1]) 1 (fun _ => []))) (fun _ => [1])) "m_x"
    = [1, 1, 1] := by decide

/-! ### token-level archives of the containers (encoders regenerated from the source) -/

section tokens
open Gen.SerialCodec Codec
variable {V : Type}

/-- a generated `read` decodes what the generated `write` encoded, followed by anything -/
theorem Data_token_roundtrip {B : Type} (cb : Codec V B) (d) (rest : List (Archive.Tok V)) :
    (Data_codec_r cb).dec ((Data_codec cb).enc d ++ rest) = some (d, rest) := by
  rw [Data_rw]; exact (Data_codec cb).law d rest

theorem LabeledData_token_roundtrip {B L : Type} (cb : Codec V B) (cl : Codec V L) (d) (rest : List (Archive.Tok V)) :
    (LabeledData_codec_r cb cl).dec ((LabeledData_codec cb cl).enc d ++ rest) = some (d, rest) := by
  rw [LabeledData_rw]; exact (LabeledData_codec cb cl).law d rest

theorem WeightedData_token_roundtrip {D W : Type} (cd : Codec V D) (cw : Codec V W) (d) (rest : List (Archive.Tok V)) :
    (BaseWeightedDataset_codec_r cd cw).dec ((BaseWeightedDataset_codec cd cw).enc d ++ rest) = some (d, rest) := by
  rw [BaseWeightedDataset_rw]; exact (BaseWeightedDataset_codec cd cw).law d rest

/-- datasets of dense elements (`Data<RealVector>`: batches are `remora::matrix`), every number of batches
(none, empty ones, single elements), every shape: the token stream of `write` followed by any rest decodes
to the same batches in the same order with the same shape -/
theorem dense_dataset_tokens (d) (rest : List (Archive.Tok V)) :
    (Data_codec_r (remoraMat val)).dec ((Data_codec (remoraMat val)).enc d ++ rest) = some (d, rest) :=
  Data_token_roundtrip _ d rest

/-- datasets of sparse elements (batches are `remora::compressed_matrix`: raw storage arrays) -/
theorem sparse_dataset_tokens (d) (rest : List (Archive.Tok V)) :
    (Data_codec_r compressed_matrix_codec).dec ((Data_codec compressed_matrix_codec).enc d ++ rest) = some (d, rest) :=
  Data_token_roundtrip _ d rest

/-- labelled datasets of sparse elements with class labels, weighted (`WeightedLabeledData`) -/
theorem weighted_labeled_sparse_tokens (d) (rest : List (Archive.Tok V)) :
    (BaseWeightedDataset_codec_r (LabeledData_codec compressed_matrix_codec (remoraVec nat)) (remoraVec val)).dec
      ((BaseWeightedDataset_codec (LabeledData_codec compressed_matrix_codec (remoraVec nat)) (remoraVec val)).enc d ++ rest)
      = some (d, rest) :=
  WeightedData_token_roundtrip _ _ d rest

/-- nested standard containers: `std::vector<std::pair<std::size_t, std::string>>`, vectors of vectors -/
theorem std_wrappers_tokens (l : List (Nat × String)) (ll : List (List V)) (rest : List (Archive.Tok V)) :
    (pair (stdVector 0 (pair nat str)) (stdVector 0 (stdVector 0 val))).dec
      ((pair (stdVector 0 (pair nat str)) (stdVector 0 (stdVector 0 val))).enc (l, ll) ++ rest) = some ((l, ll), rest) :=
  Codec.law _ _ rest

example : (Data_codec (V := Int) (remoraMat val)).enc ([(1, 2, [7, 8])], ([2], 2))
    = [.nat 1, .nat 1, .nat 1, .nat 2, .nat 2, .nat 0, .val 7, .val 8, .nat 1, .nat 0, .nat 2, .nat 2] := by decide
/-- empty dataset, dataset with one empty batch -/
example : (Data_codec (V := Int) (remoraMat val)).enc ([], ([], 1)) = [.nat 0, .nat 1, .nat 0, .nat 0, .nat 1] := by decide
example : (Data_codec_r (V := Int) (remoraMat val)).dec ((Data_codec (remoraMat val)).enc ([(0, 3, [])], ([3], 3)))
    = some (([(0, 3, [])], ([3], 3)), []) := by rfl

/-! #### stale targets: `remora::vector` / `remora::matrix` loaded into a used object -/

/-- `vector::serialize` loading into ANY old vector (longer, shorter, empty) restores exactly the saved
vector — including the saved empty vector, for which no array is archived and `resize(0)` does the work -/
theorem vecLoad_roundtrip {α : Type} (c : Codec V α) (pad : α) (old v : List α) (rest : List (Archive.Tok V)) :
    vecLoad c pad old ((remoraVec c).enc v ++ rest) = some (v, rest) := by
  cases v with
  | nil =>
    simp [remoraVec, vecLoad, vecResize]
  | cons a t =>
    have hl := vecResize_length pad old (t.length + 1)
    have hne : (vecResize pad old (t.length + 1)).isEmpty = false := by
      cases h : vecResize pad old (t.length + 1) with
      | nil => rw [h] at hl; simp at hl
      | cons _ _ => rfl
    have h := decN_encAll c (a :: t) rest
    simp only [List.length_cons] at h
    simp only [remoraVec, List.isEmpty_cons, Bool.false_eq_true, ↓reduceIte, List.cons_append, vecLoad, List.length_cons,
      hne, hl]
    exact h

/-- hence the load does not depend on the old state: it is the decoder of the codec -/
theorem vecLoad_stale_independent {α : Type} (c : Codec V α) (pad : α) (old old' v : List α) (rest : List (Archive.Tok V)) :
    vecLoad c pad old ((remoraVec c).enc v ++ rest) = vecLoad c pad old' ((remoraVec c).enc v ++ rest) := by
  rw [vecLoad_roundtrip, vecLoad_roundtrip]

theorem matLoad_roundtrip {α : Type} (c : Codec V α) (old m : Nat × Nat × List α) (rest : List (Archive.Tok V)) :
    matLoad c old ((remoraMat c).enc m ++ rest) = some (m, rest) := by
  obtain ⟨s1, s2, d⟩ := m
  have h := (stdVector 0 c).law d rest
  simp only [remoraMat, pair, nat, List.cons_append, List.nil_append, matLoad]
  simp only [stdVector, List.cons_append] at h ⊢
  rw [h]

example : vecLoad (V := Int) val 0 [9, 9, 9] ((remoraVec val).enc []) = some ([], []) := by decide
example : vecLoad (V := Int) val 0 [9, 9, 9] ((remoraVec val).enc [4]) = some ([4], []) := by decide

end tokens

/-! ### object sharing inside one archive (what `Data`'s shared_ptr batches rely on) -/

section sharing
open Archive
variable {V B T : Type}

theorem indexOf_append_mem (a : Nat) (s t : List Nat) (h : a ∈ s) : indexOf a (s ++ t) = indexOf a s := by
  induction s with
  | nil => simp at h
  | cons b s ih =>
    simp only [List.cons_append, indexOf]
    by_cases hb : b = a
    · simp [hb]
    · simp only [hb, ↓reduceIte]
      rcases List.mem_cons.mp h with h' | h'
      · exact absurd h'.symm hb
      · rw [ih h']

theorem indexOf_append_new (a : Nat) (s : List Nat) (h : a ∉ s) : indexOf a (s ++ [a]) = s.length := by
  induction s with
  | nil => simp [indexOf]
  | cons b s ih =>
    have hb : b ≠ a := fun e => h (by simp [e])
    have hs : a ∉ s := fun e => h (List.mem_cons_of_mem _ e)
    simp [indexOf, hb, ih hs]

theorem indexOf_lt (a : Nat) (s : List Nat) (h : a ∈ s) : indexOf a s < s.length := by
  induction s with
  | nil => simp at h
  | cons b s ih =>
    simp only [indexOf, List.length_cons]
    by_cases hb : b = a
    · simp [hb]
    · simp only [hb, ↓reduceIte]
      rcases List.mem_cons.mp h with h' | h'
      · exact absurd h'.symm hb
      · have := ih h'; omega

/-- writing more pointers only appends to the table of written addresses -/
theorem seenAfter_prefix (r s : List Nat) : ∃ t, seenAfter r s = s ++ t := by
  induction r generalizing s with
  | nil => exact ⟨[], by simp [seenAfter]⟩
  | cons a r ih =>
    simp only [seenAfter]
    by_cases h : a ∈ s
    · simp only [h, ↓reduceIte]; exact ih s
    · simp only [h, ↓reduceIte]
      obtain ⟨t, ht⟩ := ih (s ++ [a])
      exact ⟨[a] ++ t, by rw [ht, List.append_assoc]⟩

/-- ids are stable: an address that was written keeps its id whatever is written later -/
theorem indexOf_seenAfter (a : Nat) (r s : List Nat) (h : a ∈ s) : indexOf a (seenAfter r s) = indexOf a s := by
  obtain ⟨t, ht⟩ := seenAfter_prefix r s
  rw [ht, indexOf_append_mem a s t h]

/-- **round trip of a pointer sequence with sharing**: for every sequence of addresses (repetitions =
shared objects, in any pattern), every heap, every table `s` of objects written before: reading resolves
every pointer to the id of its address, loads every distinct object exactly once, and leaves the rest -/
theorem readPtrs_writePtrs (c : Codec V B) (deref : Nat → B) (refs s : List Nat) (rest : List (Archive.Tok V)) :
    readPtrs c refs.length (s.map deref) (writePtrs c deref refs s ++ rest)
      = some (refs.map (indexOf · (seenAfter refs s)), (seenAfter refs s).map deref, rest) := by
  induction refs generalizing s with
  | nil => simp [readPtrs, writePtrs, seenAfter]
  | cons a r ih =>
    by_cases h : a ∈ s
    · have hlt : indexOf a s < (s.map deref).length := by simpa using indexOf_lt a s h
      simp only [writePtrs, h, ↓reduceIte, List.cons_append, List.length_cons, readPtrs, hlt, ih s, seenAfter,
        List.map_cons, indexOf_seenAfter a r s h]
    · have hl : s.length = (s.map deref).length := by simp
      have hm : (s ++ [a]).map deref = s.map deref ++ [deref a] := by simp
      have hi : indexOf a (seenAfter r (s ++ [a])) = s.length := by
        rw [indexOf_seenAfter a r (s ++ [a]) (by simp), indexOf_append_new a s h]
      have := ih (s ++ [a])
      rw [hm] at this
      simp only [writePtrs, h, ↓reduceIte, List.cons_append, List.append_assoc, List.length_cons, readPtrs, hl,
        c.law, this, seenAfter, List.map_cons, hi]

/-- the restored pointers dereference to the original objects: VALUES are preserved -/
theorem shared_values (deref : Nat → B) (refs s : List Nat) (a : Nat) (ha : a ∈ refs) :
    ((seenAfter refs s).map deref)[indexOf a (seenAfter refs s)]? = some (deref a) := by
  have hmem : ∀ (r s : List Nat), a ∈ r → a ∈ seenAfter r s := by
    intro r
    induction r with
    | nil => intro s h; simp at h
    | cons b r ih =>
      intro s h
      simp only [seenAfter]
      rcases List.mem_cons.mp h with h' | h'
      · subst h'
        obtain ⟨t, ht⟩ := seenAfter_prefix r (if a ∈ s then s else s ++ [a])
        rw [ht]
        by_cases hs : a ∈ s <;> simp [hs]
      · exact ih _ h'
  have hget : ∀ (l : List Nat), a ∈ l → (l.map deref)[indexOf a l]? = some (deref a) := by
    intro l
    induction l with
    | nil => intro h; simp at h
    | cons b l ih =>
      intro h
      by_cases hb : b = a
      · simp [indexOf, hb]
      · rcases List.mem_cons.mp h with h' | h'
        · exact absurd h'.symm hb
        · simp [indexOf, hb, ih h']
  exact hget _ (hmem refs s ha)

/-- … and SHARING is preserved exactly: two restored pointers are the same object iff the originals were -/
theorem shared_identity (refs s : List Nat) (a b : Nat) (ha : a ∈ seenAfter refs s) (hb : b ∈ seenAfter refs s) :
    indexOf a (seenAfter refs s) = indexOf b (seenAfter refs s) ↔ a = b := by
  have hinj : ∀ (l : List Nat), a ∈ l → b ∈ l → indexOf a l = indexOf b l → a = b := by
    intro l
    induction l with
    | nil => intro h; simp at h
    | cons x l ih =>
      intro h1 h2 he
      by_cases hxa : x = a <;> by_cases hxb : x = b
      · rw [← hxa, ← hxb]
      · subst hxa
        have hxb' : ¬ (x = b) := hxb
        simp only [indexOf, ↓reduceIte, hxb'] at he
        omega
      · subst hxb
        have hxa' : ¬ (x = a) := hxa
        simp only [indexOf, ↓reduceIte, hxa'] at he
        omega
      · simp only [indexOf, hxa, hxb, ↓reduceIte, Nat.add_right_cancel_iff] at he
        rcases List.mem_cons.mp h1 with h | h
        · exact absurd h.symm hxa
        · rcases List.mem_cons.mp h2 with h' | h'
          · exact absurd h'.symm hxb
          · exact ih h h' he
  exact ⟨hinj _ ha hb, fun e => by rw [e]⟩

/-- **several containers in one archive** (labels = inputs, a data set and its copy, a data set appended to
itself, two labelled sets with shared inputs — any sharing pattern, any number of containers, any batch sizes):
`read` returns every container with its pointers resolved and every distinct batch loaded once -/
theorem readConts_writeConts (c : Codec V B) (ct : Codec V T) (deref : Nat → B) (cs : List (List Nat × T))
    (s : List Nat) (rest : List (Archive.Tok V)) :
    readConts c ct cs.length (s.map deref) (writeConts c ct deref cs s ++ rest)
      = some ((specConts cs s).1, (specConts cs s).2.map deref, rest) := by
  induction cs generalizing s with
  | nil => simp [readConts, writeConts, specConts]
  | cons hd more ih =>
    obtain ⟨refs, t⟩ := hd
    have hp := readPtrs_writePtrs c deref refs s
      (ct.enc t ++ (writeConts c ct deref more (seenAfter refs s) ++ rest))
    have hm := ih (seenAfter refs s)
    simp only [writeConts, List.cons_append, List.append_assoc, List.length_cons, readConts, hp, ct.law, hm, specConts]

/-- an archive with sharing is strictly shorter than one without: the shared batch is written ONCE -/
example : writePtrs (V := Nat) Codec.nat (fun a => a + 10) [0, 0] []
    = [.ptr 0, .nat 10, .back 0] := by decide
example : readPtrs (V := Nat) Codec.nat 3 [] (writePtrs Codec.nat (fun a => a + 10) [5, 7, 5] [])
    = some ([0, 1, 0], [15, 17], []) := by decide

end sharing

end SharkVerif.C18
