/-
C18 — Serialization round-trips preserve behaviour.

* `read_write_id`, `read_other_untouched`, `behaviour_preserved`,
  `optimizer_continues`: generic theorems about field-wise `write`/`read`
  (`Model/Archive.lean`) for ANY field list, state and fresh object;
* `all_classes_obligations`: the obligations of every class found by the
  translator T3 (`Gen/Serial.lean`, regenerated from the C++ on every run)
  hold — `read` and `write` archive the same expressions in the same order with
  the `ISerializable` signatures, and every data member is archived or
  allow-listed with a reason (`translate/serial_transient.json`);
  per class they are the generated theorems `rw_<Class>` / `cov_<Class>`;
* `class_roundtrip`: both combined — for every generated class, reading what was
  written restores every archived expression;
* `dataset_roundtrip_*`: the token codecs of datasets (dense, sparse, labelled;
  any number of batches incl. none, any batch sizes incl. 0 and 1, any shape)
  decode what they encode.

NOT a theorem: boost.serialization (tokens ⇄ bytes, text and binary, pointer
tracking), and that a member's value determines the object's behaviour the way
the C++ uses it — both are exercised by the correspondence harness only.
-/
import SharkVerif.Model.Archive
import SharkVerif.Gen.Serial
namespace SharkVerif.C18
open SharkVerif.Archive

variable {Tok : Type}

/-- fields that are not read keep the value of the fresh object -/
theorem read_other_untouched : ∀ (fields : List String) (chs : List (List Tok)) (st0 : State Tok) (g : String),
    g ∉ fields → readObj fields chs st0 g = st0 g := by
  intro fields
  induction fields with
  | nil => intro chs st0 g _; cases chs <;> rfl
  | cons f fs ih =>
    intro chs st0 g hg
    cases chs with
    | nil => rfl
    | cons ch chs =>
      simp only [readObj]
      rw [ih chs _ g (fun h => hg (List.mem_cons_of_mem _ h))]
      have : g ≠ f := fun h => hg (by simp [h])
      simp [this]

/-- **generic round trip**: reading, with the same field list, what `write` emitted
restores every archived field — for every field list (duplicates allowed), every
state and every fresh object. -/
theorem read_write_id : ∀ (fields : List String) (st st0 : State Tok) (g : String),
    g ∈ fields → readObj fields (writeObj fields st) st0 g = st g := by
  intro fields
  induction fields with
  | nil => intro st st0 g hg; simp at hg
  | cons f fs ih =>
    intro st st0 g hg
    simp only [writeObj, List.map_cons, readObj]
    by_cases hgfs : g ∈ fs
    · exact ih st _ g hgfs
    · have hgf : g = f := by
        rcases List.mem_cons.mp hg with h | h
        · exact h
        · exact absurd h hgfs
      have := read_other_untouched (Tok := Tok) fs (fs.map st) (fun g' => if g' = f then st f else st0 g') g hgfs
      simp only [writeObj] at *
      rw [this]; simp [hgf]

/-- **behaviour preserved**: if the members that are *not* archived have the same
value in the fresh object (transient members: configuration, external pointers,
derived caches), the restored object is the original — hence every function of
the state (`eval`, `parameterVector`, …) agrees. -/
theorem behaviour_preserved (fields : List String) (st st0 : State Tok)
    (hfresh : ∀ g, g ∉ fields → st0 g = st g) :
    readObj fields (writeObj fields st) st0 = st := by
  funext g
  by_cases hg : g ∈ fields
  · exact read_write_id fields st st0 g hg
  · rw [read_other_untouched _ _ _ _ hg]; exact hfresh g hg

/-- **optimizers continue identically**: any deterministic `step` gives the same next
iterate on the restored state -/
theorem optimizer_continues {β : Type} (step : State Tok → β) (fields : List String) (st st0 : State Tok)
    (hfresh : ∀ g, g ∉ fields → st0 g = st g) :
    step (readObj fields (writeObj fields st) st0) = step st := by
  rw [behaviour_preserved fields st st0 hfresh]

/-- what goes wrong otherwise: a field that `write` emits but `read` does not read
(ModelKernel before the repair: `read` never overrode `ISerializable::read`) is not restored -/
theorem unread_field_witness :
    readObj ([] : List String) (writeObj ["*m_wrapper"] (fun _ => [1])) (fun _ => [0]) "*m_wrapper" = [0] := by
  decide

/-- every class found by the translator satisfies both obligations -/
theorem all_classes_obligations (c : ClassInfo) (hc : c ∈ Gen.Serial.classes) :
    c.readWriteAgree = true ∧ c.membersCovered = true := by
  unfold Gen.Serial.classes at hc
  obtain ⟨k, _, rfl⟩ := List.mem_map.mp hc
  exact ⟨k.rw, k.cov⟩

/-- **per-class round trip**: for every `read`/`write` pair and every `serialize`
template in the repo tree, reading what was written restores every archived expression -/
theorem class_roundtrip (c : ClassInfo) (hc : c ∈ Gen.Serial.classes) (st st0 : State Tok) (g : String)
    (hg : g ∈ c.writeFields) :
    readObj c.readFields (writeObj c.writeFields st) st0 g = st g := by
  have h := (all_classes_obligations c hc).1
  simp only [ClassInfo.readWriteAgree, Bool.and_eq_true] at h
  have heq : c.readFields = c.writeFields := by
    have := h.1
    simpa using this
  rw [heq]
  exact read_write_id _ st st0 g hg

/-! ### datasets -/

theorem roundTrip_id {V α : Type} (c : Codec V α) (a : α) : roundTrip c a = some a := by
  unfold roundTrip
  have := c.law a []
  simp only [List.append_nil] at this
  rw [this]

/-- dense unlabeled data: same elements, same batch structure, same shape -/
theorem dataset_roundtrip_dense {V : Type} (d : Dataset (DenseBatch V)) :
    roundTrip (Codec.dataset Codec.denseBatch) d = some d := roundTrip_id _ d

/-- sparse unlabeled data -/
theorem dataset_roundtrip_sparse {V : Type} (d : Dataset (SparseBatch V)) :
    roundTrip (Codec.dataset Codec.sparseBatch) d = some d := roundTrip_id _ d

/-- labelled data with class labels (dense or sparse inputs) and with vector labels -/
theorem dataset_roundtrip_labeled {V B : Type} (cb : Codec V B) (d : LabeledDataset B (List Nat)) :
    roundTrip (Codec.labeled cb Codec.labelBatch) d = some d := roundTrip_id _ d

theorem dataset_roundtrip_regression {V B : Type} (cb : Codec V B) (d : LabeledDataset B (DenseBatch V)) :
    roundTrip (Codec.labeled cb Codec.denseBatch) d = some d := roundTrip_id _ d

/-- the archive really contains the data (non-vacuity: `enc` is not constant) -/
example : (Codec.dataset (V := Nat) Codec.denseBatch).enc ⟨[⟨1, 2, [7, 8]⟩], [2]⟩
    = [.nat 1, .nat 1, .nat 2, .nat 2, .val 7, .val 8, .nat 1, .nat 2] := by decide

/-- empty and single-element datasets are instances -/
example : roundTrip (Codec.dataset (V := Nat) Codec.denseBatch) ⟨[], []⟩ = some ⟨[], []⟩ := by decide
example : roundTrip (Codec.dataset (V := Nat) Codec.denseBatch) ⟨[⟨1, 1, [5]⟩], [1]⟩ = some ⟨[⟨1, 1, [5]⟩], [1]⟩ := by
  decide

end SharkVerif.C18
