/-
C05, third part (end to end, offsets) — the list-level statement of Props/C05f.lean for the offset entries `b[k0]` of the
optimised dense layers of the chain (same proof, `Chain.offset_derivative_correct` instead of `Chain.weight_derivative_correct`).
-/
import SharkVerif.Props.C05f
import Mathlib.Tactic.IntervalCases
set_option linter.unusedSectionVars false
set_option linter.unusedVariables false
namespace SharkVerif.C05
open SharkVerif SharkVerif.Models SharkVerif.Kernels Finset

/-- the offset entry of the backward pass depends only on the coefficient entries inside the batch × output range -/
theorem backward_offset_entry_congr (pre post : Chain ℝ) (m : Dense ℝ) (B nIn : ℕ) (X Cf Cf' : ℕ → ℕ → ℝ) (k0 : ℕ)
    (hk0 : k0 < m.nOut) (hb : m.hasB = true)
    (hwf : Chain.WF (pre ++ (Layer.dense m, true) :: post) nIn)
    (hnk : Chain.NoKink B (pre ++ (Layer.dense m, true) :: post) X)
    (h : ∀ i, i < B → ∀ k, k < Chain.nOut (pre ++ (Layer.dense m, true) :: post) nIn → Cf i k = Cf' i k) :
    (Chain.backward Real.tanh Real.exp B (pre ++ (Layer.dense m, true) :: post) X Cf).1.getD
        ((Chain.params pre).length + (m.nOut * m.nIn + k0)) 0 =
    (Chain.backward Real.tanh Real.exp B (pre ++ (Layer.dense m, true) :: post) X Cf').1.getD
        ((Chain.params pre).length + (m.nOut * m.nIn + k0)) 0 := by
  have h1 := Chain.offset_derivative_correct pre post m B nIn X Cf k0 hk0 hb hwf hnk
  have h2 := Chain.offset_derivative_correct pre post m B nIn X Cf' k0 hk0 hb hwf hnk
  have e : (fun t => Chain.objective
        (pre ++ (Layer.dense { m with b := fun k => if k = k0 then t else m.b k }, true) :: post) B nIn X Cf) =
      (fun t => Chain.objective
        (pre ++ (Layer.dense { m with b := fun k => if k = k0 then t else m.b k }, true) :: post) B nIn X Cf') := by
    funext t
    apply objective_congr
    intro i hi k hk
    apply h i hi k
    simpa only [Chain.nOut_append, Chain.nOut_cons, Layer.nOut] using hk
  rw [e] at h1
  exact h1.unique h2

/-- **end to end, Gaussian base kernel, lists**: the entry of the model part of the gradient the executable model computes
from the lists `C`, `X1`, `X2` — `chainGradM` of `X1` with `gaussInputDeriv(g(X1), g(X2), C)` plus `chainGradM` of `X2` with
`gaussInputDeriv(g(X2), g(X1), Cᵀ)`, exactly the two summands of `modelKernelParamGrad` (`modelKernelParamGrad_eq`) — at the
position of the offset entry `b[k0]` of an optimised dense layer anywhere in the chain is the derivative of
`Σᵢⱼ Cᵢⱼ exp(-γ‖g(x1ᵢ) − g(x2ⱼ)‖²)` with respect to that offset; batches of any (different) sizes. -/
theorem gauss_modelKernel_offset_derivative_lists (γ : ℝ) (pre post : Chain ℝ) (m : Dense ℝ) (nIn : ℕ)
    (C X1 X2 : Mat ℝ) (k0 : ℕ) (hk0 : k0 < m.nOut) (hb : m.hasB = true)
    (hCl : C.length = X1.length) (hCr : ∀ i, i < X1.length → (C.getD i []).length = X2.length)
    (hwf : Chain.WF (pre ++ (Layer.dense m, true) :: post) nIn)
    (hnk1 : Chain.NoKink X1.length (pre ++ (Layer.dense m, true) :: post) (matFn X1))
    (hnk2 : Chain.NoKink X2.length (pre ++ (Layer.dense m, true) :: post) (matFn X2)) :
    HasDerivAt (fun t => modelKernelSum (gaussFn γ (Chain.nOut (pre ++ (Layer.dense m, true) :: post) nIn))
        (pre ++ (Layer.dense { m with b := fun k => if k = k0 then t else m.b k }, true) :: post)
        X1.length X2.length (matFn X1) (matFn X2) (lmat C))
      ((chainGradM Real.tanh Real.exp (pre ++ (Layer.dense m, true) :: post) X1
          (gaussInputDeriv Real.exp γ C
            (chainEvalM Real.tanh Real.exp (pre ++ (Layer.dense m, true) :: post) nIn X1)
            (chainEvalM Real.tanh Real.exp (pre ++ (Layer.dense m, true) :: post) nIn X2))).getD
          ((Chain.params pre).length + (m.nOut * m.nIn + k0)) 0 +
       (chainGradM Real.tanh Real.exp (pre ++ (Layer.dense m, true) :: post) X2
          (gaussInputDeriv Real.exp γ (transposeM C X2.length)
            (chainEvalM Real.tanh Real.exp (pre ++ (Layer.dense m, true) :: post) nIn X2)
            (chainEvalM Real.tanh Real.exp (pre ++ (Layer.dense m, true) :: post) nIn X1))).getD
          ((Chain.params pre).length + (m.nOut * m.nIn + k0)) 0) (m.b k0) := by
  set c := pre ++ (Layer.dense m, true) :: post with hc
  set d := Chain.nOut c nIn with hd
  set Y1 := Chain.evalB Real.tanh Real.exp c (matFn X1) with hY1
  set Y2 := Chain.evalB Real.tanh Real.exp c (matFn X2) with hY2
  have main := modelKernel_offset_derivative_correct (gaussFn γ d) pre post m X1.length X2.length nIn (matFn X1) (matFn X2)
    (lmat C) (gaussD1 γ d X2.length (lmat C) Y1 Y2) (gaussD2 γ d X1.length (lmat C) Y1 Y2) k0 hk0 hb hwf hnk1 hnk2
    (gauss_kernelInputDerivs γ d X1.length X2.length (lmat C) Y1 Y2)
  refine main.congr_deriv ?_
  -- the tabulated evaluations
  have hU1len : (chainEvalM Real.tanh Real.exp c nIn X1).length = X1.length := fnMat_length _ _ _
  have hU2len : (chainEvalM Real.tanh Real.exp c nIn X2).length = X2.length := fnMat_length _ _ _
  have hU1row : ∀ i, i < X1.length → ((chainEvalM Real.tanh Real.exp c nIn X1).getD i []).length = d := by
    intro i hi; unfold chainEvalM; rw [fnMat_row_length _ _ _ i hi, chainOutDim_eq_nOut]
  have hU2row : ∀ j, j < X2.length → ((chainEvalM Real.tanh Real.exp c nIn X2).getD j []).length = d := by
    intro j hj; unfold chainEvalM; rw [fnMat_row_length _ _ _ j hj, chainOutDim_eq_nOut]
  have hU1 : ∀ i, i < X1.length → ∀ b, b < d → lmat (chainEvalM Real.tanh Real.exp c nIn X1) i b = Y1 i b := by
    intro i hi b hb; unfold chainEvalM; rw [lmat_fnMat _ _ _ i b hi (by rw [chainOutDim_eq_nOut]; exact hb)]
  have hU2 : ∀ j, j < X2.length → ∀ b, b < d → lmat (chainEvalM Real.tanh Real.exp c nIn X2) j b = Y2 j b := by
    intro j hj b hb; unfold chainEvalM; rw [lmat_fnMat _ _ _ j b hj (by rw [chainOutDim_eq_nOut]; exact hb)]
  rw [chainGradM_eq, chainGradM_eq]
  congr 1
  · -- batch X1
    apply backward_offset_entry_congr pre post m X1.length nIn (matFn X1) _ _ k0 hk0 hb hwf hnk1
    intro i hi a ha
    rw [matFn_eq_lmat,
      gaussInputDeriv_entry γ d C _ _ i a (by rw [hU1len]; exact hi) ha (by rw [hU1len]; exact hCl)
        (by rw [hU2len]; exact hCr i hi) (hU1row i hi) (by intro j hj; rw [hU2len] at hj; exact hU2row j hj), hU2len]
    exact gaussD1_congr γ d X1.length X2.length _ _ _ _ _ _ i a hi ha (fun _ _ _ _ => rfl)
      (fun i hi b hb => (hU1 i hi b hb).symm) (fun j hj b hb => (hU2 j hj b hb).symm)
  · -- batch X2: the transposed call
    apply backward_offset_entry_congr pre post m X2.length nIn (matFn X2) _ _ k0 hk0 hb hwf hnk2
    intro j hj a ha
    rw [gaussD2_eq_gaussD1_transpose, matFn_eq_lmat,
      gaussInputDeriv_entry γ d (transposeM C X2.length) _ _ j a (by rw [hU2len]; exact hj) ha
        (by rw [hU2len, transposeM_length]) (by rw [hU1len, transposeM_row_length _ _ j hj, hCl])
        (hU2row j hj) (by intro i hi; rw [hU1len] at hi; exact hU1row i hi), hU1len]
    exact gaussD1_congr γ d X2.length X1.length _ _ _ _ _ _ j a hj ha
      (fun j hj i hi => (lmat_transposeM C X2.length i j hj (by rw [hCl]; exact hi)).symm)
      (fun j hj b hb => (hU2 j hj b hb).symm) (fun i hi b hb => (hU1 i hi b hb).symm)


/-! ### non-vacuity of the list-level theorems: `chainDemo` (tanh dense, frozen logistic neurons, linear dense, softmax), three points
against two points, all hypotheses discharged -/

example (γ : ℝ) :
    let C : Mat ℝ := [[1, -2], [3, 1], [0, 2]]
    let X1 : Mat ℝ := [[1, 0], [2, -1], [0, 3]]
    let X2 : Mat ℝ := [[-1, 1], [2, 2]]
    HasDerivAt (fun t => modelKernelSum (gaussFn γ (Chain.nOut chainDemo 2))
        (chainDemoPre ++ (Layer.dense { chainDemoMid with W := fun k j => if k = 1 ∧ j = 2 then t else chainDemoMid.W k j }, true) :: chainDemoPost)
        X1.length X2.length (matFn X1) (matFn X2) (lmat C))
      ((chainGradM Real.tanh Real.exp chainDemo X1
          (gaussInputDeriv Real.exp γ C (chainEvalM Real.tanh Real.exp chainDemo 2 X1) (chainEvalM Real.tanh Real.exp chainDemo 2 X2))).getD
          ((Chain.params chainDemoPre).length + (1 * chainDemoMid.nIn + 2)) 0 +
       (chainGradM Real.tanh Real.exp chainDemo X2
          (gaussInputDeriv Real.exp γ (transposeM C X2.length) (chainEvalM Real.tanh Real.exp chainDemo 2 X2)
            (chainEvalM Real.tanh Real.exp chainDemo 2 X1))).getD
          ((Chain.params chainDemoPre).length + (1 * chainDemoMid.nIn + 2)) 0) (chainDemoMid.W 1 2) := by
  intro C X1 X2
  exact gauss_modelKernel_weight_derivative_lists γ chainDemoPre chainDemoPost chainDemoMid 2 C X1 X2 1 2
    (by simp [chainDemoMid]) (by simp [chainDemoMid]) rfl
    (by intro i hi; have : i < 3 := hi; interval_cases i <;> rfl)
    ⟨rfl, rfl, rfl, rfl, trivial⟩
    (by simp [chainDemoPre, chainDemoMid, chainDemoPost, Chain.NoKink, Layer.NoKink])
    (by simp [chainDemoPre, chainDemoMid, chainDemoPost, Chain.NoKink, Layer.NoKink])

end SharkVerif.C05
